#!/usr/bin/env python3
"""Mutation sweep (development aid, not a registered check): small syntactic changes of /repo's source that still
pass the 290-test suite are run against the quick checks of the properties anchored in that file.

  tools_mutants.py list <file>                     enumerate mutants of one source file
  tools_mutants.py sweep [-j N] [--only file,...] [--props Cnn,...] [--limit K] [--out mutants/run1.jsonl]

Each worker owns a scratch copy of the repository under /tmp/mut-<k> (removed at the end); checks are pointed at
it through VERIF_REPO and write to .work/mut/<k> (VERIF_WORK / VERIF_EVIDENCE_DIR).  Survivors (suite passes, no
check raises a violation) are what to look at: equivalent mutants, behaviour outside every property, or a gap."""
import ast, os, sys, json, subprocess, shutil, time, re, argparse
from concurrent.futures import ThreadPoolExecutor

HERE = os.path.dirname(os.path.abspath(__file__))
PY = "/venv/bin/python"
REPO = "/repo"

FILES = {
    "amaranth_soc/memory.py": ["C02", "C03", "C18", "C17", "C06", "C01"],
    "amaranth_soc/csr/bus.py": ["C04", "C05", "C06", "C19", "C01", "C20"],
    "amaranth_soc/csr/reg.py": ["C11", "C17", "C19", "C20"],
    "amaranth_soc/csr/action.py": ["C12", "C19"],
    "amaranth_soc/csr/event.py": ["C14", "C20", "C19"],
    "amaranth_soc/csr/wishbone.py": ["C10", "C01", "C20"],
    "amaranth_soc/wishbone/bus.py": ["C07", "C08", "C09", "C01", "C20", "C19"],
    "amaranth_soc/wishbone/sram.py": ["C15", "C01", "C20", "C19"],
    "amaranth_soc/event.py": ["C13", "C14", "C20"],
    "amaranth_soc/gpio.py": ["C16", "C20", "C19"],
}

CMP = {ast.Lt: "<=", ast.LtE: "<", ast.Gt: ">=", ast.GtE: ">", ast.Eq: "!=", ast.NotEq: "=="}
CMPTXT = {ast.Lt: "<", ast.LtE: "<=", ast.Gt: ">", ast.GtE: ">=", ast.Eq: "==", ast.NotEq: "!="}
BIN = {ast.Add: "-", ast.Sub: "+", ast.LShift: ">>", ast.RShift: "<<", ast.BitAnd: "|", ast.BitOr: "&",
       ast.Mult: "//", ast.FloorDiv: "*", ast.Mod: "//"}
BINTXT = {ast.Add: "+", ast.Sub: "-", ast.LShift: "<<", ast.RShift: ">>", ast.BitAnd: "&", ast.BitOr: "|",
          ast.Mult: "*", ast.FloorDiv: "//", ast.Mod: "%"}


def line_offsets(src):
    offs = [0]
    for l in src.splitlines(keepends=True):
        offs.append(offs[-1] + len(l.encode()))
    return offs


def mutants(path):
    src = open(path).read()
    b = src.encode()
    offs = line_offsets(src)
    tree = ast.parse(src)
    skip = set()       # nodes inside f-strings / raise statements / docstrings: messages, not behaviour
    for n in ast.walk(tree):
        if isinstance(n, (ast.JoinedStr, ast.Raise)):
            for c in ast.walk(n):
                skip.add(id(c))
        if isinstance(n, ast.Raise) and n.exc is not None:
            skip.discard(id(n))
    out = []

    def pos(n):
        return offs[n.lineno - 1] + n.col_offset, offs[n.end_lineno - 1] + n.end_col_offset

    def between(a_end, b_start, old, new, what, line):
        seg = b[a_end:b_start].decode()
        i = seg.find(old)
        if i < 0:
            return
        s = a_end + len(seg[:i].encode())
        out.append((s, s + len(old.encode()), new, f"{what}: `{old}` -> `{new}`", line))

    for n in ast.walk(tree):
        if id(n) in skip:
            continue
        if isinstance(n, ast.Compare) and len(n.ops) == 1 and type(n.ops[0]) in CMP:
            a_end = pos(n.left)[1]; b_start = pos(n.comparators[0])[0]
            between(a_end, b_start, CMPTXT[type(n.ops[0])], CMP[type(n.ops[0])], "cmp", n.lineno)
        elif isinstance(n, ast.BinOp) and type(n.op) in BIN:
            if isinstance(n.left, ast.Constant) and isinstance(n.left.value, str):
                continue
            a_end = pos(n.left)[1]; b_start = pos(n.right)[0]
            between(a_end, b_start, BINTXT[type(n.op)], BIN[type(n.op)], "binop", n.lineno)
        elif isinstance(n, ast.AugAssign) and type(n.op) in (ast.BitOr, ast.Add, ast.Sub):
            pass
        elif isinstance(n, ast.BoolOp):
            old = "and" if isinstance(n.op, ast.And) else "or"
            new = "or" if old == "and" else "and"
            a_end = pos(n.values[0])[1]; b_start = pos(n.values[1])[0]
            between(a_end, b_start, old, new, "boolop", n.lineno)
        elif isinstance(n, ast.UnaryOp) and isinstance(n.op, (ast.Not, ast.Invert)):
            s, e = pos(n); s2, _ = pos(n.operand)
            out.append((s, s2, "", f"drop `{b[s:s2].decode().strip()}`", n.lineno))
        elif isinstance(n, ast.Constant) and isinstance(n.value, int) and not isinstance(n.value, bool) \
                and 0 <= n.value <= 3:
            s, e = pos(n)
            out.append((s, e, str(n.value + 1), f"const {n.value} -> {n.value + 1}", n.lineno))
            if n.value > 0:
                out.append((s, e, str(n.value - 1), f"const {n.value} -> {n.value - 1}", n.lineno))
        elif isinstance(n, ast.Constant) and isinstance(n.value, bool):
            s, e = pos(n)
            out.append((s, e, str(not n.value), f"const {n.value} -> {not n.value}", n.lineno))
        elif isinstance(n, ast.If) and not n.orelse and isinstance(n.test, ast.Compare):
            pass
    # statement deletion: `m.d.<domain> += ...` single statements
    for n in ast.walk(tree):
        if isinstance(n, ast.AugAssign) and isinstance(n.target, ast.Attribute) and \
                isinstance(n.target.value, ast.Attribute) and n.target.value.attr == "d":
            s, e = pos(n)
            out.append((s, e, "pass", "delete statement `" + b[s:e].decode().split("\n")[0][:60] + "`", n.lineno))
    res = []
    seen = set()
    for (s, e, new, what, line) in sorted(out):
        key = (s, e, new)
        if key in seen:
            continue
        seen.add(key)
        m = b[:s] + new.encode() + b[e:]
        try:
            ast.parse(m.decode())
        except SyntaxError:
            continue
        res.append({"line": line, "what": what, "text": m.decode()})
    return res


def run(cmd, cwd, env, timeout):
    try:
        p = subprocess.run(cmd, cwd=cwd, env=env, stdout=subprocess.PIPE, stderr=subprocess.STDOUT, timeout=timeout)
        return p.returncode, p.stdout.decode(errors="replace")
    except subprocess.TimeoutExpired:
        return 124, "timeout"


def worker(k, jobs, props_filter, outpath, lock):
    d = f"/tmp/mut-{k}"
    shutil.rmtree(d, ignore_errors=True)
    os.makedirs(d)
    for x in ("amaranth_soc", "tests", "pyproject.toml"):
        src = os.path.join(REPO, x)
        (shutil.copytree if os.path.isdir(src) else shutil.copy)(src, os.path.join(d, x))
    env = dict(os.environ)
    env.update({"PYTHONPATH": d, "PYTHONHASHSEED": "0", "PYTHONDONTWRITEBYTECODE": "1"})
    work = os.path.join(HERE, ".work", "mut", str(k))
    cenv = dict(env)
    cenv.update({"VERIF_REPO": d, "VERIF_WORK": work, "VERIF_EVIDENCE_DIR": os.path.join(work, "evidence"),
                 "VERIF_JOBS": "4"})
    for (rel, idx, mu) in jobs:
        path = os.path.join(d, rel)
        orig = open(os.path.join(REPO, rel)).read()
        open(path, "w").write(mu["text"])
        rec = {"file": rel, "idx": idx, "line": mu["line"], "what": mu["what"]}
        rc, out = run([PY, "-m", "pytest", "-q", "-x", "-p", "no:cacheprovider", "--timeout=120"], d, env, 600)
        rec["suite"] = "pass" if rc == 0 else "fail"
        if rc == 0:
            rec["checks"] = {}
            for pid in FILES[rel]:
                if props_filter and pid not in props_filter:
                    continue
                if not os.path.exists(os.path.join(HERE, "harness", "propdefs", pid + ".json")):
                    continue
                t0 = time.time()
                rc2, out2 = run([os.path.join(HERE, "check"), pid, "quick"], HERE, cenv, 1800)
                vio = [l for l in out2.splitlines() if l.startswith("VIOLATION")]
                rec["checks"][pid] = ("caught" if (rc2 == 1 and vio and not vio[0].endswith("no-failing-input-found"))
                                      else "caught-nfi" if (rc2 == 1 and vio) else "missed" if rc2 == 0 else f"error{rc2}")
                rec.setdefault("wall", {})[pid] = round(time.time() - t0, 1)
            rec["survived"] = not any(v.startswith("caught") for v in rec["checks"].values())
        with lock:
            with open(outpath, "a") as f:
                f.write(json.dumps(rec) + "\n")
        open(path, "w").write(orig)
    shutil.rmtree(d, ignore_errors=True)


def main():
    ap = argparse.ArgumentParser()
    ap.add_argument("cmd")
    ap.add_argument("file", nargs="?")
    ap.add_argument("-j", type=int, default=4)
    ap.add_argument("--only", default="")
    ap.add_argument("--props", default="")
    ap.add_argument("--limit", type=int, default=0)
    ap.add_argument("--stride", type=int, default=1)
    ap.add_argument("--out", default=os.path.join(HERE, ".work", "mutants.jsonl"))
    a = ap.parse_args()
    if a.cmd == "list":
        for i, m in enumerate(mutants(os.path.join(REPO, a.file))):
            print(i, m["line"], m["what"])
        return
    import threading
    only = [x for x in a.only.split(",") if x]
    props = [x for x in a.props.split(",") if x]
    jobs = []
    for rel in FILES:
        if only and not any(o in rel for o in only):
            continue
        ms = mutants(os.path.join(REPO, rel))
        for i, m in enumerate(ms):
            if i % a.stride == 0:
                jobs.append((rel, i, m))
    if a.limit:
        jobs = jobs[:a.limit]
    os.makedirs(os.path.dirname(a.out), exist_ok=True)
    done = set()
    if os.path.exists(a.out):
        for l in open(a.out):
            r = json.loads(l); done.add((r["file"], r["idx"]))
    jobs = [j for j in jobs if (j[0], j[1]) not in done]
    print(len(jobs), "mutants to run")
    lock = threading.Lock()
    with ThreadPoolExecutor(a.j) as ex:
        fs = [ex.submit(worker, k, jobs[k::a.j], props, a.out, lock) for k in range(a.j)]
        for f in fs:
            f.result()


if __name__ == "__main__":
    main()
