#!/bin/sh
# Offline build of the Coq development (full .vo build) and the OCaml driver.
set -e
cd "$(dirname "$0")"
J=${VERIF_JOBS:-16}
python3 tools_gen.py
cd coq
[ -f Makefile ] && [ Makefile -nt _CoqProject ] || coq_makefile -f _CoqProject -o Makefile
mkdir -p ../.work
if ! timeout 3000 make -j"$J" > ../.work/make.$$.log 2>&1; then
  grep -v '^COQC\|^COQDEP\|^CLEAN\|Closed under the global context' ../.work/make.$$.log | tail -40
  rm -f ../.work/make.$$.log
  echo setup-FAILED
  exit 1
fi
rm -f ../.work/make.$$.log
test -f Extract/Extract.vo && test Extract/Extract.vo -nt Extract/Extract.v
# every source must have an up-to-date .vo (make -k is not used; a failed file stops the build)
for f in $(grep '\.v$' _CoqProject); do test -f "${f}o" || { echo "missing ${f}o"; exit 1; }; done
cd ../ocaml
if [ ! -x driver ] || [ model.ml -nt driver ] || [ driver.ml -nt driver ]; then
  rm -f model.mli
  timeout 600 ocamlfind ocamlopt -O3 -w -a -o driver model.ml driver.ml 2>/dev/null || \
  timeout 600 ocamlfind ocamlopt -w -a -o driver model.ml driver.ml
fi
echo setup-ok
