#!/bin/sh
# Offline build of the Coq development (full .vo build) and the OCaml driver.
set -e
cd "$(dirname "$0")"
J=${VERIF_JOBS:-16}
cd coq
[ -f Makefile ] && [ Makefile -nt _CoqProject ] || coq_makefile -f _CoqProject -o Makefile
timeout 3000 make -j"$J" 2>&1 | grep -v '^COQC\|^COQDEP\|^CLEAN' || true
test -f Extract/Extract.vo
cd ../ocaml
if [ ! -x driver ] || [ model.ml -nt driver ] || [ driver.ml -nt driver ]; then
  rm -f model.mli
  timeout 600 ocamlfind ocamlopt -O3 -w -a -o driver model.ml driver.ml 2>/dev/null || \
  timeout 600 ocamlfind ocamlopt -w -a -o driver model.ml driver.ml
fi
echo setup-ok
