"""Shared plumbing: sx codec, model driver, paths, hashing."""
import os, sys, json, subprocess, hashlib, random, time

VERIF = os.path.dirname(os.path.dirname(os.path.abspath(__file__)))
REPO = os.environ.get("VERIF_REPO", "/repo")
COQ = os.path.join(VERIF, "coq")
DRIVER = os.path.join(VERIF, "ocaml", "driver")
WORK = os.environ.get("VERIF_WORK") or os.path.join(VERIF, ".work")       # per-run scratch (never /tmp by default)
LOCKDIR = os.path.join(VERIF, ".work")                                      # the build lock is shared by all runs
EVIDENCE = os.environ.get("VERIF_EVIDENCE_DIR") or os.path.join(VERIF, "evidence")

# The implementation is always imported from /repo's working tree, never from site-packages.
if REPO not in sys.path:
    sys.path.insert(0, REPO)


def sx_dump(x):
    if isinstance(x, bool):
        return "1" if x else "0"
    if isinstance(x, int):
        return format(x, "x")
    return "(" + " ".join(sx_dump(y) for y in x) + ")"


def sx_load(s):
    pos = 0
    n = len(s)

    def item():
        nonlocal pos
        while pos < n and s[pos] == " ":
            pos += 1
        if s[pos] == "(":
            pos += 1
            out = []
            while True:
                while pos < n and s[pos] == " ":
                    pos += 1
                if s[pos] == ")":
                    pos += 1
                    return out
                out.append(item())
        st = pos
        while pos < n and s[pos] not in " ()":
            pos += 1
        return int(s[st:pos], 16)
    return item()


def coq_sx(x):
    """Coq literal of type sx for the in-Coq replay sample."""
    if isinstance(x, bool):
        x = int(x)
    if isinstance(x, int):
        return f"A ({x})" if x >= 0 else f"A ({x})"
    return "L [" + "; ".join(coq_sx(y) for y in x) + "]"


def model_run(engine_id, cases, raw=False):
    """Run the extracted model on a list of cases (nested int lists); returns nested int lists
    (or the raw sx text lines when raw=True)."""
    if not cases:
        return []
    data = "\n".join(f"{engine_id:x} {sx_dump(c)}" for c in cases) + "\n"
    p = subprocess.run([DRIVER], input=data.encode(), stdout=subprocess.PIPE, stderr=subprocess.PIPE,
                       timeout=3000, preexec_fn=_unlimit_stack)
    if p.returncode != 0:
        raise RuntimeError("model driver failed: " + p.stderr.decode()[-2000:])
    lines = p.stdout.decode().splitlines()
    if len(lines) != len(cases):
        raise RuntimeError(f"model driver returned {len(lines)} lines for {len(cases)} cases")
    return lines if raw else [sx_load(l) for l in lines]


def model_run_parallel(engine_id, cases, jobs=16, raw=False):
    """Same, split over several driver processes."""
    if len(cases) < 64:
        return model_run(engine_id, cases, raw)
    from concurrent.futures import ThreadPoolExecutor
    k = min(jobs, max(1, len(cases) // 16))
    parts = [cases[i::k] for i in range(k)]
    with ThreadPoolExecutor(k) as ex:
        res = list(ex.map(lambda p: model_run(engine_id, p, raw), parts))
    out = [None] * len(cases)
    for i, part in enumerate(res):
        out[i::k] = part
    return out


def _unlimit_stack():
    import resource
    try:
        resource.setrlimit(resource.RLIMIT_STACK, (resource.RLIM_INFINITY, resource.RLIM_INFINITY))
    except Exception:
        try:
            soft, hard = resource.getrlimit(resource.RLIMIT_STACK)
            resource.setrlimit(resource.RLIMIT_STACK, (hard, hard))
        except Exception:
            pass


def case_hash(x):
    return hashlib.sha1(json.dumps(x, sort_keys=True, default=str).encode()).hexdigest()


def mkrnd(seed, *salt):
    h = hashlib.sha256(("|".join(str(s) for s in (seed,) + salt)).encode()).digest()
    return random.Random(int.from_bytes(h[:8], "big"))


def ensure_dir(p):
    os.makedirs(p, exist_ok=True)
    return p


def first_diff(a, b, path=()):
    """Path of the first difference between two nested lists, or None."""
    if isinstance(a, list) and isinstance(b, list):
        if len(a) != len(b):
            return path + ("len", len(a), len(b))
        for i, (x, y) in enumerate(zip(a, b)):
            d = first_diff(x, y, path + (i,))
            if d is not None:
                return d
        return None
    if a != b:
        return path + ("val", a, b)
    return None


def spell_features(names, key):
    """The same Wishbone feature set in one of the spellings the API accepts (any iterable of strings or of
    Feature members, one-shot iterators included): the container must not matter to any component."""
    from amaranth_soc import wishbone
    names = list(names)
    v = key % 7
    if v == 0:
        return set(names)
    if v == 1:
        return list(names)
    if v == 2:
        return frozenset(names)
    if v == 3:
        return iter(tuple(names))
    ms = [wishbone.Feature(f) for f in names]
    return [set(ms), frozenset(ms), (m for m in ms)][v - 4]
