"""Port-level simulation of a real elaborated design under Amaranth's simulator."""
import zlib
import os
import warnings
warnings.simplefilter("ignore")
from . import common  # noqa: F401  (puts /repo first on sys.path)
from amaranth import *
from amaranth.hdl import Fragment, Value
from amaranth.sim import Simulator


def V(sig):
    """Enum/view shaped ports are driven and read as plain bit patterns."""
    return Value.cast(sig)


def uget(ctx, sig):
    v = ctx.get(sig)
    n = len(sig)
    return int(v) & ((1 << n) - 1) if n else 0


def simulate(dut, ins, outs, stim, *, probe=None, frag=None, reset_at=()):
    """Drive `ins` (list of signals) with each row of `stim`, read `outs` after combinational settle,
    then advance one clock.  Returns the list of output rows.  `probe(ctx, t)` may return extra
    observations appended to the row (used for memory contents).
    The design is elaborated exactly once.
    `reset_at`: cycle numbers in which the synchronous reset of the `sync` domain is asserted (through
    amaranth's ResetInserter around the design): outputs of that cycle are still those of the old state, the
    state after its clock edge is the reset state."""
    ins = [V(s) for s in ins]
    outs = [V(s) for s in outs]
    rst = None
    if reset_at:
        from amaranth.hdl import ResetInserter
        rst = Signal(name="verif_rst")
        dut = ResetInserter(rst)(dut)
        reset_at = set(reset_at)
    if frag is None or rst is not None:
        # "every elaboration yields the same hardware": for about a quarter of the runs (chosen by the shape of
        # the run -- a checksum of its first rows --, so that it is reproducible) the design is elaborated once more beforehand and that first
        # result is thrown away; what is simulated is the SECOND elaboration of the same instance
        if zlib.crc32(repr((len(ins), len(outs), stim[:6])).encode()) % 4 == 0 and not os.environ.get("VERIF_ELABORATE_ONCE") \
                and not getattr(dut, "verif_elaborate_once", False):
            try:
                Fragment.get(dut, None)
            except Exception:
                pass          # a design that cannot be elaborated is reported by the run below
        frag = Fragment.get(dut, None)
    sim = Simulator(frag)
    sim.add_clock(1e-6, if_exists=True)
    rows = []
    state = {"sync": None}

    async def tb(ctx):
        for t, row in enumerate(stim):
            for s, v in zip(ins, row):
                if len(s):
                    ctx.set(s, v & ((1 << len(s)) - 1))
            if rst is not None:
                ctx.set(rst, int(t in reset_at))
            o = [uget(ctx, s) for s in outs]
            if probe is not None:
                o.append(probe(ctx, t))
            rows.append(o)
            if state["sync"] is None:
                try:
                    await ctx.tick()
                    state["sync"] = True
                except NameError:
                    state["sync"] = False
                    await ctx.delay(1e-6)
            elif state["sync"]:
                await ctx.tick()
            else:
                await ctx.delay(1e-6)

    sim.add_testbench(tb)
    sim.run()
    return rows


def find_signals(frag, name):
    """Signals assigned anywhere in the fragment tree whose name is `name` (no source hook needed)."""
    found = {}

    def walk(f):
        for dom, stmts in f.statements.items():
            for st in stmts:
                for s in st._lhs_signals():
                    if s.name == name:
                        found[id(s)] = s
        for sub, *_ in f.subfragments:
            if hasattr(sub, "statements"):
                walk(sub)
    walk(frag)
    return list(found.values())
