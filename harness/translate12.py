"""Fail-closed translator for `csr.Builder` (in full) and `csr.Bridge.__init__` of /repo's amaranth_soc/csr/reg.py
(DESIGN 4.2, stage `builderrest`).  On every run the Python AST of the CURRENT source is walked statement by
statement and re-emitted as Gallina (Gen/BuilderRestGen.v); Gen/TieBuilderRest.v then proves every generated
definition equal to the hand-written model (Model/Builder.v on top of Model/MemoryMap.v) for ALL inputs.  Nothing is
compared against expected source text; every statement / expression form that is not listed here raises Untranslatable.

Python subset
  statements   docstrings, `pass`; assignment to a local, to a tuple of locals (unpacking, nested), to a declared state
               attribute `self.<a>` / `self.<a>.<b>`, to `d[k]` of a dict; `x op= e` on an int local; `if / elif / else`
               (any nesting); `raise E(...)`; `assert e`; `return [e]`; `for <target> in <iterable>:` with `break`,
               `continue`, `return`, `raise` and loop-carried locals (no `else:`); expression statements that are calls:
               `l.append(e)`, `l.pop()`, `self.<method>(...)`, `<external object>.<method>(...)`,
               `super().__init__({<str>: <member>, ...})` in a constructor; inside a `@contextmanager` function the single
               `try: yield  finally: ...` statement.
  expressions  int / bool / None / str constants, locals, `self.<state attribute>`, `self.<property>`, `+ - * // % << >>
               & | ^ **`, unary `- ~`, comparisons (`== != < <= > >=`, `is None`, `is not None`, `in` / `not in` on a
               dict), `and / or / not` (short-circuit: the right operand is only evaluated, and can only raise, when the
               left one lets it), `a if c else b`, `isinstance(x, int | str | Register | <external class>)`, `id len
               list tuple dict min max enumerate ceil_log2`, tuple displays `(a, b, c)` and `(*l, a)`, list / dict
               displays, `d[k]`, `l[i]`, `d.values() / keys() / items()`, attribute reads and method calls of the
               external classes listed in EXT, `In(x)` / `Out(x)`.

Reading of the control flow.  A statement sequence is translated in continuation style: the statements that follow an
`if` are copied into both arms (no joins), so a variable may have a different type on each path.  A condition that
proves `isinstance(x, int)` / `isinstance(x, str)` / `isinstance(x, C)` on a path (the fall-through of
`if not isinstance(x, int) or ...: raise`, the then-arm of `if isinstance(..) and ..:`, what follows an `assert`) NARROWS
x on that path: the rest is wrapped in `match x with VInt x' => ... | _ => <Err OtherError> end` and sees an int.  Without
such a proof, arithmetic and ordering on a possibly-non-int value go through `int_of` (Err OtherError on None / non-int),
the truth value of a possibly-non-str value through `str_truthy`, etc. (coq/Lib/PyBuilder.v): dropping a guard makes
the unknown outcome reachable and the tie lemma false.  A loop is `for_each (fun item carried => body) items carried0`
(coq/Lib/PyLoop.v), the body answering Next / Brk / Ret or Err; loop bodies may not change `self`.
Statements in front of a `raise` at the end of an `if` block that only build the message (no store to an attribute or
subscript, no call on `self`) are dropped, as in translate2; it is ASSUMED that they do not raise themselves.
`//` and `%` are Z.div / Z.modulo: ZeroDivisionError is not represented (the divisors here are data_width, granularity
and data_width // granularity, which `__init__` has validated positive).

How Python objects are represented (coq/Lib/PyBuilder.v is the trusted reading of the primitives)
  * int = Z; a possibly-None / possibly-non-int argument = `pyint` (VInt / VNone / VBad), exactly as translate2; a bool
    argument is an int.  A str is an interned atom (Z, 0 = the empty string); an argument expected to be a str is
    `pystr` (YStr atom / YNone / YOther).  An f-string is never translated (messages only).
  * the `reg` argument is `pyobj`: OReg id width (a csr.Register: its identity `id(reg)` and `reg.element.width`) or
    OOther id; `isinstance(reg, Register)` is `is_register`, `id(reg)` is `obj_id`, `reg.element.width` is `elem_width`
    (Err OtherError on a non-Register).
  * a method that changes `self` is a function  state -> args -> state * res result : the first component is the
    object's state when the call ends, normally OR by an exception (every `raise`, failed `assert` and raising
    sub-expression carries the state reached so far, `bind_st`).  The state of a class is the record of the attributes
    declared in CLASSES (all must be assigned by `__init__`, nothing else may be).  `__init__` is  args -> res state.
    A `@property` whose body is `return <pure expression>` is a function state -> value, inlined at `self.<property>`.
  * exceptions are `res` values: `raise ValueError/TypeError/KeyError/AssertionError` = Err of that name, any other
    exception class = Err OtherError; a failed `assert` = Err AssertionError; IndexError of `[].pop()` = Err OtherError
    and KeyError of `d[k]` = Err KeyError.
  * the dict `self._registers` (keyed by `id(reg)`) is an association list  (key, value)  in insertion order
    (`odict`): `k in d` = od_has, `d[k] = v` = od_set (an existing key keeps its place), `d[k]` = od_get, `d.values()` =
    the values in insertion order.  Its values are the tuples the code stores: (reg, name tuple, offset).
  * `self._scope_stack` is a `list rawpart` (RStr atom / RInt n / ROther: whatever was appended); `.append(x)` = l ++ [x],
    `.pop()` = py_pop (last item, rest).  A tuple display with a starred item, `(*self._scope_stack, name)`, is the
    concatenation as a `list rawpart`; where it is handed to `add_resource(name=...)` it is the raw name `NTuple l`.
    `a == b` on such items is `rawpart_eq` (str vs int = False, anything unknown = Err OtherError).
  * external classes (EXT: MemoryMap, csr.Multiplexer, csr.Signature) are PARAMETERS of the generated section: a type
    and one function per constructor / method / attribute used.  Calls are bound to parameter names with the signature
    read from the CURRENT source of that class (defaults included), so `alignment=` left out of a call shows as VNone.
    A constructor or raising method returns `res`; a method that mutates the object returns the new object, and the
    local variable holding it is rebound (two names for one mutable object, or mutating an object after it was stored
    in an attribute / handed to a constructor, abort the translation).  The state of an external object after one of
    ITS methods raised is not represented (the exception always propagates out of the translated method).
    `windows()` / `resources()` are generators: usable once, as the iterable of a `for` or inside `list(...)`.
  * context managers: a method decorated `@contextmanager` whose body is  <enter statements>; try: yield finally:
    <exit statements>  becomes the pair  gen_<m>_enter, gen_<m>_exit : state -> args -> state * res unit  and
    gen_<m>_with := with_ctx (enter args) (exit args) body  with the body of the `with` block as a parameter
    (state -> state * res A).  with_ctx (PyBuilder.v) is contextlib's protocol: enter raises -> the block and the
    exit code are skipped; otherwise the exit code runs whether the block ended normally or raised, and an exception
    of the exit code replaces the block's outcome.  The exit code may use the method's parameters (not locals of the
    enter code, and the enter code may not reassign a parameter); any other shape (yield with a value, a second
    yield, except clauses, statements after the try) aborts.
  * `Bridge.__init__` returns  res (memory_map as it is left, (self._mux, signature members, self.bus.memory_map)):
    `super().__init__({...})` records the member dict as a list of (name, (direction, signature)).
"""
import ast, os

from .translate import Untranslatable, BINOPS, find_func, attr_path
from .translate2 import M as _M2

REG_FILE = "amaranth_soc/csr/reg.py"

# ------------------------------------------------------------------------------------------------ declarations

T_REGVAL = ("tuple", ("pyobj", ("list", "rawpart"), "pyint"))

CLASSES = [
    {"cls": "Builder", "record": True,
     "state": [("_addr_width", "Z"), ("_data_width", "Z"), ("_granularity", "Z"),
               ("_registers", ("dict", T_REGVAL)), ("_scope_stack", ("list", "rawpart")), ("_frozen", "bool")],
     "methods": {"__init__": {"params": {"addr_width": "pyint", "data_width": "pyint", "granularity": "pyint"}},
                 "addr_width": {}, "data_width": {}, "granularity": {},
                 "freeze": {"params": {}, "ret": "unit"},
                 "add": {"params": {"name": "pystr", "reg": "pyobj", "offset": "pyint"}, "ret": "pyobj"},
                 "Cluster": {"params": {"name": "pystr"}, "ret": "unit"},
                 "Index": {"params": {"index": "pyint"}, "ret": "unit"},
                 "as_memory_map": {"params": {}, "ret": ("ext", "MMap")}},
     "ignore": []},
    {"cls": "Bridge", "record": False,
     "state": [("_mux", ("ext", "Mux")),
               ("__members__", ("list", ("tuple", ("string", ("tuple", ("dir", ("ext", "Sig"))))))),
               ("bus.memory_map", ("ext", "MMap"))],
     "methods": {"__init__": {"params": {"memory_map": ("opt", ("ext", "MMap"))}, "returns_params": ["memory_map"]}},
     "ignore": ["elaborate"]},
]

# external classes: Coq parameter names and types; parameter ORDER of the Coq function is fixed here by name, the
# binding of a call's arguments to these names (and the defaults) is read from the class's current source
EXT = {
    "MemoryMap": {"type": "MMap", "module": "memory", "file": "amaranth_soc/memory.py",
                  "ctor": {"coq": "mm_new", "params": [("addr_width", "pyint"), ("data_width", "pyint"),
                                                       ("alignment", "pyint")]},
                  "methods": {
                      "add_resource": {"coq": "mm_add_resource", "kind": "mutator",
                                       "params": [("resource", "pyobj"), ("name", "rawname"), ("addr", "pyint"),
                                                  ("size", "pyint"), ("alignment", "pyint")],
                                       "ret": ("tuple", ("Z", "Z"))},
                      "freeze": {"coq": "mm_freeze", "kind": "mutator_total", "params": [], "ret": "unit"},
                      "windows": {"coq": "mm_windows", "kind": "generator", "params": [],
                                  "ret": ("list", ("ext", "MWin"))},
                      "resources": {"coq": "mm_resources", "kind": "generator", "params": [],
                                    "ret": ("list", ("tuple", ("pyobj", "name", ("tuple", ("Z", "Z")))))}},
                  "attrs": {"addr_width": ("mm_addr_width", "Z"), "data_width": ("mm_data_width", "Z")}},
    "Multiplexer": {"type": "Mux", "module": "bus", "file": "amaranth_soc/csr/bus.py",
                    "ctor": {"coq": "mux_new", "params": [("memory_map", ("ext", "MMap")),
                                                          ("shadow_overlaps", "pyint")]},
                    "methods": {}, "attrs": {}},
    "Signature": {"type": "Sig", "module": "bus", "file": "amaranth_soc/csr/bus.py",
                  "ctor": {"coq": "csr_sig", "params": [("addr_width", "Z"), ("data_width", "Z")]},
                  "methods": {}, "attrs": {}},
}
EXT_TYPES = ["MMap", "MWin", "Mux", "Sig"]
EXT_BY_TYPE = {d["type"]: k for k, d in EXT.items()}

EXNS = ("ValueError", "TypeError", "KeyError", "AssertionError")
KNOWN_EXN_CLASSES = ("IndexError", "AttributeError", "RuntimeError", "NotImplementedError", "LookupError",
                     "ArithmeticError", "ZeroDivisionError", "OverflowError", "Exception", "NameError", "StopIteration")


# ------------------------------------------------------------------------------------------------ types

def coqty(t):
    if isinstance(t, str):
        return {"Z": "Z", "pyint": "pyint", "bool": "bool", "pystr": "pystr", "str": "Z", "pyobj": "pyobj",
                "rawpart": "rawpart", "rawname": "rawname", "name": "name", "unit": "unit", "string": "string",
                "dir": "pydir", "none": "unit"}[t]
    k = t[0]
    if k == "list":
        return f"(list {coqty(t[1])})"
    if k == "tuple":
        return "(" + " * ".join(coqty(x) for x in t[1]) + ")"
    if k == "dict":
        return f"(odict {coqty(t[1])})"
    if k == "opt":
        return f"(option {coqty(t[1])})"
    if k == "ext":
        return t[1]
    raise Untranslatable(f"type {t}")


class V:
    """pure, typed Coq expression"""
    def __init__(self, s, t, gen=False):
        self.s, self.t, self.gen = s, t, gen


def is_list(t):
    return isinstance(t, tuple) and t[0] == "list"


def is_ext(t):
    return isinstance(t, tuple) and t[0] == "ext"


# ------------------------------------------------------------------------------------------------ contexts

class MethodCtx:
    """body of a method of an existing object: text of type  state * res R"""
    kind = "method"

    def __init__(self, tr, rtype, allow_return=True):
        self.tr, self.rtype, self.allow_return = tr, rtype, allow_return

    def snap(self, env):
        return self.tr.st_term(env)

    def raise_(self, env, e):
        return f"({self.tr.st_term(env)}, Err {e})"

    def bind(self, snap, term, pat, body):
        return f"(bind_st {snap} {term} (fun {pat} =>\n  {body}))"

    def fall(self, env):
        if self.rtype != "unit":
            raise Untranslatable("a path falls off the end of a method that returns a value")
        return f"({self.tr.st_term(env)}, Ok tt)"

    def ret(self, env, v):
        if not self.allow_return:
            raise Untranslatable("`return` in the exit code of a context manager")
        if v is None:
            return self.fall(env)
        return f"({self.tr.st_term(env)}, Ok {self.tr.coerce(v, self.rtype).s})"

    def returned(self, env, var):
        return f"({self.tr.st_term(env)}, Ok {var})"

    def brk(self, env):
        raise Untranslatable("`break` outside a loop")
    cont = brk


class InitCtx:
    """body of __init__: text of type  res state"""
    kind = "init"
    rtype = "unit"

    def __init__(self, tr, returns_params):
        self.tr, self.returns_params = tr, returns_params

    def snap(self, env):
        return None

    def raise_(self, env, e):
        return f"(Err {e})"

    def bind(self, snap, term, pat, body):
        return f"(let! {pat} := {term} in\n  {body})"

    def fall(self, env):
        vals = []
        for a, t in self.tr.spec["state"]:
            if "self." + a not in env:
                raise Untranslatable(f"__init__ can end without assigning self.{a}")
            vals.append(env["self." + a].s)
        obj = ("(" + self.tr.mk + " " + " ".join(vals) + ")") if self.tr.spec["record"] else "(" + ", ".join(vals) + ")"
        outs = []
        for p in self.returns_params:
            v = env[p]
            if not is_ext(v.t):
                raise Untranslatable(f"__init__ can end with the argument {p} of unknown class")
            outs.append(v.s)
        return f"(Ok ({', '.join(outs + [obj])}))" if outs else f"(Ok {obj})"

    def ret(self, env, v):
        if v is not None:
            raise Untranslatable("__init__ returns a value")
        return self.fall(env)

    def returned(self, env, var):
        raise Untranslatable("`return` inside a loop of __init__")

    def brk(self, env):
        raise Untranslatable("`break` outside a loop")
    cont = brk


class LoopCtx:
    """body of a for loop: text of type  res (ctl S R)"""
    kind = "loop"

    def __init__(self, tr, outer, carried):
        self.tr, self.outer, self.carried, self.rtype = tr, outer, carried, outer.rtype
        self.has_return = False

    def snap(self, env):
        return None

    def carry(self, env):
        if not self.carried:
            return "tt"
        return "(" + ", ".join(env[c].s for c in self.carried) + ")" if len(self.carried) > 1 else env[self.carried[0]].s

    def raise_(self, env, e):
        return f"(Err {e})"

    def bind(self, snap, term, pat, body):
        return f"(let! {pat} := {term} in\n  {body})"

    def fall(self, env):
        return f"(Ok (Next {self.carry(env)}))"
    cont = fall

    def brk(self, env):
        return f"(Ok (Brk {self.carry(env)}))"

    def ret(self, env, v):
        if self.outer.kind == "init":
            raise Untranslatable("`return` inside a loop of __init__")
        self.has_return = True
        if v is None:
            if self.rtype != "unit":
                raise Untranslatable("bare return in a method that returns a value")
            return "(Ok (Ret tt))"
        return f"(Ok (Ret {self.tr.coerce(v, self.rtype).s}))"

    def returned(self, env, var):
        self.has_return = True
        return f"(Ok (Ret {var}))"


# ------------------------------------------------------------------------------------------------ translator

class Tr:
    def __init__(self, repo, tree, spec, props):
        self.repo, self.tree, self.spec = repo, tree, spec
        self.cls = spec["cls"]
        self.mk = "mk_" + self.cls
        self.sty = self.cls + "_st"
        self.state = dict(spec["state"])
        self.props = props           # property name -> type (already translated)
        self.n = 0
        self.ctx = None
        self.ext_sigs = {}

    # ---- names
    def fresh(self, base):
        self.n += 1
        base = "".join(c if c.isalnum() or c == "_" else "_" for c in base).strip("_") or "v"
        return f"{base}_{self.n}"

    def proj(self, a):
        return self.cls + (a if a.startswith("_") else "_" + a).replace(".", "_")

    def st_term(self, env):
        base = env.get("$base")
        vals = []
        for a, _ in self.spec["state"]:
            if "self." + a not in env:
                raise Untranslatable(f"self.{a} is not assigned yet")
            vals.append(env["self." + a].s)
        if base is not None and all(v == f"({self.proj(a)} {base})" for v, (a, _) in zip(vals, self.spec["state"])):
            return base
        return "(" + self.mk + " " + " ".join(vals) + ")"

    def load_state(self, env, base):
        env["$base"] = base
        for a, t in self.spec["state"]:
            env["self." + a] = V(f"({self.proj(a)} {base})", t)

    # ---- coercions
    def coerce(self, v, t):
        if v.t == t:
            return v
        if is_list(t) and is_list(v.t) and v.t[1] == "?":
            return V(v.s, t)
        if isinstance(t, tuple) and t[0] == "dict" and isinstance(v.t, tuple) and v.t[0] == "dict" and v.t[1] == "?":
            return V(v.s, t)
        if t == "pyint":
            if v.t == "Z":
                return V(f"(VInt {v.s})", t)
            if v.t == "none":
                return V("VNone", t)
        if t == "rawpart":
            tab = {"str": "RStr", "Z": "RInt", "pystr": "part_of_str", "pyint": "part_of_int"}
            if v.t in tab:
                return V(f"({tab[v.t]} {v.s})", t)
        if t == "rawname":
            if v.t == ("list", "rawpart"):
                return V(f"(NTuple {v.s})", t)
            if v.t == "str":
                return V(f"(NStr {v.s})", t)
            if v.t == "name":
                return V(f"(raw_of_name {v.s})", t)
        if isinstance(t, tuple) and t[0] == "tuple" and isinstance(v.t, tuple) and v.t[0] == "tuple" \
                and len(t[1]) == len(v.t[1]) and getattr(v, "items", None):
            items = [self.coerce(x, tx) for x, tx in zip(v.items, t[1])]
            r = V("(" + ", ".join(x.s for x in items) + ")", t)
            r.items = items
            return r
        if is_list(t) and is_list(v.t) and getattr(v, "items", None) is not None:
            items = [self.coerce(x, t[1]) for x in v.items]
            return V("[" + "; ".join(x.s for x in items) + "]", t)
        raise Untranslatable(f"a value of type {v.t} where {t} is expected: {v.s[:60]}")

    # ---- prelude
    def push(self, pre, env, kind, pat, term):
        pre.append((kind, pat, term, self.ctx.snap(env) if kind == "bind" else None))

    def wrap(self, pre, inner):
        for kind, pat, term, snap in reversed(pre):
            if kind == "let":
                inner = f"(let {pat} := {term} in\n  {inner})"
            elif kind == "bind":
                inner = self.ctx.bind(snap, term, pat, inner)
            elif kind == "call":
                inner = f"(bind_call {term} (fun {pat} =>\n  {inner}))"
            else:
                raise Untranslatable("prelude")
        return inner

    def wrap_plain(self, pre, inner):
        """inside a conditionally evaluated operand: plain res, no state change"""
        for kind, pat, term, snap in reversed(pre):
            if kind == "let":
                inner = f"(let {pat} := {term} in {inner})"
            elif kind == "bind":
                inner = f"(let! {pat} := {term} in {inner})"
            else:
                raise Untranslatable("a call that changes self inside a short-circuit operand")
        return inner

    def asint(self, v, env, pre):
        if v.t == "Z":
            return v.s
        if v.t == "pyint":
            nm = self.fresh("int")
            self.push(pre, env, "bind", nm, f"(int_of {v.s})")
            return nm
        raise Untranslatable(f"integer expected, got {v.t}: {v.s[:60]}")

    # ---- external signatures, read from the current source
    def ext_signature(self, cls, meth):
        key = (cls, meth)
        if key not in self.ext_sigs:
            src = open(os.path.join(self.repo, EXT[cls]["file"])).read()
            fn = find_func(ast.parse(src), [cls, meth])
            a = fn.args
            if a.vararg or a.kwarg or a.posonlyargs:
                raise Untranslatable(f"{cls}.{meth}: *args / **kwargs / positional-only parameters")
            pos = [x.arg for x in a.args][1:]
            dflt = {}
            for x, d in zip(reversed(a.args), reversed(a.defaults)):
                dflt[x.arg] = d
            kwonly = [x.arg for x in a.kwonlyargs]
            for x, d in zip(a.kwonlyargs, a.kw_defaults):
                if d is not None:
                    dflt[x.arg] = d
            self.ext_sigs[key] = (pos, kwonly, dflt)
        return self.ext_sigs[key]

    def bind_ext_args(self, cls, meth, decl, call, env, pre):
        """the Coq arguments, in the declared order, of a call of an external constructor / method"""
        pos, kwonly, dflt = self.ext_signature(cls, meth)
        names = [p for p, _ in decl]
        if sorted(pos + kwonly) != sorted(names):
            raise Untranslatable(f"{cls}.{meth}: its parameters are now {pos + kwonly}, declared {names}")
        if len(call.args) > len(pos) or any(isinstance(a, ast.Starred) for a in call.args):
            raise Untranslatable(f"{cls}.{meth}: too many positional arguments")
        given = {}
        for p, a in zip(pos, call.args):
            given[p] = a
        for k in call.keywords:
            if k.arg is None or k.arg not in names or k.arg in given:
                raise Untranslatable(f"{cls}.{meth}: keyword argument {k.arg}")
            given[k.arg] = k.value
        out = []
        # Python evaluates the arguments in call order: positional, then keywords as written
        order = [p for p in pos if p in given and given[p] in call.args] + [k.arg for k in call.keywords]
        vals = {}
        for p in order:
            vals[p] = self.expr(given[p], env, pre)
        for p, t in decl:
            if p in vals:
                v = vals[p]
            elif p in dflt:
                v = self.expr(dflt[p], {}, [])
            else:
                raise Untranslatable(f"{cls}.{meth}: required argument {p} is missing")
            out.append(self.coerce(v, t))
        return out

    def mark_aliased(self, env, n):
        if isinstance(n, ast.Name) and n.id in env and is_ext(env[n.id].t):
            env["$aliased"] = env.get("$aliased", frozenset()) | {n.id}

    # ---- expressions
    def expr(self, n, env, pre):
        if isinstance(n, ast.Constant):
            if isinstance(n.value, bool):
                return V("true" if n.value else "false", "bool")
            if isinstance(n.value, int):
                return V(f"({n.value})", "Z")
            if n.value is None:
                return V("tt", "none")
            if isinstance(n.value, str):
                if '"' in n.value or "\\" in n.value or not n.value.isascii():
                    raise Untranslatable("string constant")
                return V(f'"{n.value}"%string', "string")
            raise Untranslatable("constant " + repr(n.value))
        if isinstance(n, ast.Name):
            if n.id in env:
                return env[n.id]
            raise Untranslatable(f"unknown name {n.id}")
        if isinstance(n, ast.Attribute):
            return self.attribute(n, env, pre)
        if isinstance(n, ast.BinOp) and type(n.op) in BINOPS:
            l = self.expr(n.left, env, pre)
            a = self.asint(l, env, pre)
            r = self.expr(n.right, env, pre)
            b = self.asint(r, env, pre)
            return V(f"({BINOPS[type(n.op)]} {a} {b})", "Z")
        if isinstance(n, ast.UnaryOp) and isinstance(n.op, (ast.USub, ast.Invert)):
            a = self.asint(self.expr(n.operand, env, pre), env, pre)
            return V(f"({'Z.opp' if isinstance(n.op, ast.USub) else 'Z.lnot'} {a})", "Z")
        if isinstance(n, (ast.BoolOp, ast.Compare)) or (isinstance(n, ast.UnaryOp) and isinstance(n.op, ast.Not)):
            return V(self.cond(n, env, pre), "bool")
        if isinstance(n, ast.IfExp):
            c = self.cond(n.test, env, pre)
            p1, p2 = [], []
            a = self.expr(n.body, env, p1)
            b = self.expr(n.orelse, env, p2)
            if p1 or p2 or a.t != b.t:
                raise Untranslatable("conditional expression whose arms can raise or differ in type")
            return V(f"(if {c} then {a.s} else {b.s})", a.t)
        if isinstance(n, ast.Call):
            return self.call(n, env, pre)
        if isinstance(n, ast.Tuple):
            if any(isinstance(e, ast.Starred) for e in n.elts):
                parts = []
                for e in n.elts:
                    if isinstance(e, ast.Starred):
                        v = self.expr(e.value, env, pre)
                        if v.t != ("list", "rawpart"):
                            raise Untranslatable(f"starred item of type {v.t} in a tuple display")
                        parts.append(v.s)
                    else:
                        parts.append("[" + self.coerce(self.expr(e, env, pre), "rawpart").s + "]")
                return V("(" + " ++ ".join(parts) + ")", ("list", "rawpart"))
            if len(n.elts) < 2:
                raise Untranslatable("tuple display with fewer than two items")
            items = [self.expr(e, env, pre) for e in n.elts]
            if any(x.gen for x in items):
                raise Untranslatable("a generator stored in a tuple")
            v = V("(" + ", ".join(x.s for x in items) + ")", ("tuple", tuple(x.t for x in items)))
            v.items = items
            return v
        if isinstance(n, ast.List):
            if any(isinstance(e, ast.Starred) for e in n.elts):
                raise Untranslatable("starred item in a list display")
            items = [self.expr(e, env, pre) for e in n.elts]
            if not items:
                v = V("[]", ("list", "?"))
            else:
                if any(x.t != items[0].t for x in items):
                    raise Untranslatable("list display with items of different types")
                v = V("[" + "; ".join(x.s for x in items) + "]", ("list", items[0].t))
            v.items = items
            return v
        if isinstance(n, ast.Dict):
            items = []
            for k, val in zip(n.keys, n.values):
                if not (isinstance(k, ast.Constant) and isinstance(k.value, str)):
                    raise Untranslatable("dict display with a non-constant key")
                kv = self.expr(k, env, pre)
                vv = self.expr(val, env, pre)
                it = V(f"({kv.s}, {vv.s})", ("tuple", ("string", vv.t)))
                it.items = [kv, vv]
                items.append(it)
            if not items:
                return V("[]", ("dict", "?"))
            if any(x.t != items[0].t for x in items) or len({k.value for k in n.keys}) != len(n.keys):
                raise Untranslatable("dict display with values of different types or a repeated key")
            v = V("[" + "; ".join(x.s for x in items) + "]", ("list", items[0].t))
            v.items = items
            return v
        if isinstance(n, ast.Subscript) and not isinstance(n.slice, ast.Slice):
            base = self.expr(n.value, env, pre)
            if isinstance(base.t, tuple) and base.t[0] == "dict" and base.t[1] != "?":
                k = self.expr(n.slice, env, pre)
                if k.t != "Z":
                    raise Untranslatable("dict key that is not an int")
                nm = self.fresh("item")
                self.push(pre, env, "bind", nm, f"(od_get {base.s} {k.s})")
                return V(nm, base.t[1])
            if is_list(base.t) and base.t[1] != "?" and not base.gen:
                i = self.asint(self.expr(n.slice, env, pre), env, pre)
                nm = self.fresh("item")
                self.push(pre, env, "bind", nm, f"(py_index {base.s} {i})")
                return V(nm, base.t[1])
            raise Untranslatable("subscript of " + str(base.t))
        raise Untranslatable("expression " + ast.dump(n)[:100])

    def attribute(self, n, env, pre):
        try:
            p = attr_path(n)
        except Untranslatable:
            p = None
        if p is not None and p.startswith("self."):
            a = p[5:]
            if a in self.state:
                if "self." + a not in env:
                    raise Untranslatable(f"self.{a} is read before it is assigned")
                return env["self." + a]
            if a in self.props:
                if self.ctx.kind == "init":
                    raise Untranslatable("a property read inside __init__")
                return V(f"(gen_{self.cls}_{a} {self.st_term(env)})", self.props[a])
            raise Untranslatable(f"unmapped attribute {p}")
        if p is not None:
            root, rest = p.split(".", 1)
            if root in env and not root.startswith("$"):
                v = env[root]
                if v.t == "pyobj" and rest == "element.width":
                    nm = self.fresh("width")
                    self.push(pre, env, "bind", nm, f"(elem_width {v.s})")
                    return V(nm, "Z")
                if is_ext(v.t) and v.t[1] in EXT_BY_TYPE:
                    attrs = EXT[EXT_BY_TYPE[v.t[1]]]["attrs"]
                    if rest in attrs:
                        f, t = attrs[rest]
                        return V(f"({f} {v.s})", t)
                raise Untranslatable(f"attribute .{rest} of a value of type {v.t}")
        raise Untranslatable("attribute " + ast.dump(n)[:100])

    def truthy(self, v, env, pre):
        if v.t == "bool":
            return v.s
        if v.t == "pystr":
            nm = self.fresh("truth")
            self.push(pre, env, "bind", nm, f"(str_truthy {v.s})")
            return nm
        if v.t == "str":
            return f"(atom_truthy {v.s})"
        if v.t == "Z":
            return f"(negb (Z.eqb {v.s} (0)))"
        if is_list(v.t) or (isinstance(v.t, tuple) and v.t[0] == "dict"):
            return f"(py_nonempty {v.s})"
        raise Untranslatable(f"truth value of a value of type {v.t}")

    def cond(self, n, env, pre):
        if isinstance(n, ast.BoolOp):
            is_and = isinstance(n.op, ast.And)
            acc = self.cond(n.values[0], env, pre)
            for nxt in n.values[1:]:
                sub = []
                before = (self.st_term(env) if self.ctx.kind == "method" else None, env.get("$aliased"))
                c = self.cond(nxt, env, sub)
                after = (self.st_term(env) if self.ctx.kind == "method" else None, env.get("$aliased"))
                if before != after:
                    raise Untranslatable("a short-circuit operand that changes self")
                if not sub:
                    acc = f"({acc} {'&&' if is_and else '||'} {c})"
                else:
                    inner = self.wrap_plain(sub, f"(Ok {c})")
                    nm = self.fresh("cond")
                    term = f"(if {acc} then {inner} else Ok false)" if is_and else f"(if {acc} then Ok true else {inner})"
                    self.push(pre, env, "bind", nm, term)
                    acc = nm
            return acc
        if isinstance(n, ast.UnaryOp) and isinstance(n.op, ast.Not):
            return f"(negb {self.cond(n.operand, env, pre)})"
        if isinstance(n, ast.Compare):
            if len(n.ops) != 1:
                raise Untranslatable("chained comparison")
            op = type(n.ops[0]); l, r = n.left, n.comparators[0]
            if op in (ast.Is, ast.IsNot):
                if not (isinstance(r, ast.Constant) and r.value is None):
                    raise Untranslatable("`is` with something else than None")
                v = self.expr(l, env, pre)
                if v.t == "pyint":
                    c = f"(is_none {v.s})"
                elif v.t == "pystr":
                    c = f"(str_is_none {v.s})"
                elif isinstance(v.t, tuple) and v.t[0] == "opt":
                    raise Untranslatable("`is None` on an object of unknown class")
                elif v.t == "none":
                    c = "true"
                elif v.t in ("Z", "str", "bool") or isinstance(v.t, tuple):
                    c = "false"
                else:
                    raise Untranslatable(f"`is None` on a value of type {v.t}")
                return c if op is ast.Is else f"(negb {c})"
            if op in (ast.In, ast.NotIn):
                k = self.expr(l, env, pre)
                d = self.expr(r, env, pre)
                if isinstance(d.t, tuple) and d.t[0] == "dict" and k.t == "Z":
                    c = f"(od_has {d.s} {k.s})"
                    return c if op is ast.In else f"(negb {c})"
                raise Untranslatable(f"`in` on {d.t} with a key of type {k.t}")
            a = self.expr(l, env, pre)
            b = self.expr(r, env, pre)
            if a.t in ("Z", "pyint") and b.t in ("Z", "pyint"):
                x = self.asint(a, env, pre)
                y = self.asint(b, env, pre)
                tab = {ast.Eq: "Z.eqb", ast.Lt: "Z.ltb", ast.LtE: "Z.leb", ast.Gt: "Z.gtb", ast.GtE: "Z.geb"}
                if op is ast.NotEq:
                    return f"(negb (Z.eqb {x} {y}))"
                if op in tab:
                    return f"({tab[op]} {x} {y})"
                raise Untranslatable("comparison operator")
            if op not in (ast.Eq, ast.NotEq):
                raise Untranslatable(f"ordering between values of type {a.t} and {b.t}")
            if a.t == "str" and b.t == "str":
                c = f"(Z.eqb {a.s} {b.s})"
            elif a.t == "bool" and b.t == "bool":
                c = f"(Bool.eqb {a.s} {b.s})"
            elif "rawpart" in (a.t, b.t) or {a.t, b.t} <= {"str", "Z", "pystr", "pyint"}:
                nm = self.fresh("eq")
                self.push(pre, env, "bind", nm, f"(rawpart_eq {self.coerce(a, 'rawpart').s} {self.coerce(b, 'rawpart').s})")
                c = nm
            else:
                raise Untranslatable(f"== between values of type {a.t} and {b.t}")
            return c if op is ast.Eq else f"(negb {c})"
        if isinstance(n, ast.Call) and isinstance(n.func, ast.Name) and n.func.id == "isinstance":
            if len(n.args) != 2 or n.keywords or not isinstance(n.args[1], ast.Name):
                raise Untranslatable("isinstance form")
            v = self.expr(n.args[0], env, pre)
            c = n.args[1].id
            return self.isinstance_(v, c)
        v = self.expr(n, env, pre)
        return self.truthy(v, env, pre)

    def isinstance_(self, v, c):
        if c == "int":
            if v.t == "pyint":
                return f"(is_int {v.s})"
            if v.t in ("Z", "bool"):
                return "true"
            if v.t in ("str", "none", "pyobj") or isinstance(v.t, tuple):
                return "false"
        if c == "str":
            if v.t == "pystr":
                return f"(str_is_str {v.s})"
            if v.t == "str":
                return "true"
            if v.t in ("Z", "bool", "none", "pyobj") or isinstance(v.t, tuple):
                return "false"
        if c == "Register" and v.t == "pyobj":
            self.need_class("Register")
            return f"(is_register {v.s})"
        if c in EXT:
            self.need_import(c)
            if v.t == ("opt", ("ext", EXT[c]["type"])):
                return f"(is_some {v.s})"
            if v.t == ("ext", EXT[c]["type"]):
                return "true"
        raise Untranslatable(f"isinstance({v.t}, {c})")

    def need_class(self, name):
        if not any(isinstance(s, ast.ClassDef) and s.name == name for s in self.tree.body):
            raise Untranslatable(f"class {name} is not defined in {REG_FILE}")

    def need_import(self, name):
        """the external class is the one imported from the expected module"""
        mod = EXT[name]["module"] if name in EXT else None
        for s in self.tree.body:
            if isinstance(s, ast.ImportFrom) and any(a.name == name and a.asname is None for a in s.names):
                if mod is None or s.module == mod:
                    return
        raise Untranslatable(f"{name} is not imported from the expected module")

    def call(self, n, env, pre):
        f = n.func
        if isinstance(f, ast.Name):
            nm = f.id
            if nm == "isinstance":
                return V(self.cond(n, env, pre), "bool")
            if nm in EXT:
                self.need_import(nm)
                args = self.bind_ext_args(nm, "__init__", EXT[nm]["ctor"]["params"], n, env, pre)
                for a in list(n.args) + [k.value for k in n.keywords]:
                    self.mark_aliased(env, a)
                r = self.fresh(EXT[nm]["type"].lower())
                self.push(pre, env, "bind", r, f"({EXT[nm]['ctor']['coq']} " + " ".join(a.s for a in args) + ")")
                return V(r, ("ext", EXT[nm]["type"]))
            if n.keywords or any(isinstance(a, ast.Starred) for a in n.args):
                raise Untranslatable("call form " + ast.dump(n)[:80])
            if nm in ("In", "Out") and len(n.args) == 1:
                self.need_import(nm)
                x = self.expr(n.args[0], env, pre)
                v = V(f"({'DIn' if nm == 'In' else 'DOut'}, {x.s})", ("tuple", ("dir", x.t)))
                v.items = [V("DIn" if nm == "In" else "DOut", "dir"), x]
                return v
            if nm == "id" and len(n.args) == 1:
                x = self.expr(n.args[0], env, pre)
                if x.t == "pyobj":
                    return V(f"(obj_id {x.s})", "Z")
                raise Untranslatable(f"id() of a value of type {x.t}")
            if nm == "len" and len(n.args) == 1:
                x = self.expr(n.args[0], env, pre)
                if (is_list(x.t) and not x.gen) or (isinstance(x.t, tuple) and x.t[0] == "dict"):
                    return V(f"(py_len {x.s})", "Z")
                raise Untranslatable(f"len() of a value of type {x.t}")
            if nm in ("list", "tuple") and len(n.args) == 1:
                x = self.expr(n.args[0], env, pre)
                if is_list(x.t):
                    return V(x.s, x.t)          # a generator is consumed here: the result is an ordinary list
                raise Untranslatable(f"{nm}() of a value of type {x.t}")
            if nm == "list" and not n.args:
                return V("[]", ("list", "?"))
            if nm == "dict" and not n.args:
                return V("[]", ("dict", "?"))
            if nm in ("min", "max") and len(n.args) == 2:
                a = self.asint(self.expr(n.args[0], env, pre), env, pre)
                b = self.asint(self.expr(n.args[1], env, pre), env, pre)
                return V(f"(Z.{nm} {a} {b})", "Z")
            if nm == "ceil_log2" and len(n.args) == 1:
                self.need_import("ceil_log2")
                a = self.asint(self.expr(n.args[0], env, pre), env, pre)
                return V(f"(ceil_log2 {a})", "Z")
            if nm == "enumerate" and len(n.args) == 1:
                x = self.expr(n.args[0], env, pre)
                if is_list(x.t) and x.t[1] != "?":
                    return V(f"(py_enumerate {x.s})", ("list", ("tuple", ("Z", x.t[1]))), gen=True)
                raise Untranslatable(f"enumerate() of a value of type {x.t}")
            raise Untranslatable(f"call of {nm}")
        if isinstance(f, ast.Attribute):
            if any(isinstance(a, ast.Starred) for a in n.args):
                raise Untranslatable("starred argument")
            # self.<method>(...)
            if isinstance(f.value, ast.Name) and f.value.id == "self":
                return self.self_call(n, env, pre)
            recv = self.expr(f.value, env, pre)
            m = f.attr
            if isinstance(recv.t, tuple) and recv.t[0] == "dict" and not n.args and not n.keywords:
                if m == "values":
                    return V(f"(od_values {recv.s})", ("list", recv.t[1]))
                if m == "keys":
                    return V(f"(map fst {recv.s})", ("list", "Z"))
                if m == "items":
                    return V(recv.s, ("list", ("tuple", ("Z", recv.t[1]))))
            if is_list(recv.t) and not recv.gen and recv.t[1] != "?":
                if m == "pop" and not n.args and not n.keywords:
                    x, l = self.fresh("popped"), self.fresh("rest")
                    self.push(pre, env, "bind", f"'({x}, {l})", f"(py_pop {recv.s})")
                    self.store(f.value, V(l, recv.t), env)
                    return V(x, recv.t[1])
                if m == "append" and len(n.args) == 1 and not n.keywords:
                    x = self.coerce(self.expr(n.args[0], env, pre), recv.t[1])
                    l = self.fresh("appended")
                    self.push(pre, env, "let", l, f"({recv.s} ++ [{x.s}])")
                    self.store(f.value, V(l, recv.t), env)
                    return V("tt", "none")
            if is_ext(recv.t) and recv.t[1] in EXT_BY_TYPE:
                cls = EXT_BY_TYPE[recv.t[1]]
                meths = EXT[cls]["methods"]
                if m in meths:
                    d = meths[m]
                    args = self.bind_ext_args(cls, m, d["params"], n, env, pre)
                    argtxt = "".join(" " + a.s for a in args)
                    if d["kind"] == "generator":
                        return V(f"({d['coq']} {recv.s}{argtxt})", d["ret"], gen=True)
                    if not isinstance(f.value, ast.Name):
                        raise Untranslatable("mutating call on an external object that is not held in a local")
                    if f.value.id in env.get("$aliased", ()):
                        raise Untranslatable(f"{f.value.id} is mutated after it was stored / handed to a constructor")
                    o = self.fresh(f.value.id)
                    if d["kind"] == "mutator_total":
                        self.push(pre, env, "let", o, f"({d['coq']} {recv.s}{argtxt})")
                        env[f.value.id] = V(o, recv.t)
                        return V("tt", "none")
                    r = self.fresh("result")
                    self.push(pre, env, "bind", f"'({o}, {r})", f"({d['coq']} {recv.s}{argtxt})")
                    env[f.value.id] = V(o, recv.t)
                    return V(r, d["ret"])
            raise Untranslatable(f"method .{m} of a value of type {recv.t}")
        raise Untranslatable("call " + ast.dump(n)[:100])

    def self_call(self, n, env, pre):
        m = n.func.attr
        spec = self.spec["methods"].get(m)
        if spec is None or "params" not in spec or m == "__init__" or m in self.cms:
            raise Untranslatable(f"call of self.{m}")
        if self.ctx.kind != "method":
            raise Untranslatable(f"self.{m}() inside __init__ or a loop")
        fn = find_func(self.tree, [self.cls, m])
        names = [a.arg for a in fn.args.args][1:] + [a.arg for a in fn.args.kwonlyargs]
        if n.args or n.keywords or names:
            raise Untranslatable(f"self.{m}(...) with arguments")
        st, r = self.fresh("self"), self.fresh("result")
        self.push(pre, env, "call", f"{st} {r}", f"(gen_{self.cls}_{m} {self.st_term(env)})")
        self.load_state(env, st)
        return V(r, spec["ret"] if spec["ret"] != "unit" else "none")

    def store(self, target, v, env):
        """rebind the variable / state attribute that holds a mutated list"""
        if isinstance(target, ast.Name) and target.id in env:
            env[target.id] = v
            return
        if isinstance(target, ast.Attribute):
            p = attr_path(target)
            if p.startswith("self.") and p[5:] in self.state:
                if self.ctx.kind == "loop":
                    raise Untranslatable("a loop body changes self")
                env[p] = v
                return
        raise Untranslatable("mutation of something that is neither a local nor a state attribute")

    # ---- narrowing
    def facts(self, n, positive):
        if isinstance(n, ast.UnaryOp) and isinstance(n.op, ast.Not):
            return self.facts(n.operand, not positive)
        if isinstance(n, ast.BoolOp):
            if isinstance(n.op, ast.And) == positive:
                out = []
                for v in n.values:
                    out += self.facts(v, positive)
                return out
            return []
        if positive and isinstance(n, ast.Call) and isinstance(n.func, ast.Name) and n.func.id == "isinstance" \
                and len(n.args) == 2 and isinstance(n.args[0], ast.Name) and isinstance(n.args[1], ast.Name):
            return [(n.args[0].id, n.args[1].id)]
        return []

    def narrowed(self, env, facts, inner):
        """inner(env') under the isinstance facts that hold on this path"""
        env = dict(env)
        wraps = []
        for x, c in facts:
            if x not in env:
                continue
            v = env[x]
            if c == "int" and v.t == "pyint":
                nm = self.fresh(x)
                wraps.append((v.s, f"VInt {nm}"))
                env[x] = V(nm, "Z")
            elif c == "str" and v.t == "pystr":
                nm = self.fresh(x)
                wraps.append((v.s, f"YStr {nm}"))
                env[x] = V(nm, "str")
            elif c in EXT and v.t == ("opt", ("ext", EXT[c]["type"])):
                nm = self.fresh(x)
                wraps.append((v.s, f"Some {nm}"))
                env[x] = V(nm, ("ext", EXT[c]["type"]))
        text = inner(env)
        for s, pat in reversed(wraps):
            text = f"(match {s} with {pat} =>\n  {text}\n  | _ => {self.ctx.raise_(env, 'OtherError')} end)"
        return text

    # ---- statements
    def exc(self, st):
        e = st.exc
        if isinstance(e, ast.Call):
            e = e.func
        if isinstance(e, ast.Name):
            if e.id in EXNS:
                return e.id
            if e.id in KNOWN_EXN_CLASSES:
                return "OtherError"
        raise Untranslatable("raise " + ast.dump(st)[:80])

    def assigned_locals(self, body):
        out = []
        for st in body:
            for x in ast.walk(st):
                names = []
                if isinstance(x, ast.Assign):
                    for t in x.targets:
                        names += [y.id for y in ast.walk(t) if isinstance(y, ast.Name) and isinstance(y.ctx, ast.Store)]
                elif isinstance(x, (ast.AugAssign, ast.AnnAssign)) and isinstance(x.target, ast.Name):
                    names.append(x.target.id)
                elif isinstance(x, ast.For):
                    names += [y.id for y in ast.walk(x.target) if isinstance(y, ast.Name)]
                elif isinstance(x, ast.Call) and isinstance(x.func, ast.Attribute) and isinstance(x.func.value, ast.Name):
                    names.append(x.func.value.id)          # a method call may mutate the receiver
                elif isinstance(x, (ast.NamedExpr, ast.Delete, ast.With, ast.Try, ast.While, ast.Global, ast.Nonlocal,
                                    ast.Lambda, ast.ListComp, ast.GeneratorExp, ast.SetComp, ast.DictComp)):
                    raise Untranslatable("statement form inside a loop: " + type(x).__name__)
                for nm in names:
                    if nm not in out:
                        out.append(nm)
        return out

    def pattern(self, target, t, env):
        """Coq pattern and bindings for an unpacking target"""
        if isinstance(target, ast.Name):
            if target.id == "_":
                return "_"
            nm = self.fresh(target.id)
            env[target.id] = V(nm, t)
            return nm
        if isinstance(target, (ast.Tuple, ast.List)) and isinstance(t, tuple) and t[0] == "tuple" \
                and len(t[1]) == len(target.elts) and not any(isinstance(e, ast.Starred) for e in target.elts):
            return "(" + ", ".join(self.pattern(e, te, env) for e, te in zip(target.elts, t[1])) + ")"
        raise Untranslatable(f"cannot unpack a value of type {t} into {ast.unparse(target)}")

    def block(self, body, env, k):
        if not body:
            return k(env)
        st, rest = body[0], body[1:]
        ctx = self.ctx
        cont = lambda e: self.block(rest, e, k)
        env = dict(env)
        pre = []
        if isinstance(st, ast.Pass) or (isinstance(st, ast.Expr) and isinstance(st.value, ast.Constant)
                                        and isinstance(st.value.value, str)):
            return cont(env)
        if isinstance(st, ast.Raise):
            if st.cause is not None or st.exc is None:
                raise Untranslatable("raise form")
            return ctx.raise_(env, self.exc(st))
        if isinstance(st, ast.Return):
            v = self.expr(st.value, env, pre) if st.value is not None else None
            if v is not None and v.gen:
                raise Untranslatable("a generator is returned")
            return self.wrap(pre, ctx.ret(env, v))
        if isinstance(st, ast.Break):
            return ctx.brk(env)
        if isinstance(st, ast.Continue):
            return ctx.cont(env)
        if isinstance(st, ast.Assert):
            c = self.cond(st.test, env, pre)
            ok = self.narrowed(env, self.facts(st.test, True), cont)
            return self.wrap(pre, f"(if {c} then {ok} else\n  {ctx.raise_(env, 'AssertionError')})")
        if isinstance(st, ast.Assign):
            if len(st.targets) != 1:
                raise Untranslatable("chained assignment")
            t = st.targets[0]
            v = self.expr(st.value, env, pre)
            if v.gen:
                raise Untranslatable("a generator is stored in a variable")
            if isinstance(t, ast.Name):
                if is_ext(v.t) and isinstance(st.value, ast.Name):
                    raise Untranslatable("two names for one mutable object")
                if v.t == "none":
                    env[t.id] = V("tt", "none")
                    return self.wrap(pre, cont(env))
                nm = self.fresh(t.id)
                self.push(pre, env, "let", nm, v.s)
                nv = V(nm, v.t)
                env[t.id] = nv
                return self.wrap(pre, cont(env))
            if isinstance(t, (ast.Tuple, ast.List)):
                pat = self.pattern(t, v.t, env)
                self.push(pre, env, "let", "'" + pat, v.s)
                return self.wrap(pre, cont(env))
            if isinstance(t, ast.Attribute):
                p = attr_path(t)
                if not (p.startswith("self.") and p[5:] in self.state):
                    raise Untranslatable("assignment to " + p)
                if ctx.kind == "loop":
                    raise Untranslatable("a loop body changes self")
                v = self.coerce(v, self.state[p[5:]])
                self.mark_aliased(env, st.value)
                nm = self.fresh(p[5:])
                self.push(pre, env, "let", nm, v.s)
                env[p] = V(nm, v.t)
                return self.wrap(pre, cont(env))
            if isinstance(t, ast.Subscript) and not isinstance(t.slice, ast.Slice):
                d = self.expr(t.value, env, pre)
                if not (isinstance(d.t, tuple) and d.t[0] == "dict" and d.t[1] != "?"):
                    raise Untranslatable("item assignment on " + str(d.t))
                kv = self.expr(t.slice, env, pre)
                if kv.t != "Z":
                    raise Untranslatable("dict key that is not an int")
                v = self.coerce(v, d.t[1])
                nm = self.fresh("dict")
                self.push(pre, env, "let", nm, f"(od_set {d.s} {kv.s} {v.s})")
                self.store(t.value, V(nm, d.t), env)
                return self.wrap(pre, cont(env))
            raise Untranslatable("assignment target " + ast.dump(t)[:80])
        if isinstance(st, ast.AugAssign):
            if not (isinstance(st.target, ast.Name) and type(st.op) in BINOPS and st.target.id in env):
                raise Untranslatable("augmented assignment")
            a = self.asint(env[st.target.id], env, pre)
            b = self.asint(self.expr(st.value, env, pre), env, pre)
            nm = self.fresh(st.target.id)
            self.push(pre, env, "let", nm, f"({BINOPS[type(st.op)]} {a} {b})")
            env[st.target.id] = V(nm, "Z")
            return self.wrap(pre, cont(env))
        if isinstance(st, ast.Expr):
            c = st.value
            if not isinstance(c, ast.Call):
                raise Untranslatable("expression statement " + ast.dump(c)[:80])
            # super().__init__({...})
            if isinstance(c.func, ast.Attribute) and c.func.attr == "__init__" and isinstance(c.func.value, ast.Call) \
                    and isinstance(c.func.value.func, ast.Name) and c.func.value.func.id == "super" \
                    and not c.func.value.args:
                if ctx.kind != "init" or "__members__" not in self.state or len(c.args) != 1 or c.keywords \
                        or not isinstance(c.args[0], ast.Dict) or "self.__members__" in env:
                    raise Untranslatable("super().__init__ form")
                v = self.coerce(self.expr(c.args[0], env, pre), self.state["__members__"])
                nm = self.fresh("members")
                self.push(pre, env, "let", nm, v.s)
                env["self.__members__"] = V(nm, v.t)
                return self.wrap(pre, cont(env))
            self.expr(c, env, pre)
            return self.wrap(pre, cont(env))
        if isinstance(st, ast.If):
            c = self.cond(st.test, env, pre)
            ends_raise = lambda b: bool(b) and isinstance(b[-1], ast.Raise) and all(_M2.harmless(s) for s in b[:-1])

            def arm(stmts, positive):
                def inner(e):
                    if ends_raise(stmts):
                        return self.block(stmts[-1:], e, k)
                    return self.block(stmts, e, cont)
                return self.narrowed(env, self.facts(st.test, positive), inner)
            a = arm(st.body, True)
            b = arm(st.orelse, False)
            return self.wrap(pre, f"(if {c} then {a} else\n  {b})")
        if isinstance(st, ast.For):
            return self.for_(st, env, pre, cont)
        raise Untranslatable("statement " + ast.dump(st)[:120])

    def for_(self, st, env, pre, cont):
        if st.orelse:
            raise Untranslatable("for ... else")
        outer = self.ctx
        it = self.expr(st.iter, env, pre)
        if not is_list(it.t) or it.t[1] == "?":
            raise Untranslatable(f"iteration over a value of type {it.t}")
        carried = [x for x in self.assigned_locals(st.body) if x in env and not x.startswith("$")]
        if any(x in env.get("$aliased", ()) for x in carried):
            raise Untranslatable("an object is mutated after it was stored / handed to a constructor")
        loop = LoopCtx(self, outer, carried)
        item, sv = self.fresh("item"), self.fresh("carried")
        benv = dict(env)
        pat = self.pattern(st.target, it.t[1], benv)
        cpat = "_"
        if carried:
            names = []
            for cname in carried:
                nm = self.fresh(cname)
                benv[cname] = V(nm, env[cname].t)
                names.append(nm)
            cpat = "(" + ", ".join(names) + ")" if len(names) > 1 else names[0]
        self.ctx = loop
        try:
            body = self.block(st.body, benv, loop.fall)
        finally:
            self.ctx = outer
        sty = "unit" if not carried else "(" + " * ".join(coqty(env[c].t) for c in carried) + ")"
        s0 = loop.carry(env)
        aenv = dict(env)
        apat = "_"
        if carried:
            names = []
            for cname in carried:
                nm = self.fresh(cname)
                aenv[cname] = V(nm, env[cname].t)
                names.append(nm)
            apat = "(" + ", ".join(names) + ")" if len(names) > 1 else names[0]
        fin, rv = self.fresh("fin"), self.fresh("returned")
        if loop.has_return:
            rty = coqty(outer.rtype)
            returned = outer.returned(env, rv)
        else:
            rty = "Empty_set"
            returned = f"(match {rv} with end)"
        after = cont(aenv)
        lp = (f"(for_each (R := {rty}) (fun ({item} : {coqty(it.t[1])}) ({sv} : {sty}) =>\n"
              f"  let '{pat} := {item} in let '{cpat} := {sv} in\n  {body})\n  {it.s} {s0})")
        m = (f"(match {fin} with Fell {sv} => let '{apat} := {sv} in\n  {after}\n"
             f"  | Returned {rv} => {returned} end)")
        self.push(pre, env, "bind", fin, lp)
        return self.wrap(pre, m)

    # ---- methods
    def method_params(self, fn, spec):
        a = fn.args
        if a.vararg or a.kwarg or a.posonlyargs:
            raise Untranslatable(f"{self.cls}.{fn.name}: *args / **kwargs")
        names = [x.arg for x in a.args][1:] + [x.arg for x in a.kwonlyargs]
        if not a.args or a.args[0].arg != "self" or names != list(spec["params"]):
            raise Untranslatable(f"{self.cls}.{fn.name}: parameters are now {names}, declared {list(spec['params'])}")
        dflt = {}
        for x, d in zip(reversed(a.args), reversed(a.defaults)):
            dflt[x.arg] = d
        for x, d in zip(a.kwonlyargs, a.kw_defaults):
            if d is not None:
                dflt[x.arg] = d
        return names, dflt

    def defaults(self, fn, spec, out):
        names, dflt = self.method_params(fn, spec)
        mname = "init" if fn.name == "__init__" else fn.name
        for p in names:
            if p in dflt:
                old = self.ctx
                self.ctx = InitCtx(self, [])
                try:
                    v = self.coerce(self.expr(dflt[p], {}, []), spec["params"][p])
                finally:
                    self.ctx = old
                out.append(f"(* default of the parameter {p} of {self.cls}.{fn.name} *)\n"
                           f"Definition gen_{self.cls}_{mname}_default_{p} : {coqty(spec['params'][p])} := {v.s}.\n")

    def param_text(self, spec):
        return "".join(f" ({p} : {coqty(t)})" for p, t in spec["params"].items())

    def gen_init(self, fn, spec, out):
        self.defaults(fn, spec, out)
        env = {p: V(p, t) for p, t in spec["params"].items()}
        rp = spec.get("returns_params", [])
        self.ctx = InitCtx(self, rp)
        body = self.block(fn.body, env, self.ctx.fall)
        sty = self.sty if self.spec["record"] else "(" + " * ".join(coqty(t) for _, t in self.spec["state"]) + ")"
        unopt = lambda t: t[1] if isinstance(t, tuple) and t[0] == "opt" else t
        rty = "(" + " * ".join([coqty(unopt(spec["params"][p])) for p in rp] + [sty]) + ")" if rp else sty
        out.append(f"(* {REG_FILE}: {self.cls}.__init__ *)\n"
                   f"Definition gen_{self.cls}_init{self.param_text(spec)} : res {rty} :=\n  {body}.\n")

    def gen_property(self, fn, out):
        body = [s for s in fn.body if not (isinstance(s, ast.Expr) and isinstance(s.value, ast.Constant))]
        if len(body) != 1 or not isinstance(body[0], ast.Return) or body[0].value is None \
                or [a.arg for a in fn.args.args] != ["self"] or fn.args.kwonlyargs or fn.args.vararg or fn.args.kwarg:
            raise Untranslatable(f"property {fn.name}: body is not a single return")
        env = {}
        self.load_state(env, "self")
        self.ctx = MethodCtx(self, "unit")
        pre = []
        v = self.expr(body[0].value, env, pre)
        if pre or self.st_term(env) != "self" or v.gen or v.t == "none":
            raise Untranslatable(f"property {fn.name}: the returned expression can raise or has an effect")
        out.append(f"(* {REG_FILE}: {self.cls}.{fn.name} (property) *)\n"
                   f"Definition gen_{self.cls}_{fn.name} (self : {self.sty}) : {coqty(v.t)} := {v.s}.\n")
        self.props[fn.name] = v.t

    def gen_method(self, fn, spec, out):
        self.defaults(fn, spec, out)
        env = {p: V(p, t) for p, t in spec["params"].items()}
        self.load_state(env, "self")
        self.ctx = MethodCtx(self, spec["ret"])
        body = self.block(fn.body, env, self.ctx.fall)
        out.append(f"(* {REG_FILE}: {self.cls}.{fn.name} *)\n"
                   f"Definition gen_{self.cls}_{fn.name} (self : {self.sty}){self.param_text(spec)} : "
                   f"{self.sty} * res {coqty(spec['ret'])} :=\n  {body}.\n")

    def gen_ctxmgr(self, fn, spec, out):
        self.method_params(fn, spec)
        if fn.args.defaults or any(d is not None for d in fn.args.kw_defaults):
            raise Untranslatable(f"{self.cls}.{fn.name}: default arguments of a context manager")
        body = [s for s in fn.body if not (isinstance(s, ast.Expr) and isinstance(s.value, ast.Constant)
                                           and isinstance(s.value.value, str))]
        if not body or not isinstance(body[-1], ast.Try):
            raise Untranslatable(f"{self.cls}.{fn.name}: the body does not end with try: yield finally: ...")
        enter, tr = body[:-1], body[-1]
        ok = (len(tr.body) == 1 and isinstance(tr.body[0], ast.Expr) and isinstance(tr.body[0].value, ast.Yield)
              and tr.body[0].value.value is None and not tr.handlers and not tr.orelse and tr.finalbody)
        if not ok:
            raise Untranslatable(f"{self.cls}.{fn.name}: not of the form try: yield finally: ...")
        for part in (enter, tr.finalbody):
            for s in part:
                for x in ast.walk(s):
                    if isinstance(x, (ast.Yield, ast.YieldFrom, ast.Await, ast.Try, ast.With)):
                        raise Untranslatable(f"{self.cls}.{fn.name}: a second yield / nested try")
        for s in enter:
            for x in ast.walk(s):
                if isinstance(x, ast.Name) and isinstance(x.ctx, (ast.Store, ast.Del)) and x.id in spec["params"]:
                    raise Untranslatable(f"{self.cls}.{fn.name}: the enter code reassigns the parameter {x.id}")
        ps = self.param_text(spec)
        args = "".join(" " + p for p in spec["params"])
        for tag, stmts, allow in (("enter", enter, True), ("exit", tr.finalbody, False)):
            env = {p: V(p, t) for p, t in spec["params"].items()}
            self.load_state(env, "self")
            self.ctx = MethodCtx(self, "unit", allow_return=allow)
            if tag == "enter":
                for s in stmts:
                    for x in ast.walk(s):
                        if isinstance(x, ast.Return):
                            raise Untranslatable(f"{self.cls}.{fn.name}: return before the yield")
            text = self.block(stmts, env, self.ctx.fall)
            what = "the code before `yield`" if tag == "enter" else "the `finally:` clause around `yield`"
            out.append(f"(* {REG_FILE}: {self.cls}.{fn.name} (context manager), {what} *)\n"
                       f"Definition gen_{self.cls}_{fn.name}_{tag} (self : {self.sty}){ps} : {self.sty} * res unit :=\n"
                       f"  {text}.\n")
        out.append(f"(* `with self.{fn.name}(...): body` *)\n"
                   f"Definition gen_{self.cls}_{fn.name}_with {{A : Type}} (self : {self.sty}){ps} "
                   f"(body : {self.sty} -> {self.sty} * res A) : {self.sty} * res A :=\n"
                   f"  with_ctx (fun s => gen_{self.cls}_{fn.name}_enter s{args}) "
                   f"(fun s => gen_{self.cls}_{fn.name}_exit s{args}) body self.\n")

    def gen_class(self):
        cdef = find_func(self.tree, [self.cls])
        if not isinstance(cdef, ast.ClassDef):
            raise Untranslatable(f"{self.cls} is not a class")
        out = []
        if self.spec["record"]:
            fields = "; ".join(f"{self.proj(a)} : {coqty(t)}" for a, t in self.spec["state"])
            out.append(f"(* the attributes of a {self.cls} instance *)\n"
                       f"Record {self.sty} := {self.mk} {{ {fields} }}.\n")
        fns = []
        for s in cdef.body:
            if isinstance(s, ast.Expr) and isinstance(s.value, ast.Constant) and isinstance(s.value.value, str):
                continue
            if isinstance(s, ast.Pass):
                continue
            if not isinstance(s, ast.FunctionDef):
                raise Untranslatable(f"class {self.cls}: statement in the class body: " + ast.dump(s)[:80])
            fns.append(s)
        names = [f.name for f in fns]
        if len(set(names)) != len(names):
            raise Untranslatable(f"class {self.cls}: a method is defined twice")
        for f in fns:
            if f.name not in self.spec["methods"] and f.name not in self.spec["ignore"]:
                raise Untranslatable(f"class {self.cls}: undeclared method {f.name}")
        for m in self.spec["methods"]:
            if m not in names:
                raise Untranslatable(f"class {self.cls}: method {m} is gone")
        decos = {}
        for f in fns:
            d = [ast.unparse(x) for x in f.decorator_list]
            if d not in ([], ["property"], ["contextmanager"]):
                raise Untranslatable(f"{self.cls}.{f.name}: decorators {d}")
            decos[f.name] = d[0] if d else None
            if d == ["contextmanager"]:
                self.need_import("contextmanager")
        self.cms = {f.name for f in fns if decos[f.name] == "contextmanager"}
        byname = {f.name: f for f in fns}
        # properties first (they are inlined where read), then __init__, then the methods in source order except that
        # a method called through self.<m>() must already be defined
        for f in fns:
            if f.name in self.spec["methods"] and decos[f.name] == "property":
                if "params" in self.spec["methods"][f.name]:
                    raise Untranslatable(f"{self.cls}.{f.name} is declared as a method but is a property")
                self.gen_property(f, out)
        done = set()
        order = [f for f in fns if f.name in self.spec["methods"] and decos[f.name] != "property"]

        def calls(f):
            return {x.func.attr for x in ast.walk(f) if isinstance(x, ast.Call) and isinstance(x.func, ast.Attribute)
                    and isinstance(x.func.value, ast.Name) and x.func.value.id == "self"} & set(byname)
        pending = list(order)
        while pending:
            progress = False
            for f in list(pending):
                if calls(f) - done - {f.name} - set(self.props):
                    continue
                spec = self.spec["methods"][f.name]
                if "params" not in spec:
                    raise Untranslatable(f"{self.cls}.{f.name} is declared as a property but is a method")
                if f.name == "__init__":
                    if decos[f.name]:
                        raise Untranslatable("decorated __init__")
                    self.gen_init(f, spec, out)
                elif decos[f.name] == "contextmanager":
                    self.gen_ctxmgr(f, spec, out)
                else:
                    self.gen_method(f, spec, out)
                done.add(f.name)
                pending.remove(f)
                progress = True
            if not progress:
                raise Untranslatable(f"class {self.cls}: recursive self-calls among {[f.name for f in pending]}")
        return out


def ext_variables():
    """the section variables standing for the external classes"""
    out = ["(* the external classes: types and the functions standing for the constructors / methods / attributes used *)"]
    out.append("Variables " + " ".join(EXT_TYPES) + " : Type.")
    for cls, d in EXT.items():
        ty = d["type"]
        out.append(f"Variable {d['ctor']['coq']} : " + " -> ".join(coqty(t) for _, t in d["ctor"]["params"]) + f" -> res {ty}.")
        for m, md in d["methods"].items():
            args = "".join(f" -> {coqty(t)}" for _, t in md["params"])
            if md["kind"] == "mutator":
                r = f"res ({ty} * {coqty(md['ret'])})"
            elif md["kind"] == "mutator_total":
                r = ty
            else:
                r = coqty(md["ret"])
            out.append(f"Variable {md['coq']} : {ty}{args} -> {r}.")
        for a, (f, t) in d["attrs"].items():
            out.append(f"Variable {f} : {ty} -> {coqty(t)}.")
    return out


def generate(repo):
    src = open(os.path.join(repo, REG_FILE)).read()
    tree = ast.parse(src)
    out = ["(* GENERATED on every run by harness/translate12.py from /repo's current source. Do not edit. *)",
           "From Coq Require Import ZArith List Bool String.",
           "From Soc Require Import Lib.Bits Lib.Res Lib.PyLoop Lib.PyNames Lib.PyBuilder Model.MemoryMap.",
           "Import ListNotations.", "Open Scope Z_scope.", ""]
    body = []
    pre_section = []
    for spec in CLASSES:
        tr = Tr(repo, tree, spec, {})
        parts = tr.gen_class()
        if spec["record"]:
            pre_section.append(parts[0])
            parts = parts[1:]
        body += parts
    out += pre_section
    out += ["Section Ext."] + ext_variables() + [""] + body + ["End Ext."]
    return "\n".join(out) + "\n"


# what runner.check_kernels runs for a property whose propdef sets the flag
STAGES = [("builderrest", "BuilderRestGen.v", generate, "TieBuilderRest.v")]

if __name__ == "__main__":
    import sys
    print(generate(sys.argv[1] if len(sys.argv) > 1 else "/repo"))
