"""Fail-closed translator for the CONSTRUCTORS of the peripheral-level classes (not their elaborate() methods):
amaranth_soc/csr/wishbone.py `WishboneCSRBridge.__init__`, amaranth_soc/wishbone/sram.py `WishboneSRAM.__init__` and
its `init` property pair, amaranth_soc/gpio.py `PinMode` (class statement), `PinSignature.__init__`,
`Peripheral.Mode / Input / Output / Output._FieldAction / SetClr .__init__`, `Peripheral.__init__`, and
amaranth_soc/csr/action.py every class' `__init__` (R, W, RW, RW1C, RW1S, _Reserved and the four classes that inherit
it).  Regenerated as monadic Gallina (`comp`, Lib/PyVal.v: return / raise / branch on a boolean) in the code's
statement and evaluation order on every run -> Gen/PeriphGen.v.  Gen/TiePeriph.v proves the generated constructors equal to the models' constructor functions
(Model/WbCsrBridge.v construct, Model/Sram.v construct, Model/Gpio.v ctor / place / reg_specs, Model/Actions.v
has_storage / init_state) for ALL argument values.

The translator walks the Python AST with general rules; TARGETS below only names the files, a prefix for the Coq
names, and which non-constructor methods to translate as well.  Which classes exist, what they inherit, their class
keywords, parameters and defaults are read from the source.  Any statement / expression / call form that no rule
covers raises Untranslatable.

Every Python value is a `pv` (coq/Lib/PyVal.v) - the translation is untyped, like Python:
* int = YInt z; a float equal to an integer = YFloat z; bool = YBool; None = YNone; str = YStr; YBad = any other
  object that is not a number (unequal to every number, arithmetic / ordering with it raise TypeError, truthy).
  Operators are the total functions of Lib/PyVal.v (`py_arith`, `py_cmp`, `py_eq`, `py_in`, `py_truth`, ...),
  which return `comp`: `None <= 0` is Raise TypeError, `x // 0` Raise OtherError, `8.0 in (8, 16)` is true, `and` / `or`
  / conditional expressions evaluate their operands lazily, left to right; `a or b` may be used for its truth
  (if / assert / not) with any operands, as a value only when every operand is itself a boolean.
* tuple / list / dict displays and list comprehensions (one `for`, no `if`) build YTuple / YList / YDict values
  (a comprehension whose element does not mention the loop variable evaluates the element once - if the iterable is
  not empty - and repeats the value: py_const_comp, or py_repeat when the element is a plain value; otherwise the
  element is evaluated per item: py_listcomp);
  they are immutable in the translation: any statement that would mutate one (`d[k] = v`, `.append`) aborts, so
  sharing one dict between several list elements is unobservable.  `range(..)` = YRange, iterated by py_iter.
* descriptor constructors without side effect - `In`, `Out` (imported from amaranth.lib.wiring), `unsigned`,
  `signed` (from amaranth), `csr.Field` - build the structural term `YCon "<name>" args kwargs`; exceptions their own
  argument checking could raise are NOT represented (the term reaches a foreign call later, whose semantics sees
  the arguments).  `exact_log2` / `ceil_log2` (imported from amaranth.utils) are the specified functions
  py_exact_log2 / py_ceil_log2.
* a class statement is the constant `YCon "class" [qualified name; bases; dict of simple class attributes]
  <class keywords>` (doc strings and dunder assignments are skipped, any other class-level statement except
  def / class / pass aborts); a reference to a class is that constant, `self.Name` for a nested class too.
* an instance of a translated class is `YObj "<qualified name>" id`; `C(args)` allocates it (event EvNew, the id is
  the position in the trace) and runs the generated `__init__` of C - or of the nearest base class in the same file
  that defines one - on it.  `super().__init__(..)` calls the generated constructor of the base class if that is
  in the same file, otherwise it is a foreign call of `YAttr (YCon "super" [class constant; self]) "__init__"` (so
  the class keywords, e.g. `access="rw"` of a csr.Register subclass, are visible to the world).
* EVERYTHING ELSE IS FOREIGN and goes through the `world` parameter W of every generated definition, in evaluation
  order: a call of a name / attribute / method that is not translated is `fcall W tr f args kwargs` (the world
  decides the result or the exception; the call and its result are appended to the trace as EvCall); reading an
  attribute of anything but a freshly assigned `self.x` is `w_get W tr obj "attr"`; `obj.attr = v` is `fset`
  (the world may refuse: property setters; recorded as EvSet); `isinstance(x, C)` for a class other than int / str /
  bool / range / dict / list / tuple is `w_isinstance W tr x C`.  The trace is threaded through every statement;
  Gen/TiePeriph.v instantiates W with hand-written specifications of the foreign classes (MemoryMap, MemoryData,
  Memory, wishbone.Signature, csr.Builder, csr.Bridge, csr.Register / FieldAction / Component base constructors)
  and relates the result and the trace to the model.
* `self.x = v` is an EvSet on self and binds `self.x` for the rest of the method; exceptions are `Raise e`:
  ValueError / TypeError / KeyError / AssertionError keep their name, every other class is OtherError; the
  arguments of the exception (messages, f-strings) are not evaluated.
* `if` statements: an arm that always raises / returns needs no join; otherwise the variables (and `self.x`)
  assigned in either arm and the trace are joined (`let* '(x, tr) := Branch c .. ..`); a local that is bound
  on one path only is unbound afterwards (reading it aborts the translation).
* not supported (abort): loops, while, with, try, del, global, lambda, starred / ** arguments, chained comparisons,
  slices, f-strings outside `raise`, augmented assignment to anything but a local, tuple assignment, a foreign call
  or a store inside the lazily evaluated operand of `and` / `or` / a conditional expression / a comprehension body.
"""
import ast, os

from .translate import Untranslatable, find_func, attr_path

ARITH = {ast.Add: "AAdd", ast.Sub: "ASub", ast.Mult: "AMul", ast.FloorDiv: "AFloorDiv", ast.Mod: "AMod",
         ast.BitAnd: "AAnd", ast.BitOr: "AOr", ast.BitXor: "AXor", ast.LShift: "ALShift", ast.RShift: "ARShift"}
CMP = {ast.Lt: "CLt", ast.LtE: "CLe", ast.Gt: "CGt", ast.GtE: "CGe"}
EXC = {"ValueError", "TypeError", "KeyError", "AssertionError"}
ISINSTANCE = {"int": "py_is_int", "str": "py_is_str", "bool": "py_is_bool", "range": "py_is_range",
              "dict": "py_is_dict", "list": "py_is_list", "tuple": "py_is_tuple"}
BUILTIN_VALUES = {"int", "str", "bool", "range", "dict", "list", "tuple", "object", "ValueError", "TypeError",
                  "KeyError", "AssertionError", "AttributeError", "NotImplementedError"}
# descriptor constructors: name as written -> module it must be imported from (None: `from amaranth import *`)
PURE = {"In": "amaranth.lib.wiring", "Out": "amaranth.lib.wiring", "unsigned": None, "signed": None,
        "csr.Field": ".csr"}
INTERPRETED = {"exact_log2": ("amaranth.utils", "py_exact_log2"), "ceil_log2": ("amaranth.utils", "py_ceil_log2")}

TARGETS = [
    # file, prefix of the Coq names, {class: [extra property names]}
    ("amaranth_soc/csr/action.py", "action", {}),
    ("amaranth_soc/csr/wishbone.py", "wbcsr", {}),
    ("amaranth_soc/wishbone/sram.py", "sram", {"WishboneSRAM": ["init"]}),
    ("amaranth_soc/gpio.py", "gpio", {}),
]


def qs(s):
    if any(ord(c) > 126 or (ord(c) < 32 and c != "\n") for c in s):
        raise Untranslatable("string constant with a character outside printable ASCII")
    return '"' + s.replace('"', '""') + '"%string'


def ident(s):
    out = "".join(c if (c.isalnum() and ord(c) < 128) or c == "_" else "_" for c in s)
    return out.strip("_") or "v"


def coq_list(items):
    return "[" + "; ".join(items) + "]"


class V:
    """Coq atom (a closed, effect-free term) of type pv ("pv") or bool ("bool")"""
    def __init__(self, s, t="pv"):
        self.s, self.t = s, t


class Binds:
    def __init__(self):
        self.items = []

    def let(self, pat, term):
        self.items.append(("let", pat, term))

    def letm(self, pat, term):
        self.items.append(("let*", pat, term))

    def wrap(self, body):
        for kind, pat, term in reversed(self.items):
            body = f"({kind} {pat} := {term} in\n  {body})"
        return body


class St:
    """translation state of one straight-line piece: pending bindings, current trace variable"""
    def __init__(self, tr):
        self.b, self.tr = Binds(), tr


class ClassInfo:
    def __init__(self, qual, node, parent):
        self.qual, self.node, self.parent = qual, node, parent
        self.nested = {}
        self.methods = {}      # name -> [FunctionDef] (property getter and setter share a name)
        for ch in node.body:
            if isinstance(ch, ast.FunctionDef):
                self.methods.setdefault(ch.name, []).append(ch)


class Module:
    def __init__(self, repo, rel, prefix, extra):
        self.rel, self.prefix, self.extra = rel, prefix, extra
        self.tree = ast.parse(open(os.path.join(repo, rel)).read())
        self.imports = {}       # local name -> module it comes from ("amaranth.utils"), for `from m import n`
        self.star = set()       # modules star-imported
        self.names = set()      # every module-level name
        self.classes = {}       # qualified name -> ClassInfo, in source order
        for st in self.tree.body:
            if isinstance(st, ast.ImportFrom):
                mod = "." * st.level + (st.module or "")
                for a in st.names:
                    if a.name == "*":
                        self.star.add(mod)
                    else:
                        self.imports[a.asname or a.name] = mod if st.module else mod + a.name
                        self.names.add(a.asname or a.name)
            elif isinstance(st, ast.Import):
                for a in st.names:
                    self.names.add((a.asname or a.name).split(".")[0])
            elif isinstance(st, (ast.FunctionDef, ast.ClassDef)):
                self.names.add(st.name)
            elif isinstance(st, ast.Assign):
                for t in st.targets:
                    if isinstance(t, ast.Name):
                        self.names.add(t.id)
        self._collect(self.tree.body, None)
        self.done_fn = {}       # (qual, kind) -> coq name of generated methods
        self.done_cls = {}      # qual -> coq name of the class constant
        self.out = []

    def _collect(self, body, parent):
        for ch in body:
            if isinstance(ch, ast.ClassDef):
                qual = (parent.qual + "." if parent else "") + ch.name
                ci = ClassInfo(qual, ch, parent)
                if parent:
                    parent.nested[ch.name] = ci
                # nested classes first: Python creates them before the enclosing class exists
                self._collect(ch.body, ci)
                self.classes[qual] = ci

    # ---- class hierarchy
    def base_in_module(self, ci):
        """the ClassInfo of ci's first base class when that is a class of this file, else None"""
        if not ci.node.bases:
            return None
        b = ci.node.bases[0]
        try:
            p = attr_path(b)
        except Untranslatable:
            return None
        return self.resolve_class(p, ci)

    def resolve_class(self, path, ctx):
        """a dotted name as seen from class ctx (or module level)"""
        parts = path.split(".")
        if parts[0] in self.classes and "." not in parts[0]:
            q = parts[0]
            for p in parts[1:]:
                q = q + "." + p
            return self.classes.get(q)
        return None

    def init_owner(self, ci):
        """the class in this file whose __init__ constructs instances of ci (ci itself or an ancestor), or None"""
        seen = set()
        while ci is not None and ci.qual not in seen:
            seen.add(ci.qual)
            if "__init__" in ci.methods:
                return ci
            ci = self.base_in_module(ci)
        return None

    def find_nested(self, ci, name):
        """class attribute `name` of ci that is a nested class (own or inherited inside this file)"""
        seen = set()
        while ci is not None and ci.qual not in seen:
            seen.add(ci.qual)
            if name in ci.nested:
                return ci.nested[name]
            ci = self.base_in_module(ci)
        return None

    def cname(self, qual):
        return f"gen_{self.prefix}_{ident(qual.replace('.', '_'))}"


class Fn:
    """one method"""
    def __init__(self, mod, ci, fn, coqname):
        self.m, self.ci, self.fn, self.coqname = mod, ci, fn, coqname
        self.n = 0
        self.locals = set()
        for x in ast.walk(fn):
            if isinstance(x, ast.Name) and isinstance(x.ctx, (ast.Store, ast.Del)):
                self.locals.add(x.id)
            elif isinstance(x, (ast.FunctionDef, ast.Lambda, ast.ClassDef)) and x is not fn:
                raise Untranslatable(f"{coqname}: nested def / lambda / class")
        a = fn.args
        if a.vararg or a.kwarg or a.posonlyargs:
            raise Untranslatable(f"{coqname}: *args / **kwargs / positional-only parameters")
        if not a.args or a.args[0].arg != "self":
            raise Untranslatable(f"{coqname}: first parameter is not self")
        self.pos = [x.arg for x in a.args[1:]]
        self.kwonly = [x.arg for x in a.kwonlyargs]
        self.params = self.pos + self.kwonly
        self.defaults = {}
        for name, d in zip(reversed(self.pos), reversed(a.defaults)):
            self.defaults[name] = d
        for name, d in zip(self.kwonly, a.kw_defaults):
            if d is not None:
                self.defaults[name] = d
        self.locals |= set(self.params)

    def fresh(self, base):
        self.n += 1
        return f"{ident(base)}_{self.n}"

    # ---------------------------------------------------------------- expressions
    def pv(self, v, st):
        return v.s if v.t == "pv" else f"(YBool {v.s})"

    def bool(self, v, st):
        if v.t == "bool":
            return v.s
        t = self.fresh("t")
        st.b.letm(t, f"py_truth {v.s}")
        return t

    def sub(self, st, env, node, want):
        """node translated on its own (lazily evaluated operand): a term of type comp pv / comp bool"""
        s2 = St(st.tr)
        v = self.ex(node, env, s2)
        if s2.tr != st.tr:
            raise Untranslatable("foreign call or store inside a lazily evaluated operand / comprehension body")
        a = self.pv(v, s2) if want == "pv" else self.bool(v, s2)
        return s2.b.wrap(f"(Ret {a})")

    def global_value(self, path):
        """a dotted name that is not a local: class constant, or YGlobal"""
        root = path.split(".")[0]
        ci = self.m.resolve_class(path, self.ci)
        if ci is not None:
            if ci.qual not in self.m.done_cls:
                raise Untranslatable(f"class {ci.qual} used before its class statement")
            return V(self.m.done_cls[ci.qual])
        if root in self.m.names or (path in BUILTIN_VALUES) or (self.m.star and root.isidentifier()):
            # (with a star import in the file any other name may come from there: Signal, Module, ...)
            return V(f"(YGlobal {qs(path)})")
        raise Untranslatable(f"unknown name {path}")

    def is_local(self, name):
        return name in self.locals or name == "self"

    def ex(self, n, env, st):
        if isinstance(n, ast.Constant):
            c = n.value
            if c is None:
                return V("YNone")
            if isinstance(c, bool):
                return V("true" if c else "false", "bool")
            if isinstance(c, int):
                return V(f"(YInt ({c}))")
            if isinstance(c, str):
                return V(f"(YStr {qs(c)})")
            raise Untranslatable(f"constant {c!r}")
        if isinstance(n, ast.Name):
            if n.id == "self":
                return V("self")
            if n.id in env:
                if env[n.id] is None:
                    raise Untranslatable(f"local {n.id} may be unbound here")
                return env[n.id]
            if n.id in self.locals:
                raise Untranslatable(f"local {n.id} read before assignment")
            return self.global_value(n.id)
        if isinstance(n, ast.Attribute):
            return self.attribute(n, env, st)
        if isinstance(n, ast.BinOp):
            if type(n.op) not in ARITH:
                raise Untranslatable("operator " + type(n.op).__name__)
            a = self.pv(self.ex(n.left, env, st), st)
            b = self.pv(self.ex(n.right, env, st), st)
            r = self.fresh("x")
            st.b.letm(r, f"py_arith {ARITH[type(n.op)]} {a} {b}")
            return V(r)
        if isinstance(n, ast.UnaryOp):
            if isinstance(n.op, ast.Not):
                return V(f"(negb {self.cond(n.operand, env, st)})", "bool")
            if isinstance(n.op, (ast.USub, ast.Invert)):
                a = self.pv(self.ex(n.operand, env, st), st)
                r = self.fresh("x")
                st.b.letm(r, f"{'py_neg' if isinstance(n.op, ast.USub) else 'py_invert'} {a}")
                return V(r)
            raise Untranslatable("unary +")
        if isinstance(n, ast.BoolOp):
            # as a VALUE `a or b` is one of its operands; that is the boolean computed here only when every operand
            # is itself a boolean (comparison, isinstance, not ...): anything else aborts
            return self.boolop(n, env, st, strict=True)
        if isinstance(n, ast.Compare):
            if len(n.ops) != 1:
                raise Untranslatable("chained comparison")
            op, rhs = n.ops[0], n.comparators[0]
            if isinstance(op, (ast.Is, ast.IsNot)):
                if not (isinstance(rhs, ast.Constant) and rhs.value is None):
                    raise Untranslatable("`is` with something other than None")
                a = self.pv(self.ex(n.left, env, st), st)
                s = f"(py_is_none {a})"
                return V(s if isinstance(op, ast.Is) else f"(negb {s})", "bool")
            a = self.pv(self.ex(n.left, env, st), st)
            b = self.pv(self.ex(rhs, env, st), st)
            r = self.fresh("c")
            if type(op) in CMP:
                st.b.letm(r, f"py_cmp {CMP[type(op)]} {a} {b}")
                return V(r, "bool")
            if isinstance(op, (ast.Eq, ast.NotEq)):
                st.b.letm(r, f"py_eq {a} {b}")
                return V(r if isinstance(op, ast.Eq) else f"(negb {r})", "bool")
            if isinstance(op, (ast.In, ast.NotIn)):
                st.b.letm(r, f"py_in {a} {b}")
                return V(r if isinstance(op, ast.In) else f"(negb {r})", "bool")
            raise Untranslatable("comparison " + type(op).__name__)
        if isinstance(n, ast.IfExp):
            c = self.cond(n.test, env, st)
            r = self.fresh("x")
            st.b.letm(r, f"(Branch {c} {self.sub(st, env, n.body, 'pv')} {self.sub(st, env, n.orelse, 'pv')})")
            return V(r)
        if isinstance(n, (ast.Tuple, ast.List)):
            if any(isinstance(e, ast.Starred) for e in n.elts):
                raise Untranslatable("starred element")
            items = [self.pv(self.ex(e, env, st), st) for e in n.elts]
            return V(f"({'YTuple' if isinstance(n, ast.Tuple) else 'YList'} {coq_list(items)})")
        if isinstance(n, ast.Dict):
            items = []
            for k, v in zip(n.keys, n.values):
                if k is None:
                    raise Untranslatable("** in a dict display")
                kk = self.pv(self.ex(k, env, st), st)
                vv = self.pv(self.ex(v, env, st), st)
                items.append(f"({kk}, {vv})")
            return V(f"(YDict {coq_list(items)})")
        if isinstance(n, ast.ListComp):
            if len(n.generators) != 1:
                raise Untranslatable("nested comprehension")
            g = n.generators[0]
            if g.ifs or g.is_async or not isinstance(g.target, ast.Name):
                raise Untranslatable("comprehension with a condition / a tuple target")
            it = self.pv(self.ex(g.iter, env, st), st)
            if not any(isinstance(y, ast.Name) and y.id == g.target.id for y in ast.walk(n.elt)):
                # the element does not mention the loop variable: one value, len(iterable) times
                s2 = St(st.tr)
                v = self.pv(self.ex(n.elt, env, s2), s2)
                if s2.tr != st.tr:
                    raise Untranslatable("foreign call or store inside a comprehension body")
                r = self.fresh("l")
                if not s2.b.items:
                    st.b.letm(r, f"py_repeat {v} {it}")          # a plain value: nothing to evaluate
                else:
                    st.b.letm(r, f"py_const_comp {s2.b.wrap(f'(Ret {v})')} {it}")
                return V(r)
            items = self.fresh("items")
            st.b.letm(items, f"py_iter {it}")
            x = self.fresh(g.target.id)
            env2 = dict(env); env2[g.target.id] = V(x)
            body = self.sub(st, env2, n.elt, "pv")
            r = self.fresh("l")
            st.b.letm(r, f"py_listcomp (fun {x} => {body}) {items}")
            return V(r)
        if isinstance(n, ast.Subscript):
            if isinstance(n.slice, ast.Slice):
                raise Untranslatable("slice")
            c = self.pv(self.ex(n.value, env, st), st)
            i = self.pv(self.ex(n.slice, env, st), st)
            r = self.fresh("x")
            st.b.letm(r, f"py_getitem {c} {i}")
            return V(r)
        if isinstance(n, ast.Call):
            return self.call(n, env, st)
        raise Untranslatable("expression " + ast.dump(n)[:100])

    def boolop(self, n, env, st, strict):
        """`a and b` / `a or b`, operands evaluated lazily left to right; result: its truth value"""
        def operand(v, s2):
            x = self.ex(v, env, s2) if not isinstance(v, ast.BoolOp) else self.boolop(v, env, s2, strict)
            if strict and x.t != "bool":
                raise Untranslatable("`and` / `or` of non-boolean operands used as a value")
            return self.bool(x, s2)
        first = operand(n.values[0], st)
        term = None
        for v in reversed(n.values[1:]):
            s2 = St(st.tr)
            c = operand(v, s2)
            if s2.tr != st.tr:
                raise Untranslatable("foreign call inside the lazily evaluated operand of and / or")
            if term is None:
                inner = f"(Ret {c})"
            elif isinstance(n.op, ast.Or):
                inner = f"(Branch {c} (Ret true)\n  {term})"
            else:
                inner = f"(Branch {c}\n  {term}\n  (Ret false))"
            term = s2.b.wrap(inner)
        r = self.fresh("c")
        if isinstance(n.op, ast.Or):
            st.b.letm(r, f"(Branch {first} (Ret true)\n  {term})")
        else:
            st.b.letm(r, f"(Branch {first}\n  {term}\n  (Ret false))")
        return V(r, "bool")

    def cond(self, n, env, st):
        """n in a position where only its truth matters (if / assert / conditional expression test)"""
        if isinstance(n, ast.BoolOp):
            return self.boolop(n, env, st, strict=False).s
        if isinstance(n, ast.UnaryOp) and isinstance(n.op, ast.Not):
            return f"(negb {self.cond(n.operand, env, st)})"
        return self.bool(self.ex(n, env, st), st)

    def dotted_global(self, n):
        """Attribute chain rooted at a name that is not a local -> its dotted text, else None"""
        try:
            p = attr_path(n)
        except Untranslatable:
            return None
        root = p.split(".")[0]
        return None if self.is_local(root) else p

    def attribute(self, n, env, st):
        if isinstance(n.value, ast.Name) and n.value.id == "self":
            key = "self." + n.attr
            if key in env and env[key] is not None:
                return env[key]
            ci = self.m.find_nested(self.ci, n.attr)
            if ci is not None:
                if ci.qual not in self.m.done_cls:
                    raise Untranslatable(f"class {ci.qual} used before its class statement")
                return V(self.m.done_cls[ci.qual])
        p = self.dotted_global(n)
        if p is not None:
            return self.global_value(p)
        o = self.pv(self.ex(n.value, env, st), st)
        r = self.fresh(n.attr)
        st.b.letm(r, f"w_get W {st.tr} {o} {qs(n.attr)}")
        return V(r)

    def args_of(self, n, env, st):
        if any(isinstance(a, ast.Starred) for a in n.args) or any(k.arg is None for k in n.keywords):
            raise Untranslatable("starred / ** argument")
        args = [self.pv(self.ex(a, env, st), st) for a in n.args]
        kw = [(k.arg, self.pv(self.ex(k.value, env, st), st)) for k in n.keywords]
        return args, kw

    def foreign(self, f, n, env, st):
        args, kw = self.args_of(n, env, st)
        r, tr = self.fresh("r"), self.fresh("tr")
        kws = coq_list([f"({qs(k)}, {v})" for k, v in kw])
        st.b.letm(f"'({r}, {tr})", f"fcall W {st.tr} {f} {coq_list(args)} {kws}")
        st.tr = tr
        return V(r)

    def imported_from(self, name, module):
        """is `name` (possibly dotted: its root) bound at module level by an import from `module`?"""
        root = name.split(".")[0]
        if module is None:
            return "amaranth" in self.m.star or self.m.imports.get(root) == "amaranth"
        got = self.m.imports.get(root)
        return got is not None and (got == module or got.lstrip(".") == module.lstrip("."))

    def call_translated(self, ci_target, selfv, owner, n, env, st):
        """run the generated __init__ of class `owner` on the object selfv"""
        key = (owner.qual, "__init__")
        if key not in self.m.done_fn:
            raise Untranslatable(f"{owner.qual}.__init__ used before it is translated (recursion is not supported)")
        coq, fn = self.m.done_fn[key]
        if any(isinstance(a, ast.Starred) for a in n.args) or any(k.arg is None for k in n.keywords):
            raise Untranslatable("starred / ** argument")
        if len(n.args) > len(fn.pos):
            raise Untranslatable("too many positional arguments")
        given = {}
        for name, a in zip(fn.pos, n.args):
            given[name] = self.pv(self.ex(a, env, st), st)
        for k in n.keywords:
            if k.arg not in fn.params or k.arg in given:
                raise Untranslatable(f"unexpected keyword argument {k.arg}")
            given[k.arg] = self.pv(self.ex(k.value, env, st), st)
        actual = []
        for p in fn.params:
            if p in given:
                actual.append(given[p])
            elif p in fn.defaults:
                actual.append(f"{coq}_default_{ident(p)}")
            else:
                raise Untranslatable(f"missing argument {p}")
        tr = self.fresh("tr")
        st.b.letm(f"'(_, {tr})", f"{coq} W {st.tr} {selfv} " + " ".join(actual))
        st.tr = tr

    def instantiate(self, ci, n, env, st):
        owner = self.m.init_owner(ci)
        if owner is None:
            # no constructor in this file: the whole call is foreign (e.g. an Enum class called with a value)
            return self.foreign(self.m.done_cls[ci.qual], n, env, st)
        o, tr = self.fresh("obj"), self.fresh("tr")
        st.b.let(f"'({o}, {tr})", f"fnew {st.tr} {qs(ci.qual)}")
        st.tr = tr
        self.call_translated(ci, o, owner, n, env, st)
        return V(o)

    def call(self, n, env, st):
        f = n.func
        # super().__init__(...)
        if isinstance(f, ast.Attribute) and isinstance(f.value, ast.Call) and isinstance(f.value.func, ast.Name) \
                and f.value.func.id == "super" and "super" not in self.locals:
            if f.value.args or f.value.keywords or f.attr != "__init__":
                raise Untranslatable("super(...) with arguments / a method other than __init__")
            base = self.m.base_in_module(self.ci)
            owner = self.m.init_owner(base) if base is not None else None
            if owner is not None:
                self.call_translated(base, "self", owner, n, env, st)
                return V("YNone")
            fv = f"(YAttr (YCon \"super\"%string [{self.m.done_cls[self.ci.qual]}; self] []) \"__init__\"%string)"
            return self.foreign(fv, n, env, st)
        if isinstance(f, ast.Name) and not self.is_local(f.id):
            name = f.id
            if name == "isinstance":
                return self.isinstance(n, env, st)
            if name in ("len", "bool", "max", "min", "range", "tuple", "list") and name not in self.m.names:
                if n.keywords or any(isinstance(a, ast.Starred) for a in n.args):
                    raise Untranslatable(f"{name}() with keyword / starred arguments")
                args = [self.pv(self.ex(a, env, st), st) for a in n.args]
                r = self.fresh("x")
                if name == "len" and len(args) == 1:
                    st.b.letm(r, f"py_len {args[0]}"); return V(r)
                if name == "bool" and len(args) == 1:
                    st.b.letm(r, f"py_truth {args[0]}"); return V(r, "bool")
                if name in ("max", "min") and len(args) == 2:
                    st.b.letm(r, f"py_{name} {args[0]} {args[1]}"); return V(r)
                if name == "range" and 1 <= len(args) <= 3:
                    st.b.letm(r, f"py_range {coq_list(args)}"); return V(r)
                if name in ("tuple", "list") and len(args) == 1:
                    st.b.letm(r, f"py_iter {args[0]}")
                    return V(f"({'YTuple' if name == 'tuple' else 'YList'} {r})")
                raise Untranslatable(f"{name}() with {len(args)} arguments")
            if name in INTERPRETED and self.imported_from(name, INTERPRETED[name][0]):
                if n.keywords or len(n.args) != 1:
                    raise Untranslatable(f"{name}() arguments")
                a = self.pv(self.ex(n.args[0], env, st), st)
                r = self.fresh("x")
                st.b.letm(r, f"{INTERPRETED[name][1]} {a}")
                return V(r)
        p = self.dotted_global(f) if isinstance(f, (ast.Attribute, ast.Name)) else None
        if p is not None:
            if p in PURE and self.imported_from(p, PURE[p]):
                args, kw = self.args_of(n, env, st)
                kws = coq_list([f"({qs(k)}, {v})" for k, v in kw])
                return V(f"(YCon {qs(p)} {coq_list(args)} {kws})")
            ci = self.m.resolve_class(p, self.ci)
            if ci is not None:
                if ci.qual not in self.m.done_cls:
                    raise Untranslatable(f"class {ci.qual} used before its class statement")
                return self.instantiate(ci, n, env, st)
            return self.foreign(self.global_value(p).s, n, env, st)
        if isinstance(f, ast.Attribute):
            if isinstance(f.value, ast.Name) and f.value.id == "self" and ("self." + f.attr) not in env:
                ci = self.m.find_nested(self.ci, f.attr)
                if ci is not None:
                    if ci.qual not in self.m.done_cls:
                        raise Untranslatable(f"class {ci.qual} used before its class statement")
                    return self.instantiate(ci, n, env, st)
            # a method of some object
            o = self.pv(self.ex(f.value, env, st), st)
            return self.foreign(f"(YAttr {o} {qs(f.attr)})", n, env, st)
        # a callable held in a local
        fv = self.pv(self.ex(f, env, st), st)
        return self.foreign(fv, n, env, st)

    def isinstance(self, n, env, st):
        if len(n.args) != 2 or n.keywords:
            raise Untranslatable("isinstance arguments")
        x = self.pv(self.ex(n.args[0], env, st), st)
        classes = n.args[1].elts if isinstance(n.args[1], ast.Tuple) else [n.args[1]]
        parts = []
        for c in classes:
            if isinstance(c, ast.Name) and c.id in ISINSTANCE and not self.is_local(c.id) and c.id not in self.m.names:
                parts.append(f"{ISINSTANCE[c.id]} {x}")
            else:
                cv = self.pv(self.ex(c, env, st), st)
                r = self.fresh("c")
                st.b.letm(r, f"w_isinstance W {st.tr} {x} {cv}")
                parts.append(r)
        return V("(" + " || ".join(parts) + ")", "bool")

    # ---------------------------------------------------------------- statements
    @staticmethod
    def terminates(body):
        if not body:
            return False
        last = body[-1]
        if isinstance(last, (ast.Raise, ast.Return)):
            return True
        if isinstance(last, ast.If):
            return Fn.terminates(last.body) and Fn.terminates(last.orelse)
        return False

    @staticmethod
    def has_return(body):
        return any(isinstance(x, ast.Return) for s in body for x in ast.walk(s))

    def assigned(self, body):
        out = []
        for s in body:
            for x in ast.walk(s):
                tg = []
                if isinstance(x, ast.Assign):
                    tg = x.targets
                elif isinstance(x, (ast.AugAssign, ast.AnnAssign)):
                    tg = [x.target]
                for t in tg:
                    if isinstance(t, ast.Name):
                        k = t.id
                    elif isinstance(t, ast.Attribute) and isinstance(t.value, ast.Name) and t.value.id == "self":
                        k = "self." + t.attr
                    else:
                        continue
                    if k not in out:
                        out.append(k)
        return out

    def exc(self, st):
        e = st.exc
        if e is None or st.cause is not None:
            raise Untranslatable("bare raise / raise from")
        name = e.func if isinstance(e, ast.Call) else e
        if not isinstance(name, ast.Name) or self.is_local(name.id):
            raise Untranslatable("raise of something that is not an exception class name")
        return name.id if name.id in EXC else "OtherError"

    def block(self, body, env, tr, k):
        """`body`, then the continuation k(env, tr); a Coq term of type comp (pv * trace)"""
        if not body:
            return k(env, tr)
        s, rest = body[0], body[1:]
        if isinstance(s, ast.Pass) or (isinstance(s, ast.Expr) and isinstance(s.value, ast.Constant)
                                       and isinstance(s.value.value, str)):
            return self.block(rest, env, tr, k)
        if isinstance(s, ast.Raise):
            return f"(Raise {self.exc(s)})"
        st = St(tr)
        if isinstance(s, ast.Return):
            v = "YNone" if s.value is None else self.pv(self.ex(s.value, env, st), st)
            return st.b.wrap(f"(Ret ({v}, {st.tr}))")
        if isinstance(s, ast.Expr):
            if not isinstance(s.value, ast.Call):
                raise Untranslatable("expression statement that is not a call")
            self.ex(s.value, env, st)
            return st.b.wrap(self.block(rest, env, st.tr, k))
        if isinstance(s, ast.Assert):
            c = self.cond(s.test, env, st)
            return st.b.wrap(f"(Branch {c}\n  {self.block(rest, env, st.tr, k)}\n  (Raise AssertionError))")
        if isinstance(s, (ast.Assign, ast.AugAssign)):
            if isinstance(s, ast.Assign):
                if len(s.targets) != 1:
                    raise Untranslatable("multiple assignment targets")
                t = s.targets[0]
                v = self.ex(s.value, env, st)
            else:
                t = s.target
                if not isinstance(t, ast.Name) or type(s.op) not in ARITH:
                    raise Untranslatable("augmented assignment to a non-local / unsupported operator")
                a = self.pv(self.ex(ast.Name(id=t.id, ctx=ast.Load()), env, st), st)
                b = self.pv(self.ex(s.value, env, st), st)
                r = self.fresh("x")
                st.b.letm(r, f"py_arith {ARITH[type(s.op)]} {a} {b}")
                v = V(r)
            env2 = dict(env)
            if isinstance(t, ast.Name):
                if t.id == "self":
                    raise Untranslatable("assignment to self")
                nm = self.fresh(t.id)
                st.b.let(nm, v.s)
                env2[t.id] = V(nm, v.t)
            elif isinstance(t, ast.Attribute):
                val = self.pv(v, st)
                if isinstance(t.value, ast.Name) and t.value.id == "self":
                    o = "self"
                    nm = self.fresh("self_" + t.attr)
                    st.b.let(nm, val)
                    env2["self." + t.attr] = V(nm)
                    val = nm
                else:
                    o = self.pv(self.ex(t.value, env, st), st)
                tr2 = self.fresh("tr")
                st.b.letm(tr2, f"fset W {st.tr} {o} {qs(t.attr)} {val}")
                st.tr = tr2
            else:
                raise Untranslatable("assignment target " + type(t).__name__)
            return st.b.wrap(self.block(rest, env2, st.tr, k))
        if isinstance(s, ast.If):
            c = self.cond(s.test, env, st)
            if self.terminates(s.body):
                dead = lambda e, t: (_ for _ in ()).throw(Untranslatable("unreachable continuation reached"))
                a = self.block(s.body, env, st.tr, dead)
                b = self.block(list(s.orelse) + list(rest), env, st.tr, k)
                return st.b.wrap(f"(Branch {c}\n  {a}\n  {b})")
            if self.terminates(s.orelse):
                dead = lambda e, t: (_ for _ in ()).throw(Untranslatable("unreachable continuation reached"))
                a = self.block(list(s.body) + list(rest), env, st.tr, k)
                b = self.block(s.orelse, env, st.tr, dead)
                return st.b.wrap(f"(Branch {c}\n  {a}\n  {b})")
            if self.has_return(s.body) or self.has_return(s.orelse):
                a = self.block(list(s.body) + list(rest), env, st.tr, k)
                b = self.block(list(s.orelse) + list(rest), env, st.tr, k)
                return st.b.wrap(f"(Branch {c}\n  {a}\n  {b})")
            names = self.assigned(s.body) + [x for x in self.assigned(s.orelse) if x not in self.assigned(s.body)]
            # pass 1: which of them are bound at the end of every path through both arms
            ends = []

            def probe(e, t):
                ends.append(e)
                return "?"
            save = self.n
            self.block(s.body, env, st.tr, probe)
            self.block(s.orelse, env, st.tr, probe)
            self.n = save
            joined = [x for x in names if all(e.get(x) is not None for e in ends)]

            # pass 2: the arms, ending in the tuple of the joined values and the trace
            def arm_end(e, t):
                vals = [self.pv(e[x], None) for x in joined]
                return "(Ret (" + ", ".join(vals + [t]) + "))" if vals else f"(Ret {t})"
            ta = self.block(s.body, env, st.tr, arm_end)
            tb = self.block(s.orelse, env, st.tr, arm_end)
            env2 = dict(env)
            for x in names:
                env2[x] = None
            fresh = []
            for x in joined:
                nm = self.fresh(x.replace("self.", "self_"))
                env2[x] = V(nm)
                fresh.append(nm)
            trn = self.fresh("tr")
            pat = "'(" + ", ".join(fresh + [trn]) + ")" if fresh else trn
            st.b.letm(pat, f"(Branch {c}\n  {ta}\n  {tb})")
            return st.b.wrap(self.block(rest, env2, trn, k))
        raise Untranslatable("statement " + type(s).__name__)


def class_constant(m, ci):
    """the class statement as a value: name, bases, simple class attributes, class keywords"""
    dummy = Fn.__new__(Fn)
    dummy.m, dummy.ci, dummy.n, dummy.locals = m, ci.parent, 0, set()
    st = St("tr")
    bases = [dummy.pv(dummy.ex(b, {}, st), st) for b in ci.node.bases]
    kws = []
    for k in ci.node.keywords:
        if k.arg is None:
            raise Untranslatable(f"class {ci.qual}: ** in the class statement")
        kws.append(f"({qs(k.arg)}, {dummy.pv(dummy.ex(k.value, {}, st), st)})")
    attrs = []
    env = {}
    for s in ci.node.body:
        if isinstance(s, (ast.FunctionDef, ast.ClassDef, ast.Pass)):
            continue
        if isinstance(s, ast.Expr) and isinstance(s.value, ast.Constant) and isinstance(s.value.value, str):
            continue
        if isinstance(s, ast.Assign) and len(s.targets) == 1 and isinstance(s.targets[0], ast.Name):
            name = s.targets[0].id
            if name.startswith("__") and name.endswith("__"):
                continue
            if isinstance(s.value, ast.Constant) and isinstance(s.value.value, str):
                continue            # documentation templates
            v = dummy.pv(dummy.ex(s.value, env, st), st)
            attrs.append(f"(YStr {qs(name)}, {v})")
            env[name] = V(v)
            continue
        raise Untranslatable(f"class {ci.qual}: class-level statement {type(s).__name__}")
    if st.b.items:
        raise Untranslatable(f"class {ci.qual}: bases / keywords / attributes are not plain descriptors")
    name = m.cname(ci.qual) + "_class"
    m.out.append(f"(* {m.rel}: class {ci.qual} *)\nDefinition {name} : pv :=\n"
                 f"  YCon \"class\"%string [YStr {qs(ci.qual)}; YTuple {coq_list(bases)}; YDict {coq_list(attrs)}] "
                 f"{coq_list(kws)}.\n")
    m.done_cls[ci.qual] = name


def method(m, ci, fn, suffix):
    coq = m.cname(ci.qual) + "_" + suffix
    f = Fn(m, ci, fn, coq)
    env = {p: V("a_" + ident(p)) for p in f.params}
    is_init = fn.name == "__init__"
    body = f.block(fn.body, env, "tr_0", lambda e, t: f"(Ret ({'self' if is_init else 'YNone'}, {t}))")
    if is_init:
        # __init__ returns None; the generated function returns the object for the caller's convenience only when it
        # falls off the end.  An explicit `return` inside __init__ gives YNone: both mean "constructed".
        pass
    ps = "".join(f" (a_{ident(p)} : pv)" for p in f.params)
    for p, d in f.defaults.items():
        dm = Fn.__new__(Fn)
        dm.m, dm.ci, dm.n, dm.locals = m, ci, 0, set()
        st = St("tr")
        dv = dm.pv(dm.ex(d, {}, st), st)
        if st.b.items:
            raise Untranslatable(f"{coq}: default of {p} is not a plain value")
        m.out.append(f"Definition {coq}_default_{ident(p)} : pv := {dv}.")
    m.out.append(f"(* {m.rel}: {ci.qual}.{fn.name}{' (' + suffix + ')' if suffix != ident(fn.name) else ''} *)\n"
                 f"Definition {coq} (W : world) (tr_0 : trace) (self : pv){ps} : comp (pv * trace) :=\n  {body}.\n")
    return coq, f


def property_kind(fn):
    for d in fn.decorator_list:
        if isinstance(d, ast.Name) and d.id == "property":
            return "get"
        if isinstance(d, ast.Attribute) and d.attr == "setter":
            return "set"
    return None


def translate_module(repo, rel, prefix, extra):
    m = Module(repo, rel, prefix, extra)
    for want in extra:
        if want not in m.classes:
            raise Untranslatable(f"{rel}: class {want} not found")
    for qual, ci in m.classes.items():
        class_constant(m, ci)
        if "__init__" in ci.methods:
            if len(ci.methods["__init__"]) != 1 or ci.methods["__init__"][0].decorator_list:
                raise Untranslatable(f"{qual}.__init__ defined twice / decorated")
            coq, f = method(m, ci, ci.methods["__init__"][0], "init")
            m.done_fn[(qual, "__init__")] = (coq, f)
        else:
            owner = m.init_owner(ci)
            if owner is not None:
                coq, f = m.done_fn[(owner.qual, "__init__")]
                ps = " ".join("a_" + ident(p) for p in f.params)
                m.out.append(f"(* {rel}: {qual} inherits {owner.qual}.__init__ *)\n"
                             f"Definition {m.cname(qual)}_init (W : world) (tr_0 : trace) (self : pv)"
                             + "".join(f" (a_{ident(p)} : pv)" for p in f.params)
                             + f" : comp (pv * trace) :=\n  {coq} W tr_0 self {ps}.\n")
        for name in extra.get(qual, []):
            fns = ci.methods.get(name, [])
            if not fns:
                raise Untranslatable(f"{qual}.{name} not found")
            for fn in fns:
                kind = property_kind(fn)
                if kind is None or len(fn.decorator_list) != 1:
                    raise Untranslatable(f"{qual}.{name}: not a plain property getter / setter")
                method(m, ci, fn, f"{ident(name)}_{kind}")
    return "\n".join(m.out)


def generate(repo):
    out = ["(* GENERATED on every run by harness/translate11.py from /repo's current source. Do not edit. *)",
           "From Coq Require Import String ZArith List Bool.", "From Soc Require Import Lib.Res Lib.PyVal.",
           "Import ListNotations.", "Open Scope Z_scope.", ""]
    for rel, prefix, extra in TARGETS:
        out.append(f"(* ================================================================ {rel} *)\n")
        out.append(translate_module(repo, rel, prefix, extra))
    return "\n".join(out) + "\n"


# what runner.check_kernels runs for a property whose propdef sets the flag
STAGES = [("periphctors", "PeriphGen.v", generate, "TiePeriph.v")]

if __name__ == "__main__":
    import sys
    print(generate(sys.argv[1] if len(sys.argv) > 1 else "/repo"))
