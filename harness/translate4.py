"""Fail-closed translator for the namespace code of /repo's memory.py (DESIGN 4.2, fourth stage): `MemoryMap.Name.__new__`,
the class `_Namespace` (`__init__`, `names`, `is_available`, `assign`, `extend`) and the namespace statements of
`MemoryMap.add_resource` / `MemoryMap.add_window` are regenerated as monadic Gallina (`res`) on every run, statement by
statement, from the Python AST of the CURRENT source.  Gen/TieNamespace.v proves the result equal to Model/MemoryMap.v's
mk_name / is_available / the `m_names` updates of add_resource and add_window.

Python subset (anything else raises Untranslatable; nothing is compared against expected source text except the three
anchors listed at the end):

  statements   assignment to a local, `self.<state attr> = e`, `self._assignments[k] = v`, `del x`, `assert e`,
               `if / else` (any nesting; `x is None` / `x is not None` on an optional variable narrows it in the arms),
               `for target in iterable:` with `break`, `continue`, `return`, `raise` and loop-carried variables (the locals
               and state attributes assigned in the body that exist before the loop), `return e`, `raise E(...)`,
               `yield e` / `yield from e` (generator functions), `pass`, docstrings, the calls `x.append(<f-string>)` on
               a message list, `<state>.update(d)`, `<state>.assign(a, o)`, `<state>.extend(ns)`.
  expressions  int / bool / None constants, locals, `+ - * // %` on ints, `|` on sets, comparisons (ints, name parts,
               names), `in` / `not in` on a dict or set of names, `and / or / not` (short-circuit when the right operand
               can raise), `a if c else b`, `isinstance(x, str | int | tuple | _Namespace)`, `len min max enumerate tuple
               list set`, `sorted(s, key=...)`, tuple / list displays, `x[i]`, `x[i:]`, `x[:i]`, `d[k]`, `d.keys()`,
               generator expressions and list comprehensions with one `for` (and `if` filters), `*args` in a call,
               `MemoryMap.Name(x)`, `tuple.__new__(MemoryMap.Name, x)`, `ns.is_available(...)`, `ns.names()`.

A loop becomes `for_each (fun item state => body) items state0` (coq/Lib/PyLoop.v) whose body answers Next / Brk / Ret or
Err; `enumerate(l)` is `py_enumerate l`; the statements after the loop are the continuation of `after_loop`.  An `if`
whose arms cannot leave the enclosing block joins the variables assigned in either arm; otherwise the statements that
follow are copied into both arms.  Every exception is a `res` value (`raise ValueError(..)` = Err ValueError, a failed
`assert` = Err AssertionError, IndexError = Err OtherError as the model has it).

How Python objects are represented (coq/Lib/PyNames.v, coq/Lib/PyLoop.v are the trusted reading of the primitives):

  * an int is Z; `len(l)` is `Z.of_nat (length l)`; indices are Z and `l[i]` is `py_index l i` (negative i counts from
    the end, out of range is Err OtherError);
  * a string is an atom (Z, 0 = the empty string) as in the model; str == str is atom equality, "0" != 0 because a
    string part and an int part are different constructors of `part` (comparison of parts is the model's `part_eqb`);
  * a not yet validated name is a `rawname` (NStr / NTuple of `rawpart`s / NOther), its items `rawpart`s (RStr / RInt /
    ROther); an operation the abstraction cannot answer (len of a str, truth value or `>=` of an unknown object, iterating
    a non-tuple) is Err OtherError, which the model never returns for a name, so the tie lemma fails if it is reachable;
  * a `MemoryMap.Name` instance is a `name` = list part; where it is handed to code that takes an arbitrary value
    (`is_available(name)`, `MemoryMap.Name(name)` again) it is `raw_of_name n` (the same tuple, untyped);
    `tuple.__new__(MemoryMap.Name, t)` is `cast_name t` (same items, no validation);
  * the dict `_Namespace._assignments` (Name -> object) is represented by its keys in insertion order (`list name`); the
    objects are not represented.  `d[k] = v` is `ns_set d k` (append unless an equal key is present), `d.update(e)`
    folds that over e's keys, `k in d` is `ns_has d k`, `d[k]` is evaluated for its KeyError only, `d.keys()` is the
    list.  Any other use of the dict aborts.  A `_Namespace` object is its dict; `self._namespace` of a MemoryMap is
    the state threaded through add_resource / add_window, `window._namespace` is a second, read-only list;
  * a set is a list whose order and multiplicities are unspecified: `s | t` is `s ++ t`, `set(l)` is `l`, and the only
    way to iterate one is `sorted(s, key=...)`, translated to `order s` where `order : list name -> list name` is a
    PARAMETER of the generated section; the tie lemmas assume only `forall l x, In x (order l) <-> In x l` and prove the
    results independent of the order.  The `key=` must be a lambda mapping a name to the tuple of `str(part)` (any total
    order will do, but without `str` mixed str/int parts would raise TypeError);
  * a generator (generator expression, `ns.names()`) is the list of what it yields and may be consumed once: a second
    iteration / unpacking of the same generator variable aborts the translation; subscripting one aborts;
  * the optional message list `reasons` is a bool ("is not None"); `reasons.append(f"...")` is translated to the
    effects of evaluating the f-string's fields (a `d[k]` inside it can raise KeyError), the text itself is dropped.
    Statements in front of a `raise` at the end of a block that only build the message (no store to an attribute or
    subscript, no call on `self`) are ignored, as in translate2.

add_resource / add_window: the top-level statements are split into those that touch the namespace (they mention
`_namespace` or `MemoryMap.Name`, or assign / delete a local such a statement uses) and the others.  The first kind is
translated; each maximal run of the second kind becomes a parameter `blk_i : res unit` (it may raise, it may read but not
write the tracked locals, it must not mention `_namespace` / `_assignments` and must not `return` unless it is the final
statement), except that a statement calling `self._compute_addr_range` or `self._ranges.insert` (the statements the
model lets raise after the namespace check) stands alone as the named parameter `eff_compute_addr_range` /
`eff_ranges_insert`, so that the generated text fixes where the namespace update happens relative to them.  The generated function returns the pair (`self._namespace` when the call ends - normally or by an exception -,
outcome): every exception carries the namespace as it is at that moment (`bind_st`), so the function fixes which names
are queried, with which `reasons`, which exception a refusal raises, and where - relative to the opaque blocks that can
still raise - the namespace is updated (an update in front of a statement that raises shows in the result).  In this
mode an `if` always copies the following statements into both arms (no join), and loops are not supported.
The methods of `_Namespace` themselves return `res (new keys)`, which stands for "an exception leaves the dict as it
was": the translation aborts if a statement that can raise follows a change of the dict in the same method.

Anchors checked by shape: `MemoryMap.__init__` contains `self._namespace = _Namespace()`; no other method of MemoryMap
than __init__ / add_resource / add_window / __repr__ mentions `_namespace`; `_assignments` is mentioned only inside
`_Namespace` (__init__, is_available, assign, extend, names, __repr__)."""
import ast, os

from .translate import Untranslatable, find_func, attr_path
from .translate2 import M as _M2

RAWNAME, RAWPART, PART = "rawname", "rawpart", "part"
NAME = ("list", PART)
NS = "ns"


def coqty(t):
    if isinstance(t, str):
        tab = {"Z": "Z", "bool": "bool", "unit": "unit", RAWNAME: "rawname", RAWPART: "rawpart", PART: "part",
               NS: "(list name)", "obj": "unit", "optsink": "bool"}
        if t in tab:
            return tab[t]
        raise Untranslatable(f"no Coq type for {t}")
    if t == NAME:
        return "name"
    if t[0] in ("list", "set", "gen", "keys", "dict"):
        return f"(list {coqty(t[1])})"
    if t[0] == "opt":
        return f"(option {coqty(t[1])})"
    if t[0] == "pair":
        return f"({coqty(t[1])} * {coqty(t[2])})"
    raise Untranslatable(f"no Coq type for {t}")


class V:
    """typed Coq expression; `pre` = monadic bindings (var, rhs : res _) that must be evaluated first, in order"""
    def __init__(self, s, t, pre=(), origin=None):
        self.s, self.t, self.pre, self.origin = s, t, list(pre), origin


def tup(xs):
    xs = list(xs)
    if not xs:
        return "tt"
    return xs[0] if len(xs) == 1 else "(" + ", ".join(xs) + ")"


def pat(xs):
    xs = list(xs)
    if not xs:
        return "_"
    return xs[0] if len(xs) == 1 else "'(" + ", ".join(xs) + ")"


def is_none(n):
    return isinstance(n, ast.Constant) and n.value is None


def is_doc(st):
    return isinstance(st, ast.Expr) and isinstance(st.value, ast.Constant) and isinstance(st.value.value, str)


JUMPS = (ast.Raise, ast.Return, ast.Break, ast.Continue)


def terminates(stmts):
    if not stmts:
        return False
    st = stmts[-1]
    if isinstance(st, JUMPS):
        return True
    return isinstance(st, ast.If) and terminates(st.body) and terminates(st.orelse)


def escapes(stmts, in_loop=False):
    """can control leave this statement list other than by falling off its end?"""
    for st in stmts:
        if isinstance(st, (ast.Raise, ast.Return)):
            return True
        if isinstance(st, (ast.Break, ast.Continue)) and not in_loop:
            return True
        if isinstance(st, ast.If) and (escapes(st.body, in_loop) or escapes(st.orelse, in_loop)):
            return True
        if isinstance(st, ast.For) and (escapes(st.body, True) or escapes(st.orelse, in_loop)):
            return True
        if isinstance(st, (ast.While, ast.Try, ast.With)):
            return True
    return False


def message_then_raise(stmts):
    """statements that only build the message, then `raise`: no control flow, no store to an attribute or subscript,
    no call on self, nothing that touches a namespace or constructs a Name"""
    def quiet(s):
        return _M2.harmless(s) and not isinstance(s, (ast.For, ast.If, ast.While, ast.Try, ast.With)) and not any(
            isinstance(x, ast.Attribute) and (x.attr in ("_namespace", "_assignments") or ast.unparse(x) == "MemoryMap.Name")
            for x in ast.walk(s))
    return bool(stmts) and isinstance(stmts[-1], ast.Raise) and all(quiet(s) for s in stmts[:-1])


class Opaque(ast.stmt):
    """a run of statements of add_resource / add_window that does not touch the namespace"""
    _fields = ()

    def __init__(self, name, stmts):
        super().__init__()
        self.name, self.stmts = name, stmts


# statements of add_resource / add_window that the model lets raise after the namespace check: each stands alone as a
# named parameter, so that its position relative to the namespace update is part of the generated text
LANDMARKS = {"self._compute_addr_range": "eff_compute_addr_range", "self._ranges.insert": "eff_ranges_insert"}


# ---------------------------------------------------------------------------------------------- contexts

class FnCtx:
    kind = "fn"

    def __init__(self, fall, retval, needs=()):
        self._fall, self.retval, self.needs = fall, retval, set(needs)

    def fall(self, env):
        return self._fall(env)

    def ret(self, v, env):
        return f"(Ok {self.retval(v, env)})"

    def brk(self, env):
        raise Untranslatable("break outside a loop")
    cont = brk


class LoopCtx:
    kind = "loop"

    def __init__(self, carried, outer):
        self.carried, self.outer = carried, outer
        self.needs = set(carried) | outer.needs
        self.retval = outer.retval

    def st(self, env):
        return tup(env[k].s for k in self.carried)

    def fall(self, env):
        return f"(Ok (Next {self.st(env)}))"
    cont = fall

    def brk(self, env):
        return f"(Ok (Brk {self.st(env)}))"

    def ret(self, v, env):
        return f"(Ok (Ret {self.retval(v, env)}))"


class JoinCtx:
    kind = "join"

    def __init__(self, fall, outer):
        self._fall, self.needs, self.retval = fall, set(outer.needs), outer.retval

    def fall(self, env):
        return self._fall(env)

    def ret(self, v, env):
        raise Untranslatable("return inside a joined if-arm")
    brk = cont = ret


# ---------------------------------------------------------------------------------------------- translator

class T:
    def __init__(self, state_key=None, stateful=False):
        self.n = 0
        self.state_key = state_key          # env key of the mutable namespace state, or None
        self.stateful = stateful            # result = (final state, res unit): the state survives an exception
        self.mutated = False                # (not stateful) the state has been changed on this path
        self.consumed = set()

    def fresh(self, base):
        self.n += 1
        base = "".join(c if c.isalnum() or c == "_" else "_" for c in base).strip("_") or "v"
        return f"{base}_{self.n}"

    @staticmethod
    def wrap(pre, body):
        for (v, rhs) in reversed(list(pre)):
            body = f"(let! {v} := {rhs} in\n  {body})"
        return body

    def can_raise(self):
        """`res (state)` stands for "exception => state unchanged": nothing may raise once the state has changed"""
        if self.mutated and not self.stateful:
            raise Untranslatable("a statement that can raise follows a change of the namespace in the same method")

    def swrap(self, pre, body, env):
        """statement-level bindings: an exception propagates with the current state"""
        pre = list(pre)
        if pre:
            self.can_raise()
        if not self.stateful:
            return self.wrap(pre, body)
        st = env[self.state_key].s
        for (v, rhs) in reversed(pre):
            body = f"(bind_st {st} {rhs} (fun {v} =>\n  {body}))"
        return body

    def err(self, exc, env):
        self.can_raise()
        return f"({env[self.state_key].s}, Err {exc})" if self.stateful else f"(Err {exc})"

    def after_mutation(self, rest, env, K):
        old, self.mutated = self.mutated, True
        try:
            return self.block(rest, env, K)
        finally:
            self.mutated = old

    def bindm(self, base, rhs, t, pre=()):
        v = self.fresh(base)
        return V(v, t, list(pre) + [(v, rhs)])

    # ---- coercions
    def as_raw(self, v):
        if v.t == RAWNAME:
            return v.s
        if v.t == NAME:
            return f"(raw_of_name {v.s})"
        raise Untranslatable(f"a name value expected, got {v.t}")

    def as_list(self, v, what="iteration"):
        """the items of an iterable, in order; generators are consumed"""
        if isinstance(v.t, tuple) and v.t[0] in ("list", "keys", "dict"):
            return V(v.s, ("list", v.t[1]), v.pre)
        if isinstance(v.t, tuple) and v.t[0] == "gen":
            if v.origin is not None:
                if v.origin in self.consumed:
                    raise Untranslatable(f"generator {v.origin.split('#')[0]} is consumed twice")
                self.consumed.add(v.origin)
            return V(v.s, ("list", v.t[1]), v.pre)
        if v.t == RAWNAME:
            return self.bindm("items", f"(raw_iter {v.s})", ("list", RAWPART), v.pre)
        if isinstance(v.t, tuple) and v.t[0] == "set":
            raise Untranslatable(f"{what} over a set: the order is unspecified (use sorted)")
        raise Untranslatable(f"{what} over a value of type {v.t}")

    def coerce(self, v, t):
        if v.t == t:
            return v.s
        if isinstance(t, tuple) and t[0] == "opt":
            if v.t == "none":
                return "None"
            if v.t == t[1]:
                return f"(Some {v.s})"
        if isinstance(t, tuple) and t[0] == "gen" and isinstance(v.t, tuple) and v.t[0] in ("list", "keys") and v.t[1] == t[1]:
            return v.s
        raise Untranslatable(f"cannot use a value of type {v.t} where {t} is expected")

    @staticmethod
    def join_types(ts):
        ts = [t for i, t in enumerate(ts) if t not in ts[:i]]
        if len(ts) == 1:
            return ts[0]
        base = [t for t in ts if t != "none" and not (isinstance(t, tuple) and t[0] == "opt")]
        opts = [t[1] for t in ts if isinstance(t, tuple) and t[0] == "opt"]
        if "none" in ts or opts:
            inner = [t for i, t in enumerate(base + opts) if t not in (base + opts)[:i]]
            if len(inner) == 1:
                return ("opt", inner[0])
        seqs = [t for t in ts if isinstance(t, tuple) and t[0] in ("list", "gen", "keys")]
        if len(seqs) == len(ts) and len({t[1] for t in ts}) == 1 and any(t[0] == "gen" for t in ts):
            return ("gen", ts[0][1])
        raise Untranslatable(f"the arms give values of different types: {ts}")

    # ---- expressions
    def expr(self, n, env):
        if isinstance(n, ast.Constant):
            if n.value is True or n.value is False:
                return V("true" if n.value else "false", "bool")
            if n.value is None:
                return V("None", "none")
            if isinstance(n.value, int):
                return V(f"({n.value})", "Z")
            raise Untranslatable(f"constant {n.value!r}")
        if isinstance(n, ast.Name):
            if n.id in env:
                v = env[n.id]
                return V(v.s, v.t, (), v.origin)
            raise Untranslatable(f"unknown name {n.id}")
        if isinstance(n, ast.Attribute):
            try:
                p = attr_path(n)
            except Untranslatable:
                p = None
            if p is not None and p in env:
                v = env[p]
                return V(v.s, v.t, (), v.origin)
            base = self.expr(n.value, env)
            if base.t == NS and n.attr == "_assignments":
                return V(base.s, ("dict", NAME), base.pre)
            raise Untranslatable(f"attribute {ast.unparse(n)}")
        if isinstance(n, (ast.BoolOp, ast.Compare)) or (isinstance(n, ast.UnaryOp) and isinstance(n.op, ast.Not)):
            return self.cond(n, env)
        if isinstance(n, ast.UnaryOp) and isinstance(n.op, ast.USub):
            a = self.expr(n.operand, env)
            if a.t == "Z":
                return V(f"(Z.opp {a.s})", "Z", a.pre)
            raise Untranslatable("unary minus on a non-integer")
        if isinstance(n, ast.BinOp):
            a = self.expr(n.left, env); b = self.expr(n.right, env)
            ints = {ast.Add: "Z.add", ast.Sub: "Z.sub", ast.Mult: "Z.mul", ast.FloorDiv: "Z.div", ast.Mod: "Z.modulo"}
            if a.t == b.t == "Z" and type(n.op) in ints:
                return V(f"({ints[type(n.op)]} {a.s} {b.s})", "Z", a.pre + b.pre)
            if isinstance(n.op, ast.BitOr) and all(isinstance(x.t, tuple) and x.t[0] in ("set", "keys") for x in (a, b)) \
                    and a.t[1] == b.t[1]:
                return V(f"({a.s} ++ {b.s})", ("set", a.t[1]), a.pre + b.pre)
            raise Untranslatable("operator " + ast.unparse(n)[:80])
        if isinstance(n, (ast.Tuple, ast.List)):
            if not n.elts:
                if isinstance(n, ast.List):
                    return V("[]", "emptylist")
                raise Untranslatable("empty tuple")
            vs = [self.expr(e, env) for e in n.elts]
            pre = [p for v in vs for p in v.pre]
            if all(v.t == RAWNAME for v in vs):
                return V("(raw_tuple [" + "; ".join(f"raw_as_part {v.s}" for v in vs) + "])", RAWNAME, pre)
            t = vs[0].t
            if all(v.t == t for v in vs) and t in (NAME, "Z", PART):
                return V("[" + "; ".join(v.s for v in vs) + "]", ("list", t), pre)
            raise Untranslatable("tuple display " + ast.unparse(n)[:80])
        if isinstance(n, ast.Subscript):
            return self.subscript(n, env)
        if isinstance(n, ast.Call):
            return self.call(n, env)
        if isinstance(n, ast.IfExp):
            out = []

            def arm(node):
                def f(e):
                    v = self.expr(node, e)
                    out.append(v)
                    return v
                return f
            # first pass for the types, second for the text
            saved = (self.n, set(self.consumed))
            self.branch(n.test, env, lambda e: (arm(n.body)(e), "")[1], lambda e: (arm(n.orelse)(e), "")[1])
            self.n, self.consumed = saved
            t = self.join_types([v.t for v in out])
            origin = next((v.origin for v in out if v.origin), None)

            def emit(node):
                def f(e):
                    v = self.expr(node, e)
                    return self.wrap(v.pre, f"(Ok {self.coerce(v, t)})")
                return f
            txt = self.branch(n.test, env, emit(n.body), emit(n.orelse))
            r = self.bindm("sel", txt, t)
            r.origin = origin
            return r
        if isinstance(n, (ast.GeneratorExp, ast.ListComp)):
            return self.comprehension(n, env)
        raise Untranslatable("expression " + ast.dump(n)[:100])

    def subscript(self, n, env):
        base = self.expr(n.value, env)
        if isinstance(base.t, tuple) and base.t[0] == "dict":
            k = self.expr(n.slice, env)
            if k.t == base.t[1] == NAME:
                return self.bindm("item", f"(ns_get {base.s} {k.s})", "obj", base.pre + k.pre)
            raise Untranslatable("dict subscript " + ast.unparse(n)[:80])
        if not (isinstance(base.t, tuple) and base.t[0] == "list"):
            raise Untranslatable(f"subscript of a value of type {base.t}: " + ast.unparse(n)[:80])
        if isinstance(n.slice, ast.Slice):
            sl = n.slice
            if sl.step is not None or (sl.lower is None) == (sl.upper is None):
                raise Untranslatable("slice form " + ast.unparse(n)[:80])
            i = self.expr(sl.lower if sl.lower is not None else sl.upper, env)
            if i.t != "Z":
                raise Untranslatable("slice bound is not an integer")
            f = "py_slice_from" if sl.lower is not None else "py_slice_to"
            return V(f"({f} {base.s} {i.s})", base.t, base.pre + i.pre)
        i = self.expr(n.slice, env)
        if i.t != "Z":
            raise Untranslatable("index is not an integer")
        return self.bindm("item", f"(py_index {base.s} {i.s})", base.t[1], base.pre + i.pre)

    def comprehension(self, n, env):
        if len(n.generators) != 1 or n.generators[0].is_async or not isinstance(n.generators[0].target, ast.Name):
            raise Untranslatable("comprehension form")
        g = n.generators[0]
        src = self.as_list(self.expr(g.iter, env))
        x = self.fresh(g.target.id)
        env2 = dict(env); env2[g.target.id] = V(x, src.t[1])
        lst = src.s
        for c in g.ifs:
            cv = self.cond(c, env2)
            if cv.pre:
                raise Untranslatable("a comprehension filter that can raise")
            lst = f"(filter (fun ({x} : {coqty(src.t[1])}) => {cv.s}) {lst})"
        elt = self.expr(n.elt, env2)
        kind = "gen" if isinstance(n, ast.GeneratorExp) else "list"
        fn = f"(fun ({x} : {coqty(src.t[1])}) => "
        if elt.pre:
            return self.bindm("mapped", f"(mapR {fn}{self.wrap(elt.pre, f'(Ok {elt.s})')}) {lst})", (kind, elt.t), src.pre)
        if elt.s == x and not g.ifs:
            return V(lst, (kind, elt.t), src.pre)
        return V(f"(map {fn}{elt.s}) {lst})", (kind, elt.t), src.pre)

    def sort_key_ok(self, k):
        """key=lambda name: tuple(str(part) for part in name)  (list / repr variants accepted)"""
        if not (isinstance(k, ast.Lambda) and len(k.args.args) == 1 and not k.args.vararg and not k.args.kwonlyargs
                and not k.args.kwarg and not k.args.defaults):
            return False
        a = k.args.args[0].arg
        b = k.body
        if isinstance(b, ast.Call) and isinstance(b.func, ast.Name) and b.func.id in ("tuple", "list") and len(b.args) == 1 \
                and not b.keywords:
            b = b.args[0]
        if not isinstance(b, (ast.GeneratorExp, ast.ListComp)) or len(b.generators) != 1:
            return False
        g = b.generators[0]
        if g.ifs or not isinstance(g.target, ast.Name) or not (isinstance(g.iter, ast.Name) and g.iter.id == a):
            return False
        e = b.elt
        return (isinstance(e, ast.Call) and isinstance(e.func, ast.Name) and e.func.id in ("str", "repr")
                and len(e.args) == 1 and not e.keywords and isinstance(e.args[0], ast.Name) and e.args[0].id == g.target.id)

    def receiver(self, node, env):
        """the namespace a method is called on: `self` inside _Namespace, or an ns-valued expression"""
        if isinstance(node, ast.Name) and node.id == "self" and "self" not in env and "self._assignments" in env:
            return V(env["self._assignments"].s, NS), "self._assignments"
        v = self.expr(node, env)
        try:
            key = attr_path(node)
        except Untranslatable:
            key = None
        return v, key

    def avail_args(self, n, env):
        parts, pre = [], []
        for a in n.args:
            if isinstance(a, ast.Starred):
                v = self.as_list(self.expr(a.value, env), "unpacking")
                pre += v.pre
                if v.t[1] == NAME:
                    parts.append(f"(map raw_of_name {v.s})")
                elif v.t[1] == RAWNAME:
                    parts.append(v.s)
                else:
                    raise Untranslatable("is_available(*x): x does not hold names")
            else:
                v = self.expr(a, env)
                pre += v.pre
                parts.append(f"[{self.as_raw(v)}]")
        reasons = "false"
        for k in n.keywords:
            if k.arg != "reasons":
                raise Untranslatable(f"is_available: keyword {k.arg}")
            v = self.expr(k.value, env)
            pre += v.pre
            if v.t in ("emptylist", "sink"):
                reasons = "true"
            elif v.t == "optsink":
                reasons = v.s
            elif v.t == "none":
                reasons = "false"
            else:
                raise Untranslatable("is_available: reasons argument")
        return ("(" + " ++ ".join(parts) + ")") if parts else "[]", reasons, pre

    def call(self, n, env):
        f = n.func
        if isinstance(f, ast.Name):
            name = f.id
            if name == "isinstance":
                return self.cond(n, env)
            if n.keywords and name != "sorted":
                raise Untranslatable("keyword call " + ast.unparse(n)[:80])
            args = n.args
            if any(isinstance(a, ast.Starred) for a in args):
                raise Untranslatable("starred argument in " + ast.unparse(n)[:80])
            if name == "len" and len(args) == 1:
                v = self.expr(args[0], env)
                if isinstance(v.t, tuple) and v.t[0] in ("list", "dict", "keys", "set") and v.t[0] != "set":
                    return V(f"(py_len {v.s})", "Z", v.pre)
                if v.t == RAWNAME:
                    return self.bindm("len", f"(raw_len {v.s})", "Z", v.pre)
                raise Untranslatable(f"len of a value of type {v.t}")
            if name in ("min", "max") and len(args) == 2:
                a, b = self.expr(args[0], env), self.expr(args[1], env)
                if a.t == b.t == "Z":
                    return V(f"(Z.{name} {a.s} {b.s})", "Z", a.pre + b.pre)
                raise Untranslatable(f"{name} of non-integers")
            if name == "enumerate" and len(args) == 1:
                v = self.as_list(self.expr(args[0], env))
                return V(f"(py_enumerate {v.s})", ("list", ("pair", "Z", v.t[1])), v.pre)
            if name in ("tuple", "list") and len(args) == 1:
                v = self.as_list(self.expr(args[0], env), name)
                return v
            if name == "set" and len(args) == 1:
                v = self.as_list(self.expr(args[0], env), "set")
                return V(v.s, ("set", v.t[1]), v.pre)
            if name == "dict" and not args:
                return V("[]", ("dict", NAME))
            if name == "sorted" and len(args) == 1:
                kws = {k.arg: k.value for k in n.keywords}
                if set(kws) != {"key"} or not self.sort_key_ok(kws["key"]):
                    raise Untranslatable("sorted: the key must be `lambda name: tuple(str(part) for part in name)`")
                v = self.expr(args[0], env)
                if isinstance(v.t, tuple) and v.t[0] in ("set", "keys", "list") and v.t[1] == NAME:
                    return V(f"(order {v.s})", ("list", NAME), v.pre)
                raise Untranslatable(f"sorted of a value of type {v.t}")
            raise Untranslatable("call " + ast.unparse(n)[:80])
        if not isinstance(f, ast.Attribute):
            raise Untranslatable("call " + ast.unparse(n)[:80])
        text = ast.unparse(f)
        if text == "MemoryMap.Name" and len(n.args) == 1 and not n.keywords and not isinstance(n.args[0], ast.Starred):
            a = self.expr(n.args[0], env)
            return self.bindm("name", f"(gen_name_new {self.as_raw(a)})", NAME, a.pre)
        if text == "tuple.__new__" and len(n.args) == 2 and not n.keywords and ast.unparse(n.args[0]) == "MemoryMap.Name":
            a = self.expr(n.args[1], env)
            if a.t == NAME:
                return a
            if a.t == RAWNAME:
                return self.bindm("name", f"(cast_name {a.s})", NAME, a.pre)
            raise Untranslatable("tuple.__new__ of a value of type " + str(a.t))
        if f.attr == "keys" and not n.args and not n.keywords:
            d = self.expr(f.value, env)
            if isinstance(d.t, tuple) and d.t[0] == "dict":
                return V(d.s, ("keys", d.t[1]), d.pre)
            raise Untranslatable(".keys() of a non-dict")
        if f.attr == "is_available":
            recv, _ = self.receiver(f.value, env)
            if recv.t != NS:
                raise Untranslatable("is_available on a non-namespace")
            lst, reasons, pre = self.avail_args(n, env)
            return self.bindm("avail", f"(gen_ns_is_available {recv.s} {lst} {reasons})", "bool", recv.pre + pre)
        if f.attr == "names" and not n.args and not n.keywords:
            recv, _ = self.receiver(f.value, env)
            if recv.t != NS:
                raise Untranslatable("names() on a non-namespace")
            return V(f"(gen_ns_names {recv.s})", ("gen", NAME), recv.pre)
        raise Untranslatable("call " + ast.unparse(n)[:80])

    def truth(self, v):
        if v.t == "bool":
            return v
        if v.t == RAWPART:
            return self.bindm("truth", f"(raw_truthy {v.s})", "bool", v.pre)
        if v.t == "Z":
            return V(f"(negb ({v.s} =? 0))", "bool", v.pre)
        if isinstance(v.t, tuple) and v.t[0] in ("list", "dict", "keys"):
            return V(f"(py_nonempty {v.s})", "bool", v.pre)
        if v.t == "none":
            return V("false", "bool", v.pre)
        raise Untranslatable(f"truth value of a value of type {v.t}")

    def as_int(self, v):
        if v.t == "Z":
            return v
        if v.t == RAWPART:
            return self.bindm("int", f"(raw_int {v.s})", "Z", v.pre)
        raise Untranslatable(f"integer expected, got {v.t}")

    def cond(self, n, env):
        if isinstance(n, ast.BoolOp):
            first = self.truth(self.cond(n.values[0], env))
            if len(n.values) == 1:
                return first
            rest = self.cond(ast.BoolOp(op=n.op, values=n.values[1:]), env)
            is_and = isinstance(n.op, ast.And)
            if not rest.pre:
                return V(f"({first.s} {'&&' if is_and else '||'} {rest.s})", "bool", first.pre)
            tail = self.wrap(rest.pre, f"(Ok {rest.s})")
            txt = f"(if {first.s} then {tail} else Ok false)" if is_and else f"(if {first.s} then Ok true else {tail})"
            return self.bindm("cond", txt, "bool", first.pre)
        if isinstance(n, ast.UnaryOp) and isinstance(n.op, ast.Not):
            v = self.truth(self.cond(n.operand, env))
            return V(f"(negb {v.s})", "bool", v.pre)
        if isinstance(n, ast.Compare):
            if len(n.ops) != 1:
                raise Untranslatable("chained comparison")
            op = type(n.ops[0]); l, r = n.left, n.comparators[0]
            if op in (ast.Is, ast.IsNot):
                if not is_none(r):
                    raise Untranslatable("`is` with something else than None")
                v = self.expr(l, env)
                if isinstance(v.t, tuple) and v.t[0] == "opt":
                    s = f"(match {v.s} with None => true | Some _ => false end)"
                elif v.t == "none":
                    s = "true"
                elif v.t == "optsink":
                    s = f"(negb {v.s})"
                else:
                    s = "false"
                return V(s if op is ast.Is else f"(negb {s})", "bool", v.pre)
            a = self.expr(l, env); b = self.expr(r, env)
            if op in (ast.In, ast.NotIn):
                if a.t == NAME and isinstance(b.t, tuple) and b.t[0] in ("dict", "keys", "set", "list") and b.t[1] == NAME:
                    s = f"(ns_has {b.s} {a.s})"
                    return V(s if op is ast.In else f"(negb {s})", "bool", a.pre + b.pre)
                raise Untranslatable("membership test " + ast.unparse(n)[:80])
            if op in (ast.Eq, ast.NotEq) and a.t == b.t and a.t in (PART, NAME):
                s = f"({'part_eqb' if a.t == PART else 'name_eqb'} {a.s} {b.s})"
                return V(s if op is ast.Eq else f"(negb {s})", "bool", a.pre + b.pre)
            if {a.t, b.t} <= {"Z", RAWPART} and not (a.t == b.t == RAWPART):
                a = self.as_int(a); b = self.as_int(b)
                tab = {ast.Eq: "Z.eqb", ast.Lt: "Z.ltb", ast.LtE: "Z.leb", ast.Gt: "Z.gtb", ast.GtE: "Z.geb"}
                if op is ast.NotEq:
                    return V(f"(negb (Z.eqb {a.s} {b.s}))", "bool", a.pre + b.pre)
                if op in tab:
                    return V(f"({tab[op]} {a.s} {b.s})", "bool", a.pre + b.pre)
            raise Untranslatable(f"comparison of {a.t} with {b.t}: " + ast.unparse(n)[:80])
        if isinstance(n, ast.Call) and isinstance(n.func, ast.Name) and n.func.id == "isinstance":
            if len(n.args) != 2 or n.keywords:
                raise Untranslatable("isinstance form")
            v = self.expr(n.args[0], env)
            cls = ast.unparse(n.args[1])
            tab = {(RAWNAME, "str"): "is_nstr", (RAWNAME, "tuple"): "is_ntuple", (RAWPART, "str"): "is_rstr",
                   (RAWPART, "int"): "is_rint", (PART, "str"): "is_pstr", (PART, "int"): "is_pint"}
            if (v.t, cls) in tab:
                return V(f"({tab[(v.t, cls)]} {v.s})", "bool", v.pre)
            const = {(NAME, "tuple"): "true", (NAME, "str"): "false", (NAME, "int"): "false", (NS, "_Namespace"): "true",
                     ("Z", "int"): "true", ("Z", "str"): "false"}
            if (v.t, cls) in const:
                return V(const[(v.t, cls)], "bool", v.pre)
            raise Untranslatable(f"isinstance({v.t}, {cls}) cannot be decided by the representation")
        return self.truth(self.expr(n, env))

    def branch(self, test, env, fthen, felse, stmt=False):
        neg, t = False, test
        while isinstance(t, ast.UnaryOp) and isinstance(t.op, ast.Not):
            neg, t = not neg, t.operand
        if isinstance(t, ast.Compare) and len(t.ops) == 1 and isinstance(t.ops[0], (ast.Is, ast.IsNot)) \
                and is_none(t.comparators[0]) and isinstance(t.left, ast.Name) and t.left.id in env:
            x = t.left.id; v = env[x]
            then_is_none = isinstance(t.ops[0], ast.Is) != neg
            f_none, f_some = (fthen, felse) if then_is_none else (felse, fthen)
            if isinstance(v.t, tuple) and v.t[0] == "opt":
                inner = self.fresh(x)
                e_none = dict(env); e_none[x] = V("None", "none")
                e_some = dict(env); e_some[x] = V(inner, v.t[1], (), v.origin)
                a = f_none(e_none); b = f_some(e_some)
                return f"(match {v.s} with\n  | None => {a}\n  | Some {inner} => {b}\n  end)"
            if v.t == "none":
                return f_none(env)
            if v.t == "optsink":
                e_some = dict(env); e_some[x] = V("tt", "sink")
                e_none = dict(env); e_none[x] = V("None", "none")
                return f"(if {v.s} then {f_some(e_some)} else {f_none(e_none)})"
            return f_some(env)
        c = self.truth(self.cond(test, env))
        txt = f"(if {c.s} then {fthen(env)} else {felse(env)})"
        return self.swrap(c.pre, txt, env) if stmt else self.wrap(c.pre, txt)

    # ---- statements
    def target_key(self, t):
        if isinstance(t, ast.Name):
            return t.id
        if isinstance(t, ast.Attribute):
            return attr_path(t)
        if isinstance(t, ast.Subscript) and isinstance(t.value, ast.Attribute):
            return attr_path(t.value)
        return None

    def assigned(self, body):
        out = []

        def add(k):
            if k and k not in out:
                out.append(k)
        for st in body:
            if isinstance(st, Opaque):
                continue
            for x in ast.walk(st):
                if isinstance(x, ast.Assign):
                    for t in x.targets:
                        add(self.target_key(t))
                elif isinstance(x, (ast.AugAssign, ast.AnnAssign)):
                    add(self.target_key(x.target))
                elif isinstance(x, ast.Expr) and isinstance(x.value, ast.Call) and isinstance(x.value.func, ast.Attribute) \
                        and x.value.func.attr in ("update", "assign", "extend"):
                    try:
                        add(attr_path(x.value.func.value))
                    except Untranslatable:
                        pass
        return out

    @staticmethod
    def reads(stmts):
        out = set()
        for st in stmts:
            if isinstance(st, Opaque):
                continue
            for y in ast.walk(st):
                if isinstance(y, ast.Name):
                    out.add(y.id)
                elif isinstance(y, ast.Attribute):
                    try:
                        out.add(attr_path(y))
                    except Untranslatable:
                        pass
        return out

    def exc(self, st):
        e = st.exc
        if isinstance(e, ast.Call) and isinstance(e.func, ast.Name):
            e = e.func
        if isinstance(e, ast.Name) and e.id in ("ValueError", "TypeError", "KeyError", "AssertionError") and st.cause is None:
            return e.id
        raise Untranslatable("raise " + ast.unparse(st)[:80])

    def effects(self, n, env):
        """bindings needed to evaluate n for its exceptions only (message building)"""
        if isinstance(n, ast.JoinedStr):
            pre = []
            for v in n.values:
                if isinstance(v, ast.FormattedValue):
                    if v.format_spec is not None and not all(isinstance(x, ast.Constant) for x in v.format_spec.values):
                        raise Untranslatable("format spec")
                    pre += self.effects(v.value, env)
            return pre
        if isinstance(n, ast.Constant) and isinstance(n.value, str):
            return []
        return self.expr(n, env).pre

    def set_state(self, env, key, text):
        nm = self.fresh("assigned")
        env2 = dict(env); env2[key] = V(nm, env[key].t if key in env else ("dict", NAME))
        return nm, env2

    def block(self, stmts, env, K):
        if not stmts:
            return K.fall(env)
        st, rest = stmts[0], stmts[1:]
        if is_doc(st) or isinstance(st, ast.Pass):
            return self.block(rest, env, K)
        if message_then_raise(stmts):
            return self.err(self.exc(stmts[-1]), env)
        if isinstance(st, Opaque):
            return self.swrap([("_", st.name)], self.block(rest, env, K), env)
        if isinstance(st, ast.Raise):
            return self.err(self.exc(st), env)
        if isinstance(st, ast.Break):
            return K.brk(env)
        if isinstance(st, ast.Continue):
            return K.cont(env)
        if isinstance(st, ast.Return):
            v = self.expr(st.value, env) if st.value is not None else None
            return self.swrap(v.pre if v else [], K.ret(v, env), env)
        if isinstance(st, ast.Delete):
            env2 = dict(env)
            for t in st.targets:
                if not isinstance(t, ast.Name) or t.id not in env2:
                    raise Untranslatable("del " + ast.unparse(t))
                del env2[t.id]
            return self.block(rest, env2, K)
        if isinstance(st, ast.Assert):
            c = self.truth(self.cond(st.test, env))
            return self.swrap(c.pre, f"(if negb {c.s} then {self.err('AssertionError', env)} else\n  {self.block(rest, env, K)})", env)
        if isinstance(st, ast.Assign) and len(st.targets) == 1:
            t = st.targets[0]
            if isinstance(t, ast.Name):
                v = self.expr(st.value, env)
                nm = self.fresh(t.id)
                env2 = dict(env)
                origin = f"{t.id}#{self.n}" if isinstance(v.t, tuple) and v.t[0] == "gen" else None
                env2[t.id] = V(nm, v.t, (), origin)
                if v.t == "emptylist":
                    env2[t.id] = V("tt", "sink")
                    return self.swrap(v.pre, self.block(rest, env2, K), env)
                if v.t == "none":
                    env2[t.id] = V("None", "none")
                    return self.swrap(v.pre, self.block(rest, env2, K), env)
                return self.swrap(v.pre, f"(let {nm} := {v.s} in\n  {self.block(rest, env2, K)})", env)
            key = self.target_key(t)
            if key is not None and key == self.state_key and isinstance(t, ast.Attribute):
                v = self.expr(st.value, env)
                if not (isinstance(v.t, tuple) and v.t[0] == "dict" and v.t[1] == NAME):
                    raise Untranslatable(f"{key} = a value of type {v.t}")
                nm, env2 = self.set_state(env, key, v.s)
                return self.swrap(v.pre, f"(let {nm} := {v.s} in\n  {self.after_mutation(rest, env2, K)})", env)
            if key is not None and key == self.state_key and isinstance(t, ast.Subscript) and key in env \
                    and env[key].t == ("dict", NAME):
                k = self.expr(t.slice, env)
                if k.t != NAME or not isinstance(st.value, ast.Name):
                    raise Untranslatable("dict store " + ast.unparse(st)[:80])
                nm, env2 = self.set_state(env, key, None)
                return self.swrap(k.pre, f"(let {nm} := ns_set {env[key].s} {k.s} in\n  {self.after_mutation(rest, env2, K)})", env)
            raise Untranslatable("assignment " + ast.unparse(st)[:80])
        if isinstance(st, ast.Expr) and isinstance(st.value, ast.Call) and isinstance(st.value.func, ast.Attribute):
            c = st.value; f = c.func
            if f.attr == "append" and isinstance(f.value, ast.Name) and f.value.id in env and env[f.value.id].t == "sink" \
                    and len(c.args) == 1 and not c.keywords:
                return self.swrap(self.effects(c.args[0], env), self.block(rest, env, K), env)
            try:
                key = attr_path(f.value)
            except Untranslatable:
                key = None
            if key is not None and key == self.state_key and key in env and not c.keywords \
                    and not any(isinstance(a, ast.Starred) for a in c.args):
                cur = env[key]
                if f.attr == "update" and cur.t == ("dict", NAME) and len(c.args) == 1:
                    o = self.expr(c.args[0], env)
                    if o.t != ("dict", NAME):
                        raise Untranslatable("update with a non-dict")
                    nm, env2 = self.set_state(env, key, None)
                    return self.swrap(o.pre, f"(let {nm} := ns_update {cur.s} {o.s} in\n  {self.after_mutation(rest, env2, K)})", env)
                if f.attr == "assign" and cur.t == NS and len(c.args) == 2 and isinstance(c.args[1], ast.Name):
                    a = self.expr(c.args[0], env)
                    nm, env2 = self.set_state(env, key, None)
                    return self.swrap(a.pre + [(nm, f"(gen_ns_assign {cur.s} {self.as_raw(a)})")], self.after_mutation(rest, env2, K), env)
                if f.attr == "extend" and cur.t == NS and len(c.args) == 1:
                    o = self.expr(c.args[0], env)
                    if o.t != NS:
                        raise Untranslatable("extend with a non-namespace")
                    nm, env2 = self.set_state(env, key, None)
                    return self.swrap(o.pre + [(nm, f"(gen_ns_extend {cur.s} {o.s})")], self.after_mutation(rest, env2, K), env)
            raise Untranslatable("statement " + ast.unparse(st)[:80])
        if isinstance(st, ast.If):
            if terminates(st.body) and not st.orelse:
                return self.branch(st.test, env, lambda e: self.block(st.body, e, K), lambda e: self.block(rest, e, K), True)
            if not escapes(st.body) and not escapes(st.orelse) and not self.stateful:
                return self.if_join(st, rest, env, K)
            return self.branch(st.test, env, lambda e: self.block(st.body + rest, e, K),
                               lambda e: self.block(st.orelse + rest, e, K), True)
        if isinstance(st, ast.For):
            if self.stateful:
                raise Untranslatable("a loop among the namespace statements of a MemoryMap method")
            return self.for_loop(st, rest, env, K)
        raise Untranslatable("statement " + ast.unparse(st)[:80])

    def if_join(self, st, rest, env, K):
        names = self.assigned(st.body) + [x for x in self.assigned(st.orelse) if x not in self.assigned(st.body)]
        live = self.reads(rest) | K.needs
        names = [x for x in names if x in live]
        envs = []
        saved = (self.n, set(self.consumed))
        J = JoinCtx(lambda e: (envs.append(e), "(Ok tt)")[1], K)
        self.branch(st.test, env, lambda e: self.block(st.body, e, J), lambda e: self.block(st.orelse, e, J))
        self.n, self.consumed = saved
        types = {}
        for x in names:
            if not all(x in e for e in envs):
                raise Untranslatable(f"{x} is undefined on one path")
            types[x] = self.join_types([e[x].t for e in envs])
        J2 = JoinCtx(lambda e: "(Ok " + tup(self.coerce(e[x], types[x]) for x in names) + ")", K)
        txt = self.branch(st.test, env, lambda e: self.block(st.body, e, J2), lambda e: self.block(st.orelse, e, J2))
        self.can_raise()
        env2 = dict(env); fr = []
        for x in names:
            nm = self.fresh(x)
            origin = f"{x}#{self.n}" if isinstance(types[x], tuple) and types[x][0] == "gen" else None
            env2[x] = V(nm, types[x], (), origin); fr.append(nm)
        tail = self.after_mutation(rest, env2, K) if self.state_key in names else self.block(rest, env2, K)
        return f"(let! {pat(fr)} := {txt} in\n  {tail})"

    def for_loop(self, st, rest, env, K):
        if st.orelse:
            raise Untranslatable("for / else")
        it = self.as_list(self.expr(st.iter, env))
        et = it.t[1]
        carried = [k for k in self.assigned(st.body) if k in env]
        item = self.fresh("item"); sv = self.fresh("st")
        envb = dict(env)
        head = ""
        tg = st.target
        if isinstance(tg, ast.Name):
            names = [(tg.id, et)]
        elif isinstance(tg, ast.Tuple) and isinstance(et, tuple) and et[0] == "pair" and len(tg.elts) == 2 \
                and all(isinstance(e, ast.Name) for e in tg.elts):
            names = [(tg.elts[0].id, et[1]), (tg.elts[1].id, et[2])]
        else:
            raise Untranslatable("loop target " + ast.unparse(tg))
        vs = []
        for (x, t) in names:
            if x in env:
                raise Untranslatable(f"loop variable {x} shadows an existing variable")
            nm = self.fresh(x); envb[x] = V(nm, t); vs.append(nm)
        head += f"let {pat(vs)} := {item} in\n  "
        cs = []
        for k in carried:
            nm = self.fresh(k); envb[k] = V(nm, env[k].t); cs.append(nm)
        st_ty = "unit" if not carried else " * ".join(coqty(env[k].t) for k in carried)
        if carried:
            head += f"let {pat(cs)} := {sv} in\n  "
        blk = self.after_mutation if self.state_key in carried else self.block
        body = blk(st.body, envb, LoopCtx(carried, K))
        sv2 = self.fresh("st"); enva = dict(env); cs2 = []
        for k in carried:
            nm = self.fresh(k); enva[k] = V(nm, env[k].t); cs2.append(nm)
        tail = (f"let {pat(cs2)} := {sv2} in\n  " if carried else "") + blk(rest, enva, K)
        comb = "after_loop_in" if K.kind == "loop" else "after_loop"
        txt = (f"({comb} (for_each (fun ({item} : {coqty(et)}) ({sv} : {st_ty}) =>\n  {head}{body})\n"
               f"  {it.s} {tup(env[k].s for k in carried)})\n  (fun ({sv2} : {st_ty}) =>\n  {tail}))")
        return self.swrap(it.pre, txt, env)


# ---------------------------------------------------------------------------------------------- functions

def no_ret(v, env):
    raise Untranslatable("return with a value is not expected here")


def fell(env):
    raise Untranslatable("the function can fall off its end (returns None)")


def check_args(fn, pos, vararg=None, kwonly=(), defaults_none=()):
    a = fn.args
    got = [x.arg for x in a.posonlyargs + a.args]
    if got != pos or (a.vararg.arg if a.vararg else None) != vararg or [x.arg for x in a.kwonlyargs] != list(kwonly) \
            or a.kwarg is not None or a.defaults:
        raise Untranslatable(f"{fn.name}: signature changed: {ast.unparse(a)}")
    for x, d in zip(a.kwonlyargs, a.kw_defaults):
        if (x.arg in defaults_none) != (d is not None and is_none(d)) or (d is not None and not is_none(d)):
            raise Untranslatable(f"{fn.name}: default of {x.arg} changed")
    if fn.decorator_list:
        raise Untranslatable(f"{fn.name}: decorated")


def gen_name_new(tree):
    fn = find_func(tree, ["MemoryMap", "Name", "__new__"])
    check_args(fn, ["cls", "name"])
    t = T()
    env = {"name": V("name_0", RAWNAME)}

    def retval(v, e):
        if v is None or v.t != NAME:
            raise Untranslatable("__new__ must return the new Name")
        return v.s
    body = t.block(fn.body, env, FnCtx(fell, retval))
    return ("(* MemoryMap.Name.__new__ *)\n"
            f"Definition gen_name_new (name_0 : rawname) : res name :=\n  {body}.\n")


def gen_ns(tree):
    out = []
    # __init__
    fn = find_func(tree, ["_Namespace", "__init__"])
    check_args(fn, ["self"])
    t = T("self._assignments")
    body = t.block(fn.body, {}, FnCtx(lambda e: f"(Ok {e['self._assignments'].s})" if "self._assignments" in e else fell(e), no_ret))
    out.append(f"(* _Namespace.__init__: the keys of self._assignments *)\nDefinition gen_ns_init : res (list name) :=\n  {body}.\n")
    # names (generator function)
    fn = find_func(tree, ["_Namespace", "names"])
    check_args(fn, ["self"])
    t = T()
    env = {"self._assignments": V("assigned", ("dict", NAME))}
    parts, pre = [], []
    for st in fn.body:
        if is_doc(st):
            continue
        if isinstance(st, ast.Expr) and isinstance(st.value, ast.YieldFrom):
            v = t.as_list(t.expr(st.value.value, env), "yield from")
            if v.t[1] != NAME:
                raise Untranslatable("names() yields something else than names")
            parts.append(v.s); pre += v.pre
        elif isinstance(st, ast.Expr) and isinstance(st.value, ast.Yield) and st.value.value is not None:
            v = t.expr(st.value.value, env)
            if v.t != NAME:
                raise Untranslatable("names() yields something else than names")
            parts.append(f"[{v.s}]"); pre += v.pre
        else:
            raise Untranslatable("names(): statement " + ast.unparse(st)[:80])
    if pre or not parts:
        raise Untranslatable("names(): body")
    out.append("(* _Namespace.names: what the generator yields *)\n"
               f"Definition gen_ns_names (assigned : list name) : list name :=\n  {' ++ '.join(parts)}.\n")
    # is_available
    fn = find_func(tree, ["_Namespace", "is_available"])
    check_args(fn, ["self"], vararg="names", kwonly=["reasons"], defaults_none=["reasons"])
    t = T()
    env = {"self._assignments": V("assigned", ("dict", NAME)), "names": V("names", ("list", RAWNAME)),
           "reasons": V("reasons", "optsink")}

    def retb(v, e):
        if v is None or v.t != "bool":
            raise Untranslatable("is_available must return a bool")
        return v.s
    body = t.block(fn.body, env, FnCtx(fell, retb))
    out.append("(* _Namespace.is_available( *names, reasons=...): the parameter reasons is `reasons is not None` *)\n"
               "Definition gen_ns_is_available (assigned : list name) (names : list rawname) (reasons : bool) : res bool :=\n"
               f"  {body}.\n")
    # assign
    fn = find_func(tree, ["_Namespace", "assign"])
    check_args(fn, ["self", "name", "obj"])
    t = T("self._assignments")
    env = {"self._assignments": V("assigned", ("dict", NAME)), "name": V("name_0", RAWNAME), "obj": V("tt", "obj")}
    K = FnCtx(lambda e: f"(Ok {e['self._assignments'].s})", no_ret, needs=["self._assignments"])
    out.append("(* _Namespace.assign(name, obj): the new keys *)\n"
               f"Definition gen_ns_assign (assigned : list name) (name_0 : rawname) : res (list name) :=\n  {t.block(fn.body, env, K)}.\n")
    # extend
    fn = find_func(tree, ["_Namespace", "extend"])
    check_args(fn, ["self", "other"])
    t = T("self._assignments")
    env = {"self._assignments": V("assigned", ("dict", NAME)), "other": V("other", NS)}
    out.append("(* _Namespace.extend(other): the new keys *)\n"
               f"Definition gen_ns_extend (assigned other : list name) : res (list name) :=\n  {t.block(fn.body, env, K)}.\n")
    return "\n".join(out)


def mentions(node, attr):
    return any(isinstance(x, ast.Attribute) and x.attr == attr for x in ast.walk(node))


def split_tracked(fn, consts):
    """top-level statements of a MemoryMap method -> list of tracked statements and Opaque runs"""
    body = [s for s in fn.body if not is_doc(s)]

    def seed(s):
        return mentions(s, "_namespace") or any(isinstance(x, ast.Attribute) and ast.unparse(x) == "MemoryMap.Name"
                                                for x in ast.walk(s))

    def names(s, ctxs):
        return {x.id for x in ast.walk(s) if isinstance(x, ast.Name) and isinstance(x.ctx, ctxs)}
    tracked = [seed(s) for s in body]
    tv = set()
    changed = True
    while changed:
        changed = False
        for i, s in enumerate(body):
            if tracked[i]:
                new = (names(s, (ast.Load, ast.Store, ast.Del)) - consts) - tv
                if new:
                    tv |= new; changed = True
            elif names(s, (ast.Store, ast.Del)) & tv:
                tracked[i] = True; changed = True
    out, run = [], []
    k = 0
    seen = set()
    for i, s in enumerate(body):
        marks = {LANDMARKS[ast.unparse(x.func)] for x in ast.walk(s)
                 if isinstance(x, ast.Call) and ast.unparse(x.func) in LANDMARKS}
        if marks & seen or len(marks) > 1:
            raise Untranslatable(f"{fn.name}: {sorted(marks)} called more than once")
        seen |= marks
        if tracked[i]:
            if marks:
                raise Untranslatable(f"{fn.name}: {sorted(marks)} inside a namespace statement")
            if run:
                k += 1; out.append(Opaque(f"blk_{k}", run)); run = []
            out.append(s)
        else:
            if mentions(s, "_assignments"):
                raise Untranslatable(f"{fn.name}: a statement outside the namespace code mentions _assignments")
            for x in ast.walk(s):
                if isinstance(x, (ast.Return, ast.Yield, ast.YieldFrom)) and not (x is s and i == len(body) - 1):
                    raise Untranslatable(f"{fn.name}: return in the middle of the statements that do not touch the namespace")
                if isinstance(x, (ast.Global, ast.Nonlocal)):
                    raise Untranslatable(f"{fn.name}: global / nonlocal")
            if marks:
                if run:
                    k += 1; out.append(Opaque(f"blk_{k}", run)); run = []
                out.append(Opaque(marks.pop(), [s]))
            else:
                run.append(s)
    if run:
        k += 1; out.append(Opaque(f"blk_{k}", run))
    return out, [o.name for o in out if isinstance(o, Opaque)]


def gen_mm(tree):
    out = []
    mm = find_func(tree, ["MemoryMap"])
    init = find_func(tree, ["MemoryMap", "__init__"])
    if sum(1 for s in init.body if ast.unparse(s) == "self._namespace = _Namespace()") != 1 \
            or sum(1 for s in ast.walk(init) if isinstance(s, ast.Attribute) and s.attr == "_namespace") != 1:
        raise Untranslatable("MemoryMap.__init__ does not create its namespace by `self._namespace = _Namespace()` (once)")
    for ch in mm.body:
        if isinstance(ch, (ast.FunctionDef, ast.AsyncFunctionDef, ast.ClassDef)) and mentions(ch, "_namespace") \
                and ch.name not in ("__init__", "add_resource", "add_window", "__repr__"):
            raise Untranslatable(f"MemoryMap.{ch.name} touches the namespace")
        if not isinstance(ch, (ast.FunctionDef, ast.AsyncFunctionDef, ast.ClassDef)) and mentions(ch, "_namespace"):
            raise Untranslatable("class-level statement of MemoryMap touches the namespace")
    ns = find_func(tree, ["_Namespace"])
    for top in tree.body:
        if top is ns:
            for ch in ns.body:
                if mentions(ch, "_assignments") and not (isinstance(ch, ast.FunctionDef) and ch.name in
                                                         ("__init__", "is_available", "assign", "extend", "names", "__repr__")):
                    raise Untranslatable("_Namespace: another member touches _assignments")
        elif mentions(top, "_assignments"):
            raise Untranslatable("_assignments is used outside _Namespace")
    specs = [("add_resource", ["self", "resource"], ["name", "size", "addr", "alignment"],
              {"name": V("name_0", RAWNAME)}, "(name_0 : rawname)"),
             ("add_window", ["self", "window"], ["name", "addr", "sparse"],
              {"name": V("name_0", ("opt", RAWNAME)), "window._namespace": V("window_assigned", NS)},
              "(window_assigned : list name) (name_0 : option rawname)")]
    for (meth, pos, kwonly, env0, params) in specs:
        fn = find_func(tree, ["MemoryMap", meth])
        a = fn.args
        if [x.arg for x in a.posonlyargs + a.args] != pos or a.vararg or a.kwarg or [x.arg for x in a.kwonlyargs] != kwonly \
                or fn.decorator_list:
            raise Untranslatable(f"{meth}: signature changed")
        consts = {"self", "MemoryMap", "_Namespace"} | {p for p in pos + kwonly if p != "name"}
        stores = {x.id for x in ast.walk(fn) if isinstance(x, ast.Name) and isinstance(x.ctx, (ast.Store, ast.Del))}
        consts -= stores
        stmts, nblk = split_tracked(fn, consts)
        t = T("self._namespace", stateful=True)
        env = dict(env0); env["self._namespace"] = V("assigned", NS)
        for p in pos[1:]:
            env.setdefault(p, V("tt", "obj"))
        K = FnCtx(lambda e: f"({e['self._namespace'].s}, Ok tt)", no_ret, needs=["self._namespace"])
        body = t.block(stmts, env, K)
        blks = " ".join(nblk)
        descr = []
        for s in stmts:
            if isinstance(s, Opaque):
                descr.append(f"   {s.name}: " + " | ".join(ast.unparse(x).split("\n")[0][:60] for x in s.stmts).replace("*)", "* )").replace("(*", "( *"))
        out.append(f"(* MemoryMap.{meth}: the statements that touch the namespace; result = (self._namespace when the call ends,\n"
                   "   normally or by an exception; outcome).\n"
                   + "\n".join(descr) + " *)\n"
                   f"Definition gen_{meth}_ns (assigned : list name) {params}" + (f" ({blks} : res unit)" if nblk else "")
                   + f" : list name * res unit :=\n  {body}.\n")
    return "\n".join(out)


def generate(repo):
    src = open(os.path.join(repo, "amaranth_soc/memory.py")).read()
    tree = ast.parse(src)
    out = ["(* GENERATED on every run by harness/translate4.py from /repo's current source. Do not edit. *)",
           "From Coq Require Import ZArith List Bool.",
           "From Soc Require Import Lib.Res Lib.PyLoop Lib.PyNames Model.MemoryMap.",
           "Import ListNotations.", "Open Scope Z_scope.", "",
           gen_name_new(tree),
           "Section Namespace.",
           "(* sorted(<set>, key=...): some list with the same elements *)",
           "Variable order : list name -> list name.", "",
           gen_ns(tree), gen_mm(tree), "End Namespace."]
    return "\n".join(out) + "\n"


# what runner.check_kernels runs for a property whose propdef sets the flag
STAGES = [("namespace", "NamespaceGen.v", generate, "TieNamespace.v")]

if __name__ == "__main__":
    import sys
    print(generate(sys.argv[1] if len(sys.argv) > 1 else "/repo"))
