"""Source normalisation used as a SECOND reading when a translator refuses the text as written.

A translator stage (harness/translate*.py) is fail-closed: a statement form outside its fragment aborts it.  Three
families of harmless refactorings account for most such aborts without touching behaviour: a local alias for a
repeated attribute access, a private helper extracted from a method, and an `if ...: continue` guard in place of a
filter.  When (and only when) a stage raises Untranslatable on the source as written, runner.check_kernels calls it
again on the source with such rewritings undone, for the sets of rewritings listed in READINGS below, stopping at
the first set on which the stage translates AND its
tie lemmas close, exactly as they must for the text as written.  The unchanged tree never takes this path.

The rewritings (each one is an equivalence of Python programs under the stated side conditions, which are checked
syntactically; anything that does not meet them is left alone):

 A. inlining of private module-level helpers.  `def _h(p1, .., pn): [docstring] <body>` with plain positional
    parameters, no decorators, no nested def/lambda/yield, whose body either is statements without any `return`
    (a validation helper: `if ..: raise ..`) or ends in `return e`, possibly preceded by guards `if c: return e'`
    (an expression helper; guards become a conditional expression).  A call whose actual arguments are names,
    attribute chains or constants is replaced by the body with parameters substituted; locals of a statement helper
    are renamed apart.  A statement helper is inlined only where the call is an expression statement.
 B. propagation of single-assignment aliases.  `x = e` at block level where e is a name, an attribute chain on a
    name, `id(name)` or `len(name-or-chain)`, x is assigned nowhere else in the function, and no name occurring in e
    is assigned (or is a loop target / with target / augmented) in the rest of that block: later occurrences of x in
    the block are replaced by e and the assignment is dropped.  (Attribute reads are pure for the classes these
    translators read; that is already part of their stated reading.)
 C. `if c: continue` as a statement of a `for` body is replaced by wrapping the statements after it in `if not c:`.
 D. private module-level constants.  `_NAME = <literal>` (number, string, bool, None, or a tuple of such) bound exactly
    once at module level and never stored to elsewhere: its uses inside functions (parameter defaults included) are
    replaced by the literal.
 E. `x = a if c else b` as a statement is replaced by `if c: x = a` / `else: x = b`.
 H. a keywords-only `dict(k=v, ...)` becomes the literal `{"k": v, ...}`;  G (only with H). `{}` becomes `dict()`.
 I. two consecutive `if`s without `else`, with textually identical bodies ending in raise / return / continue /
    break, become one `if a or b`.
 F. named intermediates.  `x = e` where e is built from names, attribute chains, constants, arithmetic, comparisons,
    subscripts, conditional expressions and calls of max / min / len / int / bool / abs / exact_log2 / ceil_log2 /
    isinstance only, x is stored nowhere else, is loaded exactly once in the whole function, and that load is in the
    statement immediately following (not under a lambda, comprehension or loop header): e is put in its place.
    (Evaluation moves past the sub-expressions of the next statement that precede the use; for expressions of this
    shape that can only change which of two exceptions is reported when both would be raised.)
"""
import ast, copy

_REAL_PARSE = ast.parse


class _Subst(ast.NodeTransformer):
    def __init__(self, mapping):
        self.mapping = mapping

    def visit_Name(self, n):
        if isinstance(n.ctx, ast.Load) and n.id in self.mapping:
            return copy.deepcopy(self.mapping[n.id])
        return n


def _simple(e):
    if isinstance(e, (ast.Name, ast.Constant)):
        return True
    if isinstance(e, ast.Attribute):
        return _simple(e.value)
    return False


def _names_stored(nodes):
    out = set()
    for root in nodes:
        for n in ast.walk(root):
            if isinstance(n, ast.Name) and isinstance(n.ctx, (ast.Store, ast.Del)):
                out.add(n.id)
            elif isinstance(n, (ast.FunctionDef, ast.ClassDef)):
                out.add(n.name)
    return out


def _names_loaded(e):
    return {n.id for n in ast.walk(e) if isinstance(n, ast.Name)}


def _strip_doc(body):
    if body and isinstance(body[0], ast.Expr) and isinstance(body[0].value, ast.Constant) and isinstance(body[0].value.value, str):
        return body[1:]
    return body


# ------------------------------------------------------------------ A. helpers

def _helpers(tree):
    """name -> ('expr', params, expression) | ('stmt', params, body)"""
    out = {}
    for st in tree.body:
        if not (isinstance(st, ast.FunctionDef) and st.name.startswith("_") and not st.decorator_list):
            continue
        a = st.args
        if a.vararg or a.kwarg or a.kwonlyargs or a.posonlyargs or a.defaults or a.kw_defaults:
            continue
        params = [p.arg for p in a.args]
        body = _strip_doc(st.body)
        if not body:
            continue
        if any(isinstance(n, (ast.FunctionDef, ast.Lambda, ast.Yield, ast.YieldFrom, ast.Global, ast.Nonlocal, ast.While,
                              ast.Try, ast.With)) for b in body for n in ast.walk(b)):
            continue
        if any(isinstance(n, ast.Name) and isinstance(n.ctx, ast.Store) and n.id in params for b in body for n in ast.walk(b)):
            continue
        rets = [n for b in body for n in ast.walk(b) if isinstance(n, ast.Return)]
        if not rets:
            out[st.name] = ("stmt", params, body)
            continue
        # guards `if c: return e` (no else) then a final `return e`
        ok = isinstance(body[-1], ast.Return) and body[-1].value is not None
        for b in body[:-1]:
            ok = ok and isinstance(b, ast.If) and not b.orelse and len(b.body) == 1 \
                and isinstance(b.body[0], ast.Return) and b.body[0].value is not None
        if not ok:
            continue
        e = body[-1].value
        for b in reversed(body[:-1]):
            e = ast.IfExp(test=b.test, body=b.body[0].value, orelse=e)
        out[st.name] = ("expr", params, e)
    return out


def _bind(params, call):
    if len(call.args) > len(params) or any(isinstance(x, ast.Starred) for x in call.args):
        return None
    m = dict(zip(params, call.args))
    for kw in call.keywords:
        if kw.arg is None or kw.arg not in params or kw.arg in m:
            return None
        m[kw.arg] = kw.value
    if set(m) != set(params) or not all(_simple(v) for v in m.values()):
        return None
    return m


class _InlineExpr(ast.NodeTransformer):
    def __init__(self, helpers):
        self.helpers = helpers
        self.used = False

    def visit_Call(self, n):
        self.generic_visit(n)
        if isinstance(n.func, ast.Name) and n.func.id in self.helpers and self.helpers[n.func.id][0] == "expr":
            _, params, e = self.helpers[n.func.id]
            m = _bind(params, n)
            if m is not None:
                self.used = True
                return _Subst(m).visit(copy.deepcopy(e))
        return n


def _inline_stmt_helpers(block, helpers, counter):
    out = []
    for st in block:
        for f in ("body", "orelse", "finalbody"):
            if hasattr(st, f) and isinstance(getattr(st, f), list) and not isinstance(st, (ast.FunctionDef, ast.ClassDef)):
                setattr(st, f, _inline_stmt_helpers(getattr(st, f), helpers, counter))
        if isinstance(st, (ast.FunctionDef, ast.ClassDef)):
            st.body = _inline_stmt_helpers(st.body, helpers, counter)
        if isinstance(st, ast.Expr) and isinstance(st.value, ast.Call) and isinstance(st.value.func, ast.Name) \
                and st.value.func.id in helpers and helpers[st.value.func.id][0] == "stmt":
            _, params, body = helpers[st.value.func.id]
            m = _bind(params, st.value)
            if m is not None:
                counter[0] += 1
                body = copy.deepcopy(body)
                loc = _names_stored(body)
                ren = {x: ast.Name(id=f"{x}__h{counter[0]}", ctx=ast.Load()) for x in loc}
                for b in body:
                    for n in ast.walk(b):
                        if isinstance(n, ast.Name) and n.id in loc and isinstance(n.ctx, ast.Store):
                            n.id = f"{n.id}__h{counter[0]}"
                mm = dict(m); mm.update(ren)
                out.extend(_Subst(mm).visit(b) for b in body)
                continue
        out.append(st)
    return out


# ------------------------------------------------------------------ B. aliases

def _alias_value(e):
    if isinstance(e, ast.Name):
        return True
    if isinstance(e, ast.Attribute):
        return _simple(e) and not isinstance(e.value, ast.Constant)
    if isinstance(e, ast.Call) and isinstance(e.func, ast.Name) and e.func.id in ("id", "len") and len(e.args) == 1 \
            and not e.keywords and _simple(e.args[0]) and not isinstance(e.args[0], ast.Constant):
        return True
    return False


def _propagate_aliases(fn):
    stored_count = {}
    for n in ast.walk(fn):
        if isinstance(n, ast.Name) and isinstance(n.ctx, (ast.Store, ast.Del)):
            stored_count[n.id] = stored_count.get(n.id, 0) + 1
    params = {a.arg for a in fn.args.args + fn.args.kwonlyargs + fn.args.posonlyargs}

    def loads(nodes, x):
        return sum(1 for r in nodes for n in ast.walk(r) if isinstance(n, ast.Name) and n.id == x and isinstance(n.ctx, ast.Load))
    total_loads = {}

    def block(stmts):
        out = []
        i = 0
        stmts = list(stmts)
        while i < len(stmts):
            st = stmts[i]
            if isinstance(st, ast.Assign) and len(st.targets) == 1 and isinstance(st.targets[0], ast.Name) \
                    and _alias_value(st.value):
                x = st.targets[0].id
                rest = stmts[i + 1:]
                if stored_count.get(x, 0) == 1 and x not in params and not (_names_loaded(st.value) & _names_stored(rest)) \
                        and x not in _names_loaded(st.value) \
                        and loads(rest, x) == total_loads.setdefault(x, loads([fn], x)) \
                        and not any(isinstance(n, (ast.FunctionDef, ast.Lambda)) for r in rest for n in ast.walk(r)):
                    sub = _Subst({x: st.value})
                    stmts = stmts[:i + 1] + [sub.visit(r) for r in rest]
                    i += 1
                    continue            # the assignment itself is dropped
            for f in ("body", "orelse", "finalbody"):
                if hasattr(st, f) and isinstance(getattr(st, f), list) and not isinstance(st, (ast.FunctionDef, ast.ClassDef)):
                    if getattr(st, f):
                        setattr(st, f, block(getattr(st, f)) or [ast.Pass()])
            if isinstance(st, ast.Try):
                for h in st.handlers:
                    h.body = block(h.body) or [ast.Pass()]
            out.append(st)
            i += 1
        return out
    fn.body = block(fn.body) or [ast.Pass()]


# ------------------------------------------------------------------ C. continue guards

def _continue_guards(stmts, in_for):
    out = []
    stmts = list(stmts)
    for i, st in enumerate(stmts):
        if in_for and isinstance(st, ast.If) and not st.orelse and len(st.body) == 1 and isinstance(st.body[0], ast.Continue):
            rest = _continue_guards(stmts[i + 1:], in_for)
            if rest:
                out.append(ast.If(test=ast.UnaryOp(op=ast.Not(), operand=st.test), body=rest, orelse=[]))
            return out
        if isinstance(st, ast.For):
            st.body = _continue_guards(st.body, True) or [ast.Pass()]
        elif isinstance(st, (ast.If, ast.With, ast.Try)):
            for f in ("body", "orelse", "finalbody"):
                if hasattr(st, f) and isinstance(getattr(st, f), list):
                    setattr(st, f, _continue_guards(getattr(st, f), in_for))
            if isinstance(st, ast.If) and not st.body:
                st.body = [ast.Pass()]
        elif isinstance(st, (ast.FunctionDef, ast.ClassDef)):
            st.body = _continue_guards(st.body, False) or [ast.Pass()]
        out.append(st)
    return out


# ------------------------------------------------------------------ D. module constants

def _literal(e):
    if isinstance(e, ast.Constant):
        return True
    if isinstance(e, ast.UnaryOp) and isinstance(e.op, ast.USub) and isinstance(e.operand, ast.Constant):
        return True
    if isinstance(e, ast.Tuple):
        return all(_literal(x) for x in e.elts)
    return False


def _module_constants(tree):
    consts = {}
    for st in tree.body:
        if isinstance(st, ast.Assign) and len(st.targets) == 1 and isinstance(st.targets[0], ast.Name) \
                and st.targets[0].id.startswith("_") and not st.targets[0].id.startswith("__") and _literal(st.value):
            consts[st.targets[0].id] = st.value
    stored = {}
    for n in ast.walk(tree):
        if isinstance(n, ast.Name) and isinstance(n.ctx, (ast.Store, ast.Del)):
            stored[n.id] = stored.get(n.id, 0) + 1
        elif isinstance(n, ast.arg):
            stored[n.arg] = stored.get(n.arg, 0) + 2
        elif isinstance(n, (ast.Global, ast.Nonlocal)):
            for x in n.names:
                stored[x] = stored.get(x, 0) + 2
    return {k: v for k, v in consts.items() if stored.get(k, 0) == 1}


def _inline_constants(tree, consts):
    if not consts:
        return tree
    sub = _Subst(consts)
    for st in tree.body:
        if isinstance(st, (ast.FunctionDef, ast.ClassDef)):
            sub.visit(st)
    tree.body = [st for st in tree.body if not (isinstance(st, ast.Assign) and len(st.targets) == 1
                                                and isinstance(st.targets[0], ast.Name) and st.targets[0].id in consts)]
    return tree


# ------------------------------------------------------------------ E. conditional-expression assignments

class _IfExpAssign(ast.NodeTransformer):
    def visit_Assign(self, n):
        if len(n.targets) == 1 and isinstance(n.targets[0], ast.Name) and isinstance(n.value, ast.IfExp):
            t = n.targets[0].id
            return ast.If(test=n.value.test,
                          body=[ast.Assign(targets=[ast.Name(id=t, ctx=ast.Store())], value=n.value.body)],
                          orelse=[ast.Assign(targets=[ast.Name(id=t, ctx=ast.Store())], value=n.value.orelse)])
        return n


# ------------------------------------------------------------------ F. named intermediates

_PURE_CALLS = {"max", "min", "len", "int", "bool", "abs", "exact_log2", "ceil_log2", "isinstance"}


def _pure_expr(e):
    for n in ast.walk(e):
        if isinstance(n, ast.Call):
            if not (isinstance(n.func, ast.Name) and n.func.id in _PURE_CALLS) or n.keywords \
                    or any(isinstance(a, ast.Starred) for a in n.args):
                return False
        elif not isinstance(n, (ast.Name, ast.Attribute, ast.Constant, ast.BinOp, ast.UnaryOp, ast.BoolOp, ast.Compare,
                                ast.IfExp, ast.Subscript, ast.Tuple, ast.Load, ast.operator, ast.unaryop, ast.boolop,
                                ast.cmpop, ast.expr_context)):
            return False
    return True


def _inline_intermediates(fn):
    stored, loads = {}, {}
    for n in ast.walk(fn):
        if isinstance(n, ast.Name):
            d = stored if isinstance(n.ctx, (ast.Store, ast.Del)) else loads
            d[n.id] = d.get(n.id, 0) + 1
    params = {a.arg for a in fn.args.args + fn.args.kwonlyargs + fn.args.posonlyargs}

    def use_site_ok(st, x):
        """the single load of x in st is not under a lambda / comprehension, nor in a compound statement's body"""
        heads = [st]
        if isinstance(st, (ast.If, ast.While)):
            heads = [st.test]
        elif isinstance(st, ast.For):
            return False
        elif isinstance(st, (ast.With, ast.Try, ast.FunctionDef, ast.ClassDef)):
            return False
        n_here = sum(1 for h in heads for n in ast.walk(h) if isinstance(n, ast.Name) and n.id == x and isinstance(n.ctx, ast.Load))
        if n_here != 1:
            return False
        for h in heads:
            for n in ast.walk(h):
                if isinstance(n, (ast.Lambda, ast.ListComp, ast.SetComp, ast.DictComp, ast.GeneratorExp)):
                    if any(isinstance(m, ast.Name) and m.id == x for m in ast.walk(n)):
                        return False
        return True

    def block(stmts):
        stmts = list(stmts)
        i = 0
        while i < len(stmts) - 1:
            st, nxt = stmts[i], stmts[i + 1]
            if isinstance(st, ast.Assign) and len(st.targets) == 1 and isinstance(st.targets[0], ast.Name):
                x = st.targets[0].id
                if stored.get(x) == 1 and loads.get(x) == 1 and x not in params and _pure_expr(st.value) \
                        and x not in _names_loaded(st.value) and use_site_ok(nxt, x):
                    if isinstance(nxt, (ast.If, ast.While)):
                        nxt.test = _Subst({x: st.value}).visit(nxt.test)
                    else:
                        stmts[i + 1] = _Subst({x: st.value}).visit(nxt)
                    del stmts[i]
                    i = max(i - 1, 0)
                    continue
            i += 1
        for st in stmts:
            for f in ("body", "orelse", "finalbody"):
                if hasattr(st, f) and isinstance(getattr(st, f), list) and getattr(st, f) \
                        and not isinstance(st, (ast.FunctionDef, ast.ClassDef)):
                    setattr(st, f, block(getattr(st, f)))
            if isinstance(st, ast.Try):
                for h in st.handlers:
                    h.body = block(h.body)
        return stmts
    fn.body = block(fn.body)


# ------------------------------------------------------------------ H. dict spellings, I. split conditions

class _DictSpelling(ast.NodeTransformer):
    """`{}` -> `dict()`;  `dict(k=v, ...)` (keywords only) -> `{"k": v, ...}`  (the two spellings the library itself uses)"""
    def __init__(self, empty_too):
        self.empty_too = empty_too

    def visit_Dict(self, n):
        self.generic_visit(n)
        if not n.keys and self.empty_too:
            return ast.Call(func=ast.Name(id="dict", ctx=ast.Load()), args=[], keywords=[])
        return n

    def visit_Call(self, n):
        self.generic_visit(n)
        if isinstance(n.func, ast.Name) and n.func.id == "dict" and not n.args and n.keywords \
                and all(k.arg is not None for k in n.keywords):
            return ast.Dict(keys=[ast.Constant(value=k.arg) for k in n.keywords], values=[k.value for k in n.keywords])
        return n


def _merge_split_conditions(stmts):
    """two consecutive `if` statements without `else` whose bodies are the same text and end in raise / return /
    continue / break are one `if a or b` (the second test is only evaluated when the first is false either way)"""
    out = []
    for st in stmts:
        for f in ("body", "orelse", "finalbody"):
            if hasattr(st, f) and isinstance(getattr(st, f), list) and getattr(st, f):
                setattr(st, f, _merge_split_conditions(getattr(st, f)))
        if isinstance(st, ast.Try):
            for h in st.handlers:
                h.body = _merge_split_conditions(h.body)
        prev = out[-1] if out else None
        if isinstance(st, ast.If) and isinstance(prev, ast.If) and not st.orelse and not prev.orelse \
                and isinstance(st.body[-1], (ast.Raise, ast.Return, ast.Continue, ast.Break)) \
                and [ast.dump(x) for x in st.body] == [ast.dump(x) for x in prev.body]:
            a = prev.test.values if isinstance(prev.test, ast.BoolOp) and isinstance(prev.test.op, ast.Or) else [prev.test]
            b = st.test.values if isinstance(st.test, ast.BoolOp) and isinstance(st.test.op, ast.Or) else [st.test]
            prev.test = ast.BoolOp(op=ast.Or(), values=list(a) + list(b))
            continue
        out.append(st)
    return out


# the sets of rewritings tried, in this order, after the text as written (a stage stops at the first that works)
READINGS = ["D", "DI", "DH", "DAC", "DACI", "DHI", "DGHI", "DACHI", "DACGHI", "DACB", "DACBI", "DACBHI", "DACBGHI", "DACE",
            "DACEI", "DACBE", "DACBF", "DACBEF", "DACBEFGHI"]
MAX_COMPILED = 4          # at most this many of them are carried through coqc per stage (translation itself is cheap)
LEVELS = len(READINGS)


def normalize(tree, level=LEVELS):
    rules = READINGS[level - 1] if isinstance(level, int) else level
    tree = copy.deepcopy(tree)
    if "D" in rules:
        tree = _inline_constants(tree, _module_constants(tree))
    helpers = _helpers(tree) if "A" in rules else {}
    if helpers:
        for _ in range(3):
            ie = _InlineExpr(helpers)
            tree = ie.visit(tree)
            if not ie.used:
                break
        tree.body = _inline_stmt_helpers(tree.body, helpers, [0])
    if "C" in rules:
        tree.body = _continue_guards(tree.body, False)
    if "B" in rules:
        for n in ast.walk(tree):
            if isinstance(n, ast.FunctionDef):
                _propagate_aliases(n)
    if "F" in rules:
        for n in ast.walk(tree):
            if isinstance(n, ast.FunctionDef):
                _inline_intermediates(n)
    if "E" in rules:
        tree = _IfExpAssign().visit(tree)
    if "H" in rules:
        tree = _DictSpelling("G" in rules).visit(tree)
    if "I" in rules:
        tree.body = _merge_split_conditions(tree.body)
    ast.fix_missing_locations(tree)
    # give every node the text positions of a fresh parse of the normalised program
    return _REAL_PARSE(ast.unparse(tree))


class second_reading:
    """Context manager: inside it `ast.parse` returns the normalised tree (translators call ast.parse themselves)."""
    def __init__(self, level=LEVELS):
        self.level = level

    def __enter__(self):
        self._orig = ast.parse
        level = self.level

        def parse(source, *a, **kw):
            t = _REAL_PARSE(source, *a, **kw)
            return normalize(t, level) if isinstance(t, ast.Module) else t
        ast.parse = parse
        return self

    def __exit__(self, *exc):
        ast.parse = self._orig
        return False


if __name__ == "__main__":
    import sys
    print(ast.unparse(normalize(ast.parse(open(sys.argv[1]).read()))))
