"""Fail-closed translator for the pure-Python part of csr.Register and its field collections (csr/reg.py):
FieldActionMap.__init__ / __getitem__ / __iter__ / flatten, FieldActionArray.__init__ / flatten,
Register.__init__ (with its nested filter_fields), the `field` property, Register.__iter__ and the Python
skeleton of Register.elaborate are regenerated as monadic Gallina (Gen/RegGen.v) on every run; Gen/TieReg.v proves
the result equal to Model/RegPack.v for all inputs.

The translator walks the AST with general rules; there is no per-method text.  What it reads Python as:

* every function is a `res` computation (Lib/Res.v); `raise E(...)` is `Err E`; a call that can raise is bound
  with `let!` in evaluation order (it may not sit under and/or/if-expressions);
* statements are translated in order, in continuation style; `if` joins the locals assigned in its arms; `for`
  is `for_res` (Lib/PyReg.v) over the list of items, carrying the variables the body assigns (`break` / `continue`
  supported, `return` inside a loop and `for ... else` are not);
* a generator returns the list of what it yields, in order (`yield` appends, `yield from` concatenates); this is
  exact for a generator that is consumed once and completely, which is how `for ... in self` uses them.  A
  generator object stored and iterated twice cannot be expressed: storing one in an attribute aborts;
* objects are values of `pyv` (Lib/PyReg.v): None, csr.Field (width, access of the port it will create), the
  FieldAction it creates, dict / list (association list / list), FieldActionMap / FieldActionArray (carrying
  `_fields`), anything else.  `isinstance`, `len`, truthiness, `.items()`, `enumerate`, `d[k] = v`, `d[k]`,
  `.values()`, `.append`, `for x in obj` (read as iteration over a list object), `Mapping.items()` (through the
  class's own translated __iter__ / __getitem__) are the specified functions of Lib/PyReg.v.  Dict keys and path elements are `pykey` (string atom / int); string
  atoms stand for non-empty strings;
* calls that leave the translated fragment are parameters of the generated definition (open recursion):
  `FieldActionMap(x)` -> new_map, `FieldActionArray(x)` -> new_arr, `x.flatten()` -> flatten_of (dynamic
  dispatch), the nested `filter_fields` -> filter_fields.  TieReg.v instantiates them with model-defined functions
  and proves that these satisfy the generated equations;
* `hasattr(self, "__annotations__")` / `self.__annotations__` and `hasattr(self, "_access")` / `self._access` are
  option-valued parameters (annot, cls_access); `Element.Access(x)` is the identity on an already valid mode (the
  model starts from valid modes); `Field.create()`, `Shape.cast(s).width`, `Element.Signature(width, access)` are
  specified in Lib/PyReg.v, not translated;
* `Register.__init__` ends in `super().__init__({"element": Out(Element.Signature(w, a))})`; its result is
  (self._field, a, w) after Element.Signature's own width check;
* in `elaborate`, `Module()` is the empty list of `hstmt`; `m.d.comb += [a.eq(b), ...]` appends `HEq a b`;
  `m.submodules[name] = f` and `m.submodules += f` both append `HSub f` (submodule NAMES are C19's subject);
  `self.element.<m>` / `field.port.<m>` / `e[slice(a, b)]` are the constructors HElem / HPort / HSlice;
* strings, sets and f-strings are OPAQUE: a local assigned from an expression built only of str()/set()/join/
  generator expressions/constants becomes opaque, a method call on an opaque local is skipped, and an `if` whose
  test is opaque is accepted only when both arms translate to the same Gallina.  Reading an opaque name anywhere
  else aborts.  Statements in front of a `raise` inside an `if` may only build the message (translate2's rule).

Everything else raises Untranslatable."""
import ast, os

from .translate import Untranslatable, find_func, attr_path
from .translate2 import M as _M2

harmless = _M2.harmless

COQ_KEYWORDS = {"as", "at", "cofix", "else", "end", "exists", "exists2", "fix", "for", "forall", "fun", "if", "IF",
                "in", "let", "match", "mod", "Prop", "return", "Set", "then", "Type", "using", "where", "with",
                "by", "Definition", "Fixpoint", "Lemma", "Theorem", "Ok", "Err", "true", "false", "tt", "nil",
                "cons", "app", "map", "fst", "snd", "length", "pair", "Some", "None", "list", "option", "bool",
                "res", "Z", "nat", "unit", "bind", "check", "negb", "andb", "orb"}

# ------------------------------------------------------------------------------------------------------ types
PATH = ("list", "key")
ITEMS = ("list", ("prod", "key", "py"))
FLAT = ("list", ("prod", PATH, "py"))
DICT = ("dict",)
PYLIST = ("list", "py")
STMTS = ("list", "hstmt")
ATOMS = {"py": "pyv", "key": "pykey", "Z": "Z", "bool": "bool", "facc": "facc", "oacc": "(option racc)",
         "shape": "Z", "hexpr": "hexpr", "hstmt": "hstmt", "unit": "unit", "opy": "(option pyv)"}


def coqt(t):
    if isinstance(t, str):
        if t in ATOMS:
            return ATOMS[t]
        raise Untranslatable(f"no Coq type for {t}")
    if t == DICT:
        return "(list (pykey * pyv))"
    if t[0] == "list":
        return f"(list {coqt(t[1])})"
    if t[0] == "prod":
        return "(" + " * ".join(coqt(x) for x in t[1:]) + ")"
    if t[0] == "res":
        return f"(res {coqt(t[1])})"
    raise Untranslatable(f"no Coq type for {t}")


class V:
    """typed Coq expression; `parts` for tuples / slices, which exist only at translation time"""
    def __init__(self, s, t, parts=None):
        self.s, self.t, self.parts = s, t, parts


OPAQUE = V(None, "opaque")


def is_res(t):
    return isinstance(t, tuple) and t[0] == "res"


def to_py(v):
    """a Python-level container handed on as an object"""
    if v.t == "py":
        return v
    if v.t == DICT or v.t == ITEMS:
        return V(f"(PDict {v.s})", "py")
    if v.t == PYLIST:
        return V(f"(PList {v.s})", "py")
    raise Untranslatable(f"cannot pass a {v.t} as an object")


def unify(a, b):
    if a.t == b.t:
        return a, b
    if {a.t, b.t} <= {DICT, ITEMS}:
        return V(a.s, ITEMS), V(b.s, ITEMS)
    try:
        return to_py(a), to_py(b)
    except Untranslatable:
        raise Untranslatable(f"branches of different types {a.t} / {b.t}")


ISINSTANCE = {("py", "dict"): "is_dict", ("py", "list"): "is_list", ("py", "Field"): "is_field",
              ("py", "FieldAction"): "is_action", ("py", "FieldActionMap"): "is_amap",
              ("py", "FieldActionArray"): "is_aarr", ("key", "str"): "key_is_str", ("key", "int"): "key_is_int"}
ELEM_MEMBERS = {"r_data": "ElRData", "r_stb": "ElRStb", "w_data": "ElWData", "w_stb": "ElWStb"}
PORT_MEMBERS = {"r_data": "PoRData", "r_stb": "PoRStb", "w_data": "PoWData", "w_stb": "PoWStb"}
# calls that leave the translated fragment: parameter name, argument type, result type
EXTERNAL = {"FieldActionMap": ("new_map", "py", ("res", "py")), "FieldActionArray": ("new_arr", "py", ("res", "py"))}
DEP_TYPES = {"new_map": "(pyv -> res pyv)", "new_arr": "(pyv -> res pyv)",
             "flatten_of": f"(pyv -> res {coqt(FLAT)})", "filter_fields": "(pyv -> res pyv)"}
OPAQUE_CALLS = {"str", "set", "repr", "frozenset"}


def opaque_ok(n):
    """an expression that only builds strings / sets out of what it reads"""
    if isinstance(n, (ast.Constant, ast.Name)):
        return True
    if isinstance(n, ast.JoinedStr):
        return all(opaque_ok(v) for v in n.values)
    if isinstance(n, ast.FormattedValue):
        return opaque_ok(n.value)
    if isinstance(n, ast.Attribute):
        return opaque_ok(n.value)
    if isinstance(n, ast.GeneratorExp):
        return opaque_ok(n.elt) and all(opaque_ok(g.iter) and not g.ifs and not g.is_async for g in n.generators)
    if isinstance(n, ast.Call) and not n.keywords:
        f = n.func
        if isinstance(f, ast.Name) and f.id in OPAQUE_CALLS:
            return all(opaque_ok(a) for a in n.args)
        if isinstance(f, ast.Attribute) and f.attr == "join" and isinstance(f.value, ast.Constant) \
                and isinstance(f.value.value, str):
            return all(opaque_ok(a) for a in n.args)
    return False


class Ctx:
    """per-function translation context"""
    def __init__(self, cls, fn, spec, tree):
        self.cls, self.fn, self.spec, self.tree = cls, fn, spec, tree
        self.generator = any(isinstance(x, (ast.Yield, ast.YieldFrom)) for x in ast.walk(fn))
        self.nested = {}       # nested function name -> dependency parameter
        self.loop = None       # (k_continue, k_break) inside a for body
        self.live_out = set()  # names the continuation of the current block reads
        self.n = 0


class T:
    def __init__(self, tree, classes):
        self.tree = tree
        self.classes = classes     # class name -> spec of the class (state attributes, mixins ...)
        self.extra = []            # definitions produced on the way (nested functions)

    # ---------------------------------------------------------------------------------------------- helpers
    @staticmethod
    def name(py):
        s = py.replace(".", "_")
        return s + "_" if s in COQ_KEYWORDS or s.startswith("gen_") else s

    def fresh(self, cx, base):
        cx.n += 1
        return f"{base}_{cx.n}"

    def need(self, v, pre, cx, base="r"):
        """value of a possibly raising computation: bound in front of the current statement"""
        if is_res(v.t):
            nm = self.fresh(cx, base)
            pre.append((nm, v.s))
            return V(nm, v.t[1])
        return v

    @staticmethod
    def wrap(pre, body):
        for nm, s in reversed(pre):
            body = f"(let! {nm} := {s} in\n  {body})"
        return body

    def truth(self, v):
        if v.t == "bool":
            return v.s
        if v.t == "py":
            return f"(py_truthy {v.s})"
        if v.t == "key":
            return f"(key_truthy {v.s})"
        if v.t == "Z":
            return f"(negb ({v.s} =? 0))"
        if v.t == DICT or (isinstance(v.t, tuple) and v.t[0] == "list"):
            return f"(negb (nilb {v.s}))"
        if v.t == "opaque":
            return None
        raise Untranslatable(f"truth value of a {v.t}")

    # ---------------------------------------------------------------------------------------------- expressions
    def expr(self, n, env, pre, cx):
        if isinstance(n, ast.Constant):
            if n.value is None:
                return V("PNone", "py")
            if isinstance(n.value, bool):
                return V("true" if n.value else "false", "bool")
            if isinstance(n.value, int):
                return V(f"({n.value})", "Z")
            raise Untranslatable(f"constant {n.value!r}")
        if isinstance(n, ast.Name):
            if n.id in env:
                v = env[n.id]
                if v.t == "opaque":
                    raise Untranslatable(f"opaque name {n.id} is read")
                return v
            raise Untranslatable(f"unknown name {n.id}")
        if isinstance(n, ast.Attribute):
            return self.attribute(n, env, pre, cx)
        if isinstance(n, ast.Call):
            return self.call(n, env, pre, cx)
        if isinstance(n, ast.Subscript):
            return self.subscript(n, env, pre, cx)
        if isinstance(n, ast.BinOp) and isinstance(n.op, (ast.Add, ast.Sub, ast.Mult)):
            a = self.need(self.expr(n.left, env, pre, cx), pre, cx)
            b = self.need(self.expr(n.right, env, pre, cx), pre, cx)
            if a.t == b.t == "Z":
                op = {ast.Add: "+", ast.Sub: "-", ast.Mult: "*"}[type(n.op)]
                return V(f"({a.s} {op} {b.s})", "Z")
            if isinstance(n.op, ast.Add) and a.t == b.t and isinstance(a.t, tuple) and a.t[0] == "list":
                return V(f"({a.s} ++ {b.s})", a.t)
            raise Untranslatable(f"operands of types {a.t}, {b.t}")
        if isinstance(n, ast.IfExp):
            c = self.cond(n.test, env, cx)
            p1, p2 = [], []
            a = self.expr(n.body, env, p1, cx); b = self.expr(n.orelse, env, p2, cx)
            if p1 or p2 or is_res(a.t) or is_res(b.t):
                raise Untranslatable("a call that can raise inside a conditional expression")
            a, b = unify(a, b)
            return V(f"(if {c} then {a.s} else {b.s})", a.t)
        if isinstance(n, ast.Tuple):
            return self.tuple(n, env, pre, cx)
        if isinstance(n, ast.List):
            vs = [self.need(self.expr(e, env, pre, cx), pre, cx) for e in n.elts]
            if not vs:
                return V("[]", ("list", None))
            if any(v.t != vs[0].t for v in vs):
                raise Untranslatable("list of mixed types")
            return V("[" + "; ".join(v.s for v in vs) + "]", ("list", vs[0].t))
        if isinstance(n, ast.Dict) and not n.keys:
            return V("[]", DICT)
        if isinstance(n, (ast.BoolOp, ast.Compare)) or (isinstance(n, ast.UnaryOp) and isinstance(n.op, ast.Not)):
            return V(self.cond(n, env, cx), "bool")
        raise Untranslatable("expression " + ast.dump(n)[:100])

    def tuple(self, n, env, pre, cx):
        items = []
        for e in n.elts:
            if isinstance(e, ast.Starred):
                items.append(("*", self.need(self.expr(e.value, env, pre, cx), pre, cx)))
            else:
                items.append(("", self.need(self.expr(e, env, pre, cx), pre, cx)))
        if all((st == "" and v.t == "key") or (st == "*" and v.t == PATH) for st, v in items):
            # a tuple of keys: a path
            out = "[]"
            for st, v in reversed(items):
                if st == "*":
                    out = v.s if out == "[]" else f"({v.s} ++ {out})"
                else:
                    out = f"({v.s} :: {out})"
            return V(out, PATH)
        if any(st for st, _ in items) or len(items) < 2:
            raise Untranslatable("tuple " + ast.dump(n)[:100])
        vs = [v for _, v in items]
        return V("(" + ", ".join(v.s for v in vs) + ")", ("prod",) + tuple(v.t for v in vs), parts=vs)

    def prop(self, name, cx):
        """a @property of the current class whose body is a single return"""
        for ch in cx.cls.body:
            if isinstance(ch, ast.FunctionDef) and ch.name == name and \
                    any(isinstance(d, ast.Name) and d.id == "property" for d in ch.decorator_list):
                body = [s for s in ch.body if not (isinstance(s, ast.Expr) and isinstance(s.value, ast.Constant))]
                if len(body) == 1 and isinstance(body[0], ast.Return) and body[0].value is not None:
                    return body[0].value
                raise Untranslatable(f"property {name} is not a single return")
        return None

    def attribute(self, n, env, pre, cx):
        try:
            p = attr_path(n)
        except Untranslatable:
            p = None
        if p is not None and p in env:
            v = env[p]
            if v.t == "opaque":
                raise Untranslatable(f"opaque {p} is read")
            return v
        if isinstance(n.value, ast.Name) and n.value.id == "self":
            if n.attr == "element":
                return V("", "element")
            tgt = self.prop(n.attr, cx)
            if tgt is not None:
                return self.expr(tgt, env, pre, cx)
            st = self.classes.get(cx.cls.name, {}).get("state", {})
            if n.attr in st and "self" in env:
                acc, t = st[n.attr]
                return V(f"({acc} {env['self'].s})", t)
            raise Untranslatable(f"attribute self.{n.attr}")
        v = self.need(self.expr(n.value, env, pre, cx), pre, cx)
        if v.t == "py" and n.attr == "port":
            return V(v.s, "port")
        if v.t == "port" and n.attr == "shape":
            return V(f"(port_shape {v.s})", "shape")
        if v.t == "port" and n.attr == "access":
            return V(f"(port_access {v.s})", "facc")
        if v.t == "port" and n.attr in PORT_MEMBERS:
            return V(f"(HPort {v.s} {PORT_MEMBERS[n.attr]})", "hexpr")
        if v.t == "element" and n.attr in ELEM_MEMBERS:
            return V(f"(HElem {ELEM_MEMBERS[n.attr]})", "hexpr")
        if v.t == "shapecast" and n.attr == "width":
            return V(f"(shape_width {v.s})", "Z")
        if v.t == "slice" and n.attr in ("start", "stop"):
            return v.parts[0 if n.attr == "start" else 1]
        raise Untranslatable(f"attribute .{n.attr} of a {v.t}")

    def subscript(self, n, env, pre, cx):
        v = self.need(self.expr(n.value, env, pre, cx), pre, cx)
        if isinstance(n.slice, ast.Slice):
            raise Untranslatable("slicing")
        i = self.need(self.expr(n.slice, env, pre, cx), pre, cx)
        if v.t == "hexpr" and i.t == "slice":
            return V(f"(HSlice {v.s} {i.parts[0].s} {i.parts[1].s})", "hexpr")
        if v.t in (DICT, ITEMS) and i.t == "key":
            return V(f"(dict_lookup {v.s} {i.s})", ("res", "py"))
        raise Untranslatable(f"subscript of a {v.t} by a {i.t}")

    def call(self, n, env, pre, cx):
        if n.keywords:
            raise Untranslatable("keyword call " + ast.dump(n)[:100])
        f = n.func
        arg = lambda i: self.need(self.expr(n.args[i], env, pre, cx), pre, cx)
        if isinstance(f, ast.Name):
            fn = f.id
            if fn in env and env[fn].t == "fun":
                if len(n.args) != 1:
                    raise Untranslatable(f"call of {fn}")
                return V(f"({env[fn].s} {to_py(arg(0)).s})", ("res", "py"))
            if fn in env:
                raise Untranslatable(f"call of local {fn}")
            if fn == "len" and len(n.args) == 1:
                a = arg(0)
                if a.t == "py":
                    return V(f"(py_len {a.s})", "Z")
                if a.t == DICT or (isinstance(a.t, tuple) and a.t[0] == "list"):
                    return V(f"(zlen {a.s})", "Z")
            if fn == "enumerate" and len(n.args) == 1:
                a = arg(0)
                if a.t == "py":
                    return V(f"(py_enumerate {a.s})", ITEMS)
                if isinstance(a.t, tuple) and a.t[0] == "list" and a.t[1] is not None:
                    return V(f"(enum_from 0 {a.s})", ("list", ("prod", "key", a.t[1])))
            if fn in ("min", "max") and len(n.args) == 2:
                a, b = arg(0), arg(1)
                if a.t == b.t == "Z":
                    return V(f"(Z.{fn} {a.s} {b.s})", "Z")
            if fn == "dict" and not n.args:
                return V("[]", DICT)
            if fn == "list" and not n.args:
                return V("[]", ("list", None))
            if fn == "list" and len(n.args) == 1:
                a = arg(0)
                if isinstance(a.t, tuple) and a.t[0] == "list":
                    return a
            if fn == "slice" and len(n.args) == 2:
                a, b = arg(0), arg(1)
                if a.t == b.t == "Z":
                    return V(None, "slice", parts=[a, b])
            if fn == "Module" and not n.args:
                return V("[]", STMTS)
            if fn in EXTERNAL and len(n.args) == 1:
                dep, at, rt = EXTERNAL[fn]
                a = to_py(arg(0))
                self.use(cx, dep)
                return V(f"({dep} {a.s})", rt)
            raise Untranslatable("call " + ast.dump(n)[:100])
        if isinstance(f, ast.Attribute):
            try:
                p = attr_path(f)
            except Untranslatable:
                p = None
            if p == "Element.Access" and len(n.args) == 1:
                a = arg(0)
                if a.t == "oacc":
                    return a
            if p == "Shape.cast" and len(n.args) == 1:
                a = arg(0)
                if a.t == "shape":
                    return V(a.s, "shapecast")
            m = f.attr
            # methods of the translated class called on self
            if isinstance(f.value, ast.Name) and f.value.id == "self" and "self" in env:
                spec = self.classes.get(cx.cls.name, {})
                if m == "items" and not n.args and spec.get("mapping"):
                    it, gi = spec["mapping"]
                    s = env["self"].s
                    return V(f"(mapping_items ({it} {s}) ({gi} {s}))", ("res", ITEMS))
                raise Untranslatable(f"method self.{m}")
            v = self.need(self.expr(f.value, env, pre, cx), pre, cx)
            if m == "items" and not n.args:
                if v.t == "py":
                    return V(f"(py_items {v.s})", ITEMS)
                if v.t in (DICT, ITEMS):
                    return V(v.s, ITEMS)
            if m == "values" and not n.args and v.t in (DICT, ITEMS):
                return V(f"(map snd {v.s})", PYLIST)
            if m == "keys" and not n.args and v.t in (DICT, ITEMS):
                return V(f"(map fst {v.s})", PATH)
            if m == "create" and not n.args and v.t == "py":
                return V(f"(field_create {v.s})", ("res", "py"))
            if m == "flatten" and not n.args and v.t == "py":
                self.use(cx, "flatten_of")
                return V(f"(flatten_of {v.s})", ("res", FLAT))
            if m in ("readable", "writable") and not n.args:
                if v.t == "facc":
                    return V(f"(f_{m} {v.s})", "bool")
                if v.t == "oacc":
                    return V(f"(oe_{m} {v.s})", "bool")
            if m == "eq" and len(n.args) == 1 and v.t == "hexpr":
                a = arg(0)
                if a.t == "hexpr":
                    return V(f"(HEq {v.s} {a.s})", "hstmt")
            raise Untranslatable(f"method .{m} of a {v.t}")
        raise Untranslatable("call " + ast.dump(n)[:100])

    def use(self, cx, dep):
        if dep not in cx.spec["deps"]:
            raise Untranslatable(f"{cx.spec['name']}: unexpected use of {dep}")

    # ---------------------------------------------------------------------------------------------- conditions
    def cond(self, n, env, cx):
        """boolean Coq text of a test, or None when the test is opaque.  No raising calls inside."""
        pre = []
        c = self.cond_(n, env, pre, cx)
        if pre:
            raise Untranslatable("a call that can raise inside a condition")
        return c

    def cond_(self, n, env, pre, cx):
        if isinstance(n, ast.BoolOp):
            op = "&&" if isinstance(n.op, ast.And) else "||"
            cs = [self.cond_(v, env, pre, cx) for v in n.values]
            if any(c is None for c in cs):
                return None
            return "(" + f" {op} ".join(cs) + ")"
        if isinstance(n, ast.UnaryOp) and isinstance(n.op, ast.Not):
            c = self.cond_(n.operand, env, pre, cx)
            return None if c is None else f"(negb {c})"
        if isinstance(n, ast.Compare) and len(n.ops) == 1:
            op = type(n.ops[0]); l, r = n.left, n.comparators[0]
            if op in (ast.In, ast.NotIn):
                if self.is_opaque(r, env) or self.is_opaque(l, env):
                    return None
                raise Untranslatable("membership test")
            if op in (ast.Is, ast.IsNot) and isinstance(r, ast.Constant) and r.value is None:
                v = self.need(self.expr(l, env, pre, cx), pre, cx)
                fn = {"py": "is_none", "oacc": "oacc_is_none"}.get(v.t if isinstance(v.t, str) else None)
                if fn is None:
                    raise Untranslatable(f"`is None` on a {v.t}")
                return f"({fn} {v.s})" if op is ast.Is else f"(negb ({fn} {v.s}))"
            a = self.need(self.expr(l, env, pre, cx), pre, cx)
            b = self.need(self.expr(r, env, pre, cx), pre, cx)
            if a.t != b.t:
                raise Untranslatable(f"comparison of a {a.t} with a {b.t}")
            eq = {"Z": "Z.eqb", "oacc": "oacc_eqb", "key": "key_eqb", "bool": "Bool.eqb"}
            if op in (ast.Eq, ast.NotEq) and a.t in eq:
                c = f"({eq[a.t]} {a.s} {b.s})"
                return c if op is ast.Eq else f"(negb {c})"
            tab = {ast.Lt: "Z.ltb", ast.LtE: "Z.leb", ast.Gt: "Z.gtb", ast.GtE: "Z.geb"}
            if op in tab and a.t == "Z":
                return f"({tab[op]} {a.s} {b.s})"
            raise Untranslatable("comparison " + ast.dump(n)[:100])
        if isinstance(n, ast.Call) and isinstance(n.func, ast.Name) and n.func.id == "isinstance" and len(n.args) == 2:
            v = self.need(self.expr(n.args[0], env, pre, cx), pre, cx)
            cl = n.args[1].elts if isinstance(n.args[1], ast.Tuple) else [n.args[1]]
            out = []
            for c in cl:
                k = (v.t, c.id) if isinstance(c, ast.Name) and isinstance(v.t, str) else None
                if k not in ISINSTANCE:
                    raise Untranslatable(f"isinstance({v.t}, {ast.unparse(c)})")
                out.append(f"({ISINSTANCE[k]} {v.s})")
            return out[0] if len(out) == 1 else "(" + " || ".join(out) + ")"
        if isinstance(n, ast.Call) and isinstance(n.func, ast.Name) and n.func.id == "hasattr" and len(n.args) == 2 \
                and isinstance(n.args[0], ast.Name) and n.args[0].id == "self" and isinstance(n.args[1], ast.Constant):
            h = cx.spec.get("hasattr", {})
            if n.args[1].value in h:
                return h[n.args[1].value]
            raise Untranslatable(f"hasattr(self, {n.args[1].value!r})")
        if self.is_opaque(n, env):
            return None
        v = self.need(self.expr(n, env, pre, cx), pre, cx)
        return self.truth(v)

    def is_opaque(self, n, env):
        if isinstance(n, ast.Name) and n.id in env and env[n.id].t == "opaque":
            return True
        return False

    # ---------------------------------------------------------------------------------------------- statements
    def assigned(self, body):
        """names / self attributes (re)bound somewhere in body, in first-occurrence order"""
        out = []

        def add(t):
            if isinstance(t, ast.Name):
                k = t.id
            elif isinstance(t, ast.Attribute):
                try:
                    k = attr_path(t)
                except Untranslatable:
                    return
                if k.startswith("m.") :
                    k = "m"
            elif isinstance(t, ast.Subscript):
                return add(t.value)
            elif isinstance(t, (ast.Tuple, ast.List)):
                for e in t.elts:
                    add(e)
                return
            else:
                return
            if k not in out:
                out.append(k)
        def walk(n):
            yield n
            if isinstance(n, (ast.FunctionDef, ast.Lambda, ast.ClassDef)):
                return              # a nested function has its own locals
            for ch in ast.iter_child_nodes(n):
                yield from walk(ch)
        for st in body:
            for x in walk(st):
                if isinstance(x, ast.Assign):
                    for t in x.targets:
                        add(t)
                elif isinstance(x, (ast.AugAssign, ast.AnnAssign)):
                    add(x.target)
                elif isinstance(x, ast.NamedExpr):
                    add(x.target)
                elif isinstance(x, ast.For):
                    add(x.target)
                elif isinstance(x, ast.Expr) and isinstance(x.value, ast.Call) and isinstance(x.value.func, ast.Attribute) \
                        and x.value.func.attr in ("append", "add", "extend", "insert", "pop", "remove", "clear", "update"):
                    add(x.value.func.value)
                elif isinstance(x, (ast.Yield, ast.YieldFrom)):
                    if "yield" not in out:
                        out.append("yield")
        return out

    def exc(self, st):
        e = st.exc
        if isinstance(e, ast.Call) and isinstance(e.func, ast.Name) and \
                e.func.id in ("ValueError", "TypeError", "KeyError", "AssertionError"):
            return e.func.id
        raise Untranslatable("raise " + ast.dump(st)[:80])

    def bind_name(self, env, key, v, cx):
        """`key = v`: returns (env', let-text or None)"""
        env2 = dict(env)
        if v.t in ("slice", "element", "port", "shapecast", "opaque"):
            env2[key] = v
            return env2, None
        nm = self.name(key)
        env2[key] = V(nm, v.t, parts=None)
        return env2, (nm, v.s)

    def store(self, st, tgt, v, env, pre, cx):
        """assignment of v to one target; returns (env', [lets])"""
        if isinstance(tgt, ast.Name):
            if isinstance(v.t, tuple) and v.t[0] == "list" and v.t[1] is None:
                v = V(v.s, PYLIST)
            env2, let = self.bind_name(env, tgt.id, v, cx)
            return env2, [let] if let else []
        if isinstance(tgt, ast.Tuple) and all(isinstance(e, ast.Name) for e in tgt.elts):
            if v.parts is None or len(v.parts) != len(tgt.elts) or v.t == "slice":
                raise Untranslatable("tuple assignment from a non-tuple")
            lets = []
            for e, x in zip(tgt.elts, v.parts):
                env, let = self.bind_name(env, e.id, x, cx)
                if let:
                    lets.append(let)
            return env, lets
        if isinstance(tgt, ast.Attribute) and isinstance(tgt.value, ast.Name) and tgt.value.id == "self":
            key = "self." + tgt.attr
            decl = cx.spec.get("attrs", {})
            if tgt.attr not in decl:
                raise Untranslatable(f"store into {key}")
            want = decl[tgt.attr]
            if isinstance(v.t, tuple) and v.t[0] == "list" and v.t[1] is None:
                v = V(v.s, want)
            if v.t != want:
                raise Untranslatable(f"{key} holds a {want}, not a {v.t}")
            env2, let = self.bind_name(env, key, v, cx)
            return env2, [let]
        if isinstance(tgt, ast.Subscript):
            # m.submodules[name] = field
            if self.is_submodules(tgt.value, env):
                fv = self.need(v, pre, cx)
                if fv.t != "py":
                    raise Untranslatable("submodule that is not an object")
                if not (self.is_opaque(tgt.slice, env) or opaque_ok(tgt.slice) and not isinstance(tgt.slice, ast.Name)):
                    raise Untranslatable("submodule name")
                return self.append_m(env, f"[HSub {fv.s}]", cx)
            try:
                key = attr_path(tgt.value) if isinstance(tgt.value, ast.Attribute) else tgt.value.id
            except (Untranslatable, AttributeError):
                raise Untranslatable("store " + ast.dump(tgt)[:80])
            if key in env and env[key].t == DICT:
                k = self.need(self.expr(tgt.slice, env, pre, cx), pre, cx)
                x = to_py(v)
                if k.t != "key":
                    raise Untranslatable(f"dict key of type {k.t}")
                env2, let = self.bind_name(env, key, V(f"(dict_set {env[key].s} {k.s} {x.s})", DICT), cx)
                return env2, [let]
        raise Untranslatable("assignment target " + ast.dump(tgt)[:80])

    def is_submodules(self, n, env):
        return isinstance(n, ast.Attribute) and n.attr == "submodules" and isinstance(n.value, ast.Name) \
            and n.value.id in env and env[n.value.id].t == STMTS

    def is_comb(self, n, env):
        return isinstance(n, ast.Attribute) and n.attr == "comb" and isinstance(n.value, ast.Attribute) \
            and n.value.attr == "d" and isinstance(n.value.value, ast.Name) and n.value.value.id in env \
            and env[n.value.value.id].t == STMTS

    def append_m(self, env, text, cx, mname=None):
        mname = mname or [k for k, v in env.items() if v.t == STMTS and "." not in k][-1]
        env2, let = self.bind_name(env, mname, V(f"({env[mname].s} ++ {text})", STMTS), cx)
        return env2, [let]

    @staticmethod
    def lets(lets, body):
        for nm, s in reversed(lets):
            body = f"(let {nm} := {s} in\n  {body})"
        return body

    def block(self, body, env, k, cx):
        """Coq text (a res computation) of `body` followed by k(env)."""
        if not body:
            return k(env)
        st, rest = body[0], body[1:]
        go = lambda e: self.block(rest, e, k, cx)
        pre = []
        if isinstance(st, ast.Pass) or (isinstance(st, ast.Expr) and isinstance(st.value, ast.Constant)
                                        and isinstance(st.value.value, str)):
            return go(env)
        if isinstance(st, ast.Raise):
            return f"(Err {self.exc(st)})"
        if isinstance(st, ast.Assert):
            c = self.cond(st.test, env, cx)
            if c is None:
                raise Untranslatable("opaque assert")
            return f"(if negb {c} then Err AssertionError else\n  {go(env)})"
        if isinstance(st, ast.Return):
            if cx.loop is not None:
                raise Untranslatable("return inside a loop")
            return cx.ret(self, st.value, env, cx)
        if isinstance(st, (ast.Break, ast.Continue)):
            if cx.loop is None:
                raise Untranslatable("break / continue outside a loop")
            return cx.loop[1 if isinstance(st, ast.Break) else 0](env)
        if isinstance(st, ast.FunctionDef):
            return go(self.nested_def(st, env, cx))
        if isinstance(st, ast.Assign) and len(st.targets) == 1:
            tgt = st.targets[0]
            if isinstance(tgt, ast.Name):
                try:
                    v = self.need(self.expr(st.value, env, pre, cx), pre, cx)
                except Untranslatable:
                    if not opaque_ok(st.value) or isinstance(st.value, ast.Name):
                        raise
                    env2 = dict(env); env2[tgt.id] = OPAQUE
                    return go(env2)
            else:
                v = self.expr(st.value, env, pre, cx)
                if not isinstance(tgt, ast.Subscript):
                    v = self.need(v, pre, cx)
            if v.t == "generator":
                raise Untranslatable("a generator object is stored")
            env2, lets = self.store(st, tgt, v, env, pre, cx)
            return self.wrap(pre, self.lets(lets, go(env2)))
        if isinstance(st, ast.AugAssign) and isinstance(st.op, ast.Add):
            tgt = st.target
            if self.is_comb(tgt, env):
                v = self.need(self.expr(st.value, env, pre, cx), pre, cx)
                if v.t == "hstmt":
                    v = V(f"[{v.s}]", STMTS)
                if v.t != STMTS:
                    raise Untranslatable(f"m.d.comb += a {v.t}")
                env2, lets = self.append_m(env, v.s, cx, tgt.value.value.id)
                return self.wrap(pre, self.lets(lets, go(env2)))
            if self.is_submodules(tgt, env):
                v = self.need(self.expr(st.value, env, pre, cx), pre, cx)
                if v.t != "py":
                    raise Untranslatable("submodule that is not an object")
                env2, lets = self.append_m(env, f"[HSub {v.s}]", cx, tgt.value.id)
                return self.wrap(pre, self.lets(lets, go(env2)))
            if isinstance(tgt, ast.Name):
                val = ast.BinOp(left=ast.Name(id=tgt.id, ctx=ast.Load()), op=ast.Add(), right=st.value)
                v = self.need(self.expr(val, env, pre, cx), pre, cx)
                env2, lets = self.store(st, tgt, v, env, pre, cx)
                return self.wrap(pre, self.lets(lets, go(env2)))
            raise Untranslatable("augmented assignment " + ast.dump(tgt)[:80])
        if isinstance(st, ast.Expr) and isinstance(st.value, (ast.Yield, ast.YieldFrom)):
            if not cx.generator or "yield" not in env:
                raise Untranslatable("yield")
            if st.value.value is None:
                raise Untranslatable("bare yield")
            v = self.need(self.expr(st.value.value, env, pre, cx), pre, cx)
            out = env["yield"]
            if isinstance(st.value, ast.Yield):
                if v.t != out.t[1]:
                    raise Untranslatable(f"yield of a {v.t} in a generator of {out.t[1]}")
                new = f"({out.s} ++ [{v.s}])"
            else:
                if v.t in (DICT, ITEMS) and out.t == PATH:      # iterating a dict gives its keys
                    v = V(f"(map fst {v.s})", PATH)
                if v.t != out.t:
                    raise Untranslatable(f"yield from a {v.t} in a generator of {out.t[1]}")
                new = f"({out.s} ++ {v.s})"
            env2, let = self.bind_name(env, "yield", V(new, out.t), cx)
            return self.wrap(pre, self.lets([let], go(env2)))
        if isinstance(st, ast.Expr) and isinstance(st.value, ast.Call):
            return self.call_stmt(st, rest, env, k, cx)
        if isinstance(st, ast.If):
            return self.if_(st, rest, env, k, cx)
        if isinstance(st, ast.For):
            return self.for_(st, rest, env, k, cx)
        raise Untranslatable("statement " + ast.dump(st)[:120])

    def call_stmt(self, st, rest, env, k, cx):
        c = st.value
        f = c.func
        go = lambda e: self.block(rest, e, k, cx)
        pre = []
        if isinstance(f, ast.Attribute) and not c.keywords:
            recv = f.value
            try:
                key = attr_path(recv) if isinstance(recv, ast.Attribute) else recv.id if isinstance(recv, ast.Name) else None
            except Untranslatable:
                key = None
            if key in env and env[key].t == "opaque":
                # a method of an opaque local (set.add ...): touches opaque state only
                if all(opaque_ok(a) for a in c.args):
                    return go(env)
                raise Untranslatable("call on an opaque value with a translated argument")
            if key in env and f.attr == "append" and len(c.args) == 1 and isinstance(env[key].t, tuple) \
                    and env[key].t[0] == "list":
                v = self.need(self.expr(c.args[0], env, pre, cx), pre, cx)
                lt = env[key].t
                if lt[1] is None:
                    lt = ("list", v.t)
                if v.t != lt[1]:
                    raise Untranslatable(f"append of a {v.t} to a list of {lt[1]}")
                env2, let = self.bind_name(env, key, V(f"({env[key].s} ++ [{v.s}])", lt), cx)
                return self.wrap(pre, self.lets([let], go(env2)))
        if cx.spec.get("super_init") and ast.unparse(f) == "super().__init__":
            if rest:
                raise Untranslatable("statements after super().__init__")
            return cx.spec["super_init"](self, c, env, cx)
        raise Untranslatable("call statement " + ast.dump(c)[:120])

    @staticmethod
    def leaves(body):
        def walk(n, inloop):
            if isinstance(n, ast.Return) or (isinstance(n, (ast.Break, ast.Continue)) and not inloop):
                return True
            if isinstance(n, (ast.FunctionDef, ast.Lambda, ast.ClassDef)):
                return False
            inl = inloop or isinstance(n, (ast.For, ast.While))
            return any(walk(ch, inl) for ch in ast.iter_child_nodes(n))
        return any(walk(s, False) for s in body)

    def live_after(self, rest, cx):
        names = set()
        for r in rest:
            for y in ast.walk(r):
                if isinstance(y, ast.Name):
                    names.add(y.id)
                elif isinstance(y, ast.Attribute):
                    try:
                        names.add(attr_path(y))
                    except Untranslatable:
                        pass
                if isinstance(y, ast.Name) and y.id == "self":
                    names.add("self*")
        return names

    def state_text(self, names, env):
        vals = []
        for x in names:
            if x not in env or env[x].s is None:
                raise Untranslatable(f"{x} undefined on one path")
            vals.append(env[x])
        if not vals:
            return "tt", []
        return ("(" + ", ".join(v.s for v in vals) + ")" if len(vals) > 1 else vals[0].s), vals

    def rebind(self, names, types, env, cx):
        env2 = dict(env)
        fresh = []
        for x, t in zip(names, types):
            nm = self.name(x)
            env2[x] = V(nm, t); fresh.append(nm)
        pat = "_" if not fresh else fresh[0] if len(fresh) == 1 else "'(" + ", ".join(fresh) + ")"
        return env2, pat

    def if_(self, st, rest, env, k, cx):
        go = lambda e: self.block(rest, e, k, cx)
        test = st.test
        lets = []
        if isinstance(test, ast.NamedExpr):
            pre = []
            v = self.need(self.expr(test.value, env, pre, cx), pre, cx)
            env, ls = self.store(st, test.target, v, env, pre, cx)
            txt = self.if_(ast.If(test=ast.Name(id=test.target.id, ctx=ast.Load()), body=st.body, orelse=st.orelse),
                           rest, env, k, cx)
            return self.wrap(pre, self.lets(ls, txt))
        c = self.cond(test, env, cx)
        ends_raise = lambda b: bool(b) and isinstance(b[-1], ast.Raise) and all(harmless(s) for s in b[:-1])
        if c is not None and ends_raise(st.body) and not st.orelse:
            return f"(if {c} then Err {self.exc(st.body[-1])} else\n  {go(env)})"
        if self.leaves(st.body) or self.leaves(st.orelse):
            # an arm returns / breaks / continues: no join, what follows the `if` is translated on both paths
            if c is None:
                raise Untranslatable("return / break / continue under an opaque test")
            return (f"(if {c} then {self.block(st.body + rest, env, k, cx)} else\n"
                    f"  {self.block(st.orelse + rest, env, k, cx)})")
        # join of the variables (re)bound in either arm that exist on every continuing path
        names = [x for x in self.assigned(st.body) + self.assigned(st.orelse)]
        names = [x for i, x in enumerate(names) if x not in names[:i]]
        live = self.live_after(rest, cx) | cx.live_out
        always = set(cx.spec.get("attrs", {})) | {"yield"}
        keep = []
        for x in names:
            if x in env and env[x].t == "opaque":
                continue
            if x in env or x in live or x.split(".")[-1] in always:
                keep.append(x)
        types = {}

        def arm(e2):
            txt, vals = self.state_text([x for x in keep], e2)
            for x, v in zip(keep, vals):
                if v.t in ("slice", "element", "port", "shapecast"):
                    raise Untranslatable(f"{x} cannot be joined")
                if types.setdefault(x, v.t) != v.t:
                    raise Untranslatable(f"{x} has types {types[x]} and {v.t} on two paths")
            return f"(Ok {txt})"
        saved = cx.live_out
        cx.live_out = live | set(keep)
        a = self.block(st.body, env, arm, cx)
        b = self.block(st.orelse, env, arm, cx)
        cx.live_out = saved
        if c is None:
            if a != b:
                raise Untranslatable("an `if` on an opaque (string / set) test whose arms differ")
            joined = a
        else:
            joined = f"(if {c} then {a} else {b})"
        for x in keep:
            if x not in types:      # no arm continues
                return joined if c is not None else a
        env2, pat = self.rebind(keep, [types[x] for x in keep], env, cx)
        # opaque names assigned in the arms stay / become opaque
        for x in names:
            if x not in keep and (x in env and env[x].t == "opaque"):
                env2[x] = OPAQUE
        return f"(let! {pat} := {joined} in\n  {self.block(rest, env2, k, cx)})"

    def for_(self, st, rest, env, k, cx):
        if st.orelse:
            raise Untranslatable("for ... else")
        pre = []
        it = st.iter
        if isinstance(it, ast.Name) and it.id == "self":
            itspec = cx.spec.get("iter_self")
            if not itspec:
                raise Untranslatable("iteration over self")
            v = V(itspec(self, env, cx), ("res", FLAT))
        else:
            v = self.expr(it, env, pre, cx)
        v = self.need(v, pre, cx, "items")
        if v.t == DICT:
            v = V(f"(map fst {v.s})", PATH)
        if v.t == "py":                 # `for item in x` on an object: read as a list (the code's own guard)
            v = V(f"(py_elems {v.s})", PYLIST)
        if not (isinstance(v.t, tuple) and v.t[0] == "list" and v.t[1] is not None):
            raise Untranslatable(f"iteration over a {v.t}")
        et = v.t[1]
        # loop variable(s)
        benv = dict(env)
        tgt = st.target
        if isinstance(tgt, ast.Name):
            pat = self.name(tgt.id); benv[tgt.id] = V(pat, et)
        elif isinstance(tgt, ast.Tuple) and all(isinstance(e, ast.Name) for e in tgt.elts) and \
                isinstance(et, tuple) and et[0] == "prod" and len(et) - 1 == len(tgt.elts):
            nms = [self.name(e.id) for e in tgt.elts]
            if len(set(nms)) != len(nms):
                raise Untranslatable("repeated loop variable")
            for e, nm, t in zip(tgt.elts, nms, et[1:]):
                benv[e.id] = V(nm, t)
            pat = "'(" + ", ".join(nms) + ")"
        else:
            raise Untranslatable("loop target " + ast.dump(tgt)[:80])
        # loop-carried state: what the body (re)binds and that exists before the loop
        names = [x for x in self.assigned(st.body) if x in env and env[x].t != "opaque"]
        tnames = [e.id for e in tgt.elts] if isinstance(tgt, ast.Tuple) else [tgt.id]
        if any(x in tnames for x in names):
            raise Untranslatable("loop variable is also loop state")
        live = self.live_after(rest, cx) | cx.live_out
        for x in self.assigned(st.body):
            if x not in env and x in live and x not in tnames:
                raise Untranslatable(f"{x} is first bound inside a loop and read after it")
        for x in tnames:
            if x in live:
                raise Untranslatable(f"loop variable {x} is read after the loop")
        types = [env[x].t for x in names]
        for x, t in zip(names, types):
            if t in ("slice", "element", "port", "shapecast") or (isinstance(t, tuple) and t[0] == "list" and t[1] is None):
                raise Untranslatable(f"{x} ({t}) cannot be carried by a loop")
        senv, spat = self.rebind(names, types, benv, cx)

        def leave(flag):
            def f(e2):
                txt, vals = self.state_text(names, e2)
                for x, v2, t in zip(names, vals, types):
                    if v2.t != t:
                        raise Untranslatable(f"{x} changes type inside a loop ({t} -> {v2.t})")
                return f"(Ok ({flag}, {txt}))"
            return f
        saved = cx.loop, cx.live_out
        cx.loop = (leave("true"), leave("false"))
        cx.live_out = set(names)
        body = self.block(st.body, senv, leave("true"), cx)
        cx.loop, cx.live_out = saved
        init, _ = self.state_text(names, env)
        env2, pat2 = self.rebind(names, types, env, cx)
        spat_fun = spat if spat != "_" else "_"
        loop = f"(for_res (fun {pat} {spat_fun} =>\n  {body})\n  {v.s} {init})"
        return self.wrap(pre, f"(let! {pat2} := {loop} in\n  {self.block(rest, env2, k, cx)})")

    def nested_def(self, fn, env, cx):
        """def f(x): ... inside a method: a separate definition with open recursion; it may not read the locals of
        the enclosing function"""
        dep = fn.name
        if dep not in DEP_TYPES or dep not in cx.spec["deps"]:
            raise Untranslatable(f"nested function {dep}")
        a = fn.args
        if a.vararg or a.kwarg or a.kwonlyargs or a.defaults or len(a.args) != 1 or fn.decorator_list:
            raise Untranslatable(f"signature of {dep}")
        for y in ast.walk(fn):
            if isinstance(y, ast.Name) and y.id in env and y.id != dep and y.id != a.args[0].arg:
                raise Untranslatable(f"{dep} reads {y.id} of the enclosing function")
            if isinstance(y, (ast.Nonlocal, ast.Global)):
                raise Untranslatable("nonlocal")
        spec = {"name": "gen_" + dep, "deps": [dep]}
        cx2 = Ctx(cx.cls, fn, spec, self.tree)
        cx2.ret = ret_py
        p = self.name(a.args[0].arg)
        env2 = {a.args[0].arg: V(p, "py"), dep: V(dep, "fun")}
        body = self.block(fn.body, env2, lambda e: "(Ok PNone)", cx2)
        self.extra.append(f"(* nested in {cx.cls.name}.{cx.fn.name}: {dep} *)\n"
                          f"Definition gen_{dep} ({dep} : {DEP_TYPES[dep]}) ({p} : pyv) : res pyv :=\n  {body}.\n")
        env3 = dict(env); env3[dep] = V(dep, "fun")
        return env3


# ------------------------------------------------------------------------------------------------ results
def ret_py(tr, value, env, cx):
    if value is None:
        return "(Ok PNone)"
    pre = []
    v = tr.need(tr.expr(value, env, pre, cx), pre, cx)
    return tr.wrap(pre, f"(Ok {to_py(v).s})")


def ret_typed(t):
    def f(tr, value, env, cx):
        if value is None:
            raise Untranslatable("bare return")
        pre = []
        v = tr.need(tr.expr(value, env, pre, cx), pre, cx)
        if v.t != t:
            raise Untranslatable(f"return of a {v.t}, expected {t}")
        return tr.wrap(pre, f"(Ok {v.s})")
    return f


def ret_none(tr, value, env, cx):
    raise Untranslatable("return in a function that should fall off its end")


def ret_generator(tr, value, env, cx):
    if value is not None:
        raise Untranslatable("return with a value in a generator")
    return f"(Ok {env['yield'].s})"


def reg_super_init(tr, call, env, cx):
    """super().__init__({"element": Out(Element.Signature(width, access))})"""
    ok = len(call.args) == 1 and not call.keywords and isinstance(call.args[0], ast.Dict) and len(call.args[0].keys) == 1 \
        and isinstance(call.args[0].keys[0], ast.Constant) and call.args[0].keys[0].value == "element"
    if ok:
        o = call.args[0].values[0]
        ok = isinstance(o, ast.Call) and isinstance(o.func, ast.Name) and o.func.id == "Out" and len(o.args) == 1 \
            and not o.keywords and isinstance(o.args[0], ast.Call) and ast.unparse(o.args[0].func) == "Element.Signature" \
            and len(o.args[0].args) == 2 and not o.args[0].keywords
    if not ok:
        raise Untranslatable("Register.__init__: the element signature is not built as "
                             "super().__init__({'element': Out(Element.Signature(width, access))})")
    pre = []
    w = tr.need(tr.expr(o.args[0].args[0], env, pre, cx), pre, cx)
    a = tr.need(tr.expr(o.args[0].args[1], env, pre, cx), pre, cx)
    if w.t != "Z" or a.t != "oacc":
        raise Untranslatable("Element.Signature arguments")
    if "self._field" not in env:
        raise Untranslatable("self._field is not set")
    return tr.wrap(pre, f"(let! _ := elem_signature {w.s} {a.s} in\n  Ok ({env['self._field'].s}, {a.s}, {w.s}))")


def reg_iter_self(tr, env, cx):
    """`for ... in self` inside Register: Register.__iter__ on the current self._field"""
    if "self._field" not in env:
        raise Untranslatable("iteration over self before self._field is set")
    return f"(gen_reg_iter flatten_of {env['self._field'].s})"


# ------------------------------------------------------------------------------------------------ what is translated
CLASSES = {
    "FieldActionMap": {"state": {"_fields": ("amap_fields", DICT)}, "mapping": ("gen_map_iter", "gen_map_getitem")},
    "FieldActionArray": {"state": {"_fields": ("aarr_fields", PYLIST)}},
    "Register": {"state": {}},
}

REG_ENV = {"self._field": ("self_field", "py")}

FUNCS = [
    # FieldActionMap
    dict(cls="FieldActionMap", fn="__init__", name="gen_map_init", deps=["new_map", "new_arr"],
         params=[("fields", "py")], attrs={"_fields": DICT}, rtype="pyv", ret=ret_none,
         end=lambda e: f"(Ok (PAMap {e['self._fields'].s}))"),
    dict(cls="FieldActionMap", fn="__getitem__", name="gen_map_getitem", deps=[], self=True,
         params=[("key", "key")], rtype="pyv", ret=ret_typed("py")),
    dict(cls="FieldActionMap", fn="__iter__", name="gen_map_iter", deps=[], self=True, params=[],
         rtype=coqt(PATH), gen=PATH),
    dict(cls="FieldActionMap", fn="flatten", name="gen_map_flatten", deps=["flatten_of"], self=True, params=[],
         rtype=coqt(FLAT), gen=FLAT),
    # FieldActionArray
    dict(cls="FieldActionArray", fn="__init__", name="gen_arr_init", deps=["new_map", "new_arr"],
         params=[("fields", "py")], attrs={"_fields": PYLIST}, rtype="pyv", ret=ret_none,
         end=lambda e: f"(Ok (PAArr {e['self._fields'].s}))"),
    dict(cls="FieldActionArray", fn="flatten", name="gen_arr_flatten", deps=["flatten_of"], self=True, params=[],
         rtype=coqt(FLAT), gen=FLAT),
    # Register
    dict(cls="Register", fn="__iter__", name="gen_reg_iter", deps=["flatten_of"], env=REG_ENV, params=[],
         rtype=coqt(FLAT), gen=FLAT),
    dict(cls="Register", fn="__init__", name="gen_reg_init",
         deps=["filter_fields", "new_map", "new_arr", "flatten_of"],
         xparams=[("annot", "opy"), ("cls_access", "oacc")],
         env={"self.__annotations__": ("(opt_py annot)", "py"), "self._access": ("cls_access", "oacc")},
         hasattr={"__annotations__": "(opt_is_some annot)", "_access": "(negb (oacc_is_none cls_access))"},
         params=[("fields", "py"), ("access", "oacc")], defaults={"fields": None, "access": None},
         attrs={"_field": "py"}, rtype="(pyv * option racc * Z)", ret=ret_none,
         super_init=reg_super_init, iter_self=reg_iter_self,
         end=lambda e: (_ for _ in ()).throw(Untranslatable("Register.__init__ does not end in super().__init__"))),
    dict(cls="Register", fn="elaborate", name="gen_reg_elaborate", deps=["flatten_of"], env=REG_ENV,
         params=[("platform", None)], rtype=coqt(STMTS), ret=ret_typed(STMTS), iter_self=reg_iter_self),
]


def gen_func(tr, spec):
    cls = find_func(tr.tree, [spec["cls"]])
    fn = find_func(cls, [spec["fn"]])
    if not isinstance(fn, ast.FunctionDef) or not isinstance(cls, ast.ClassDef):
        raise Untranslatable(f"{spec['cls']}.{spec['fn']} is not a plain method")
    allowed_deco = []
    if fn.decorator_list != allowed_deco:
        raise Untranslatable(f"{spec['cls']}.{spec['fn']} is decorated")
    a = fn.args
    if a.vararg or a.kwarg or a.kwonlyargs or a.posonlyargs:
        raise Untranslatable(f"signature of {spec['cls']}.{spec['fn']}")
    names = [x.arg for x in a.args]
    if names != ["self"] + [p for p, _ in spec["params"]]:
        raise Untranslatable(f"parameters of {spec['cls']}.{spec['fn']}: {names}")
    dflt = spec.get("defaults", {})
    got = dict(zip(names[len(names) - len(a.defaults):], a.defaults))
    if set(got) != set(dflt) or any(not (isinstance(v, ast.Constant) and v.value == dflt[k]) for k, v in got.items()):
        raise Untranslatable(f"defaults of {spec['cls']}.{spec['fn']}")
    cx = Ctx(cls, fn, spec, tr.tree)
    env = {}
    cparams = [(d, DEP_TYPES[d]) for d in spec["deps"]] + [(n, coqt(t)) for n, t in spec.get("xparams", [])]
    if spec.get("self"):
        env["self"] = V("self", "py"); cparams.append(("self", "pyv"))
    for k, (s, t) in spec.get("env", {}).items():
        env[k] = V(s, t)
        if s.isidentifier() and s not in [c for c, _ in cparams]:
            cparams.append((s, coqt(t)))
    for p, t in spec["params"]:
        if t is not None:
            nm = tr.name(p)
            env[p] = V(nm, t); cparams.append((nm, coqt(t)))
    if cx.generator != ("gen" in spec):
        raise Untranslatable(f"{spec['cls']}.{spec['fn']}: generator / plain function changed")
    if cx.generator:
        env["yield"] = V("[]", spec["gen"])
        cx.ret = ret_generator
        end = lambda e: f"(Ok {e['yield'].s})"
    else:
        cx.ret = spec["ret"]
        end = spec.get("end") or (lambda e: (_ for _ in ()).throw(Untranslatable(f"{spec['name']}: falls off its end")))
    body = tr.block(fn.body, env, end, cx)
    ps = " ".join(f"({n} : {t})" for n, t in cparams)
    return f"(* {spec['cls']}.{spec['fn']} *)\nDefinition {spec['name']} {ps} : res {spec['rtype']} :=\n  {body}.\n"


def generate(repo):
    src = open(os.path.join(repo, "amaranth_soc/csr/reg.py")).read()
    tree = ast.parse(src)
    tr = T(tree, CLASSES)
    # the classes must still be what the representation assumes
    bases = {"FieldActionMap": ["Mapping"], "FieldActionArray": ["Sequence"], "Register": ["wiring.Component"]}
    for c, b in bases.items():
        got = [ast.unparse(x) for x in find_func(tree, [c]).bases]
        if got != b:
            raise Untranslatable(f"bases of {c}: {got}")
    # Mapping.items() is read as the mixin over the class's own __iter__ / __getitem__; iteration of a Register is
    # its __iter__; truthiness / len of the collections is not used.  A class that starts to define these itself
    # is no longer what the representation assumes.
    for c, banned in (("FieldActionMap", {"items", "keys", "values", "get", "__contains__", "__bool__"}),
                      ("FieldActionArray", {"__iter__", "__bool__"}), ("Register", {"__bool__", "__getattr__"})):
        have = {ch.name for ch in find_func(tree, [c]).body if isinstance(ch, ast.FunctionDef)}
        if have & banned:
            raise Untranslatable(f"{c} defines {sorted(have & banned)}")
    out = ["(* GENERATED on every run by harness/translate7.py from /repo's current source. Do not edit. *)",
           "From Coq Require Import ZArith List Bool.", "From Soc Require Import Model.RegPack.",
           "From Soc Require Import Lib.Res Lib.PyReg.", "Import ListNotations.", "Open Scope Z_scope.", ""]
    for spec in FUNCS:
        txt = gen_func(tr, spec)
        out += tr.extra
        tr.extra = []
        out.append(txt)
    return "\n".join(out)


# what runner.check_kernels runs for a property whose propdef sets the flag
STAGES = [("regfields", "RegGen.v", generate, "TieReg.v")]

if __name__ == "__main__":
    import sys
    print(generate(sys.argv[1] if len(sys.argv) > 1 else "/repo"))
