"""Registry: which engines, theorem files and kernels decide each property.
One JSON file per property under harness/propdefs/ (keys: engines, prop_files?, kernels?, trusted_base,
assumptions, n?)."""
import os, json, glob

PROPS = {}
for _f in sorted(glob.glob(os.path.join(os.path.dirname(os.path.abspath(__file__)), "propdefs", "C*.json"))):
    PROPS[os.path.basename(_f)[:-5]] = json.load(open(_f))
