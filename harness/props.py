"""Registry: which engines, theorem files and kernels decide each property."""

HW_TB = ["hand-written structure-mirroring Gallina model of elaborate(); tied to /repo only by the port-level correspondence run (not translated)",
         "Amaranth 0.5.10 simulator semantics (comb/sync, Switch/Case, last assignment wins)"]

PROPS = {
    "C08": {
        "engines": ["arbiter"],
        "trusted_base": HW_TB + ["modelled: wishbone.Arbiter.elaborate (bus.py:444-502); Arbiter.add() validation is exercised by the harness only"],
        "assumptions": ["single clock domain, no reset after time 0"],
    },
    "C09": {
        "engines": ["arbiter"],
        "trusted_base": HW_TB + ["modelled: grant update chain of wishbone.Arbiter.elaborate (bus.py:447-468)"],
        "assumptions": ["single clock domain, no reset after time 0",
                        "fairness premise as in the property: owners eventually release the bus"],
    },
}
