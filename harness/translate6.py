"""Fail-closed translator for the event classes: amaranth_soc/event.py (`Source.Trigger`, `Source.Signature.__init__`,
the `Source.event_map` property pair, all of `EventMap`, `Monitor.__init__`, `Monitor.elaborate`) and
amaranth_soc/csr/event.py (`_EventMaskRegister.__init__`, `EventMonitor.__init__`), regenerated as monadic Gallina
(`res`, Lib/Res.v) in the code's statement order on every run -> Gen/EventGen.v.  Gen/TieEvent.v proves every
generated definition equal to the model functions of Model/Event.v / Model/CsrEvent.v for ALL inputs.

The translator walks the Python AST with general rules; METHODS below only says, per method, which Python class it
lives in, the Coq name, and the TYPES of its parameters and self attributes.  Any statement / expression / call /
attribute that no rule covers raises Untranslatable.

Statements: docstring, `pass`, `raise E(...)`, `assert c`, `return e`, `x = e`, `a, b = e`, `self.attr = e` (declared
state), `d[k] = e`, `x op= e` on integers, `if / elif / else` (the rest of the block is continued in BOTH arms, so
there is no join and an early `return` / `raise` in an arm needs nothing special), `for targets in e:` (no `break`,
`continue`, `else`), `yield e` / `yield from e`, method-call statements on a mutable receiver, `super().__init__({..})`,
and the Amaranth statements `m.d.<domain> += lhs.eq(rhs)`, `with m.If(c): / m.Elif(c): / m.Else():`.
Every call of a translated method is a `let!` in evaluation order (left to right, hoisted in front of the statement;
a call inside the second operand of `and` / `or` would change that order and aborts).

How Python objects are represented (fixed vocabulary: coq/Lib/PyObj.v):
* int = Z; bool; str = string; an argument that may be None / a non-int is `pyint`, read through `pi_zof` after the
  `isinstance(.., int)` guard the code itself performs (the tie lemma quantifies over VInt / VNone / VBad, so a
  dropped guard breaks the lemma) - as translate2 does.
* an object handed to EventMap.add / index is `pyobj` = PSource id | POther id; `id(x)` = obj_id, `isinstance(x,
  Source)` = is_source.  Distinct objects <-> distinct integers.  `x.trigger` of such an object is the parameter
  `trigger_of : pyobj -> Trigger`; `x.i` / `x.trg` (the members of Source.Signature, taken from the translated
  dict) are the signals `ESub x "i"`.
* the dict `EventMap._sources` is an insertion-ordered association list keyed by the integer `id(src)`, values are
  the tuples `(src, index)` as stored: `dict()` = [], `len`, `k in d`, `d[k]` (KeyError when absent), `d[k] = v`
  (dict_set: an existing key keeps its place, a new one goes last), `d.values()`.  Any other use aborts.
* an EventMap object is the pair of its two attributes (`emap`); an argument that should be one is `pyemap` =
  PMap state | PNone | POtherMap, read through `emap_of` after the isinstance guard (as pi_zof).  A method that
  stores into self returns the new state; calling it on a variable rebinds the variable.  When a callee mutates an
  argument object (Source.event_map's setter freezes the map it is given; Monitor.__init__ passes its argument
  on to it) the callee's result carries the object's new state and the caller's variable is rebound to that result
  (the stored reference and the argument are the same Python object).
* mutable objects (dict, EventMap, Module, memory map) have ONE name each: `x = <existing mutable object>` aborts, so
  no update can reach an object through an alias the translation does not see.
* a generator method returns the list of what it yields, in order (so it can be iterated any number of times and
  every call yields afresh: a generator that keeps an iterator between calls does not translate).
* `enum.Enum` class -> an Inductive with one constructor per member, the list (member, value) and a boolean
  equality; `E(x)` is `enum_call` (a member is returned as is, else the first member whose value equals the string,
  else ValueError); the argument is `pyval` = VStr | VMember | VOtherVal.
* exceptions are `res` values; ValueError / TypeError / KeyError / AssertionError keep their name, every other
  exception class (AttributeError, ...) and reading an unbound local variable are OtherError.
* a local variable assigned on some paths only, inside a loop, is carried from one iteration to the next as an
  `option` (None = still unbound); reading it is `bound v`.
* wiring: `In(w)` / `Out(w)` = (DIn | DOut, w); a Signature / Component `super().__init__({...})` = the list of
  (name, member) in the dict's order; a Source.Signature object = (its members, its trigger).
* Amaranth: `Module()` = the empty list of `stmt`; `m.d.<dom> += a.eq(b)` appends `SAssign dom a b`; `with m.If(c)`
  appends `SIf c`, the body, `SEnd`.  Expressions are constructors of `expr` (~ & | ^ [k] .any() .all(),
  `Signal.like(e, name_suffix=s)` = ELike e s, `self.<port>` = EPort "<port>", integer constants = EConst).  Their
  bit semantics is NOT translated: the tie compares which source gets which formula at which index.
* objects of classes that are not translated (MemoryMap, Multiplexer, the register objects as resources) are
  uninterpreted: `MemoryMap(addr_width=, data_width=, alignment=)` followed by `add_resource` calls is the record of
  those calls in order (`mmtrace`); an object stored in `self.<attr>` is referred to as `XRoot "<attr>"`, attribute
  reads and argument-less method calls on it that no rule interprets build `XAttr` / `XMeth` terms; an assignment
  to an undeclared attribute path of self is appended to the list of (path, term) stores.
"""
import ast, os

from .translate import Untranslatable, BINOPS, find_func, attr_path


class UnknownYet(Exception):
    """discovery pass of a loop only: a path reads a carried variable whose type is not known yet"""


class V:
    """typed Coq expression; x = the same object as an uninterpreted term (objects held in self attributes)"""
    def __init__(self, s, t, x=None, port=None):
        self.s, self.t, self.x, self.port = s, t, x, port


COQT = {"Z": "Z", "bool": "bool", "str": "string", "obj": "pyobj", "pyint": "pyint", "pyemap": "pyemap",
        "sdict": "sdict", "emap": "emap", "port": "port", "sig": "expr", "module": "(list stmt)",
        "reg": "register", "field": "field", "mmtrace": "mmtrace", "xterm": "xterm", "pyname": "pyname",
        "unit": "unit", "mux": "mmtrace", "signature": "signature", "member": "(member signature)", "xmember": "(member signature)",
        "trigger_of": "(pyobj -> Trigger)"}


def coqt(t):
    if isinstance(t, tuple):
        if t[0] == "tuple":
            return "(" + " * ".join(coqt(x) for x in t[1]) + ")"
        if t[0] == "list":
            return f"(list {coqt(t[1])})"
        if t[0] == "maybe":
            return f"(option {coqt(t[1])})"
        if t[0] == "enum":
            return t[1]
        if t[0] == "pyval":
            return f"(pyval {t[1]})"
    if t in COQT:
        return COQT[t]
    raise Untranslatable(f"no Coq type for {t}")


def qs(s):
    if '"' in s or "\\" in s or "\n" in s:
        raise Untranslatable("string constant with a quote / backslash / newline")
    return f'"{s}"%string'


MUTABLE = ("sdict", "emap", "pyemap", "module", "mmtrace", "mux")    # objects that are updated in place
ENTRY = ("tuple", ("obj", "Z"))
MONITOR = ("tuple", (("list", ("tuple", ("str", "member"))), "pyemap"))
EXC = {"ValueError": "ValueError", "TypeError": "TypeError", "KeyError": "KeyError", "AssertionError": "AssertionError"}


def tup(parts):
    return parts[0] if len(parts) == 1 else "(" + ", ".join(parts) + ")"


def pat(parts):
    return parts[0] if len(parts) == 1 else "'(" + ", ".join(parts) + ")"


class World:
    """what has been generated so far: enums, callables, the member names of Source.Signature"""
    def __init__(self):
        self.enums = {}        # python path suffix, e.g. "Source.Trigger" -> {"type": "Trigger", "members": [...]}
        self.calls = {}        # (class, method) -> dict(coq, params=[types], ret=type, mutates_self=bool, kind)
        self.sig_ports = None  # names of the members of Source.Signature
        self.comp_ports = {}   # class -> {port path: kind}


class Fn:
    def __init__(self, world, spec):
        self.w, self.spec = world, spec
        self.n = 0
        self.ret_t = None
        self.discovery = False
        self.loops = []            # generated loop-body definitions (text), in order
        self.nloops = 0
        self.free_track = None     # (set of ids of outer V objects, ordered list of (coq name, type) used)

    def fresh(self, base):
        self.n += 1
        base = base.replace(".", "_").lstrip("_") or "v"
        return f"{base}_{self.n}"

    # ------------------------------------------------------------------ environment
    def lookup(self, key, env):
        v = env[key]
        if self.free_track is not None and id(v) in self.free_track[0]:
            if all(v is not u for u in self.free_track[1]):
                self.free_track[1].append(v)
        return v

    def read(self, key, env, pre):
        v = self.lookup(key, env)
        if isinstance(v.t, tuple) and v.t[0] == "maybe":
            if v.t[1] == "?":
                raise UnknownYet(key)
            nm = self.fresh(key)
            pre.append(("bind", nm, f"bound {v.s}"))
            return V(nm, v.t[1], v.x)
        return v

    @staticmethod
    def wrap(pre, text):
        for kind, p, e in reversed(pre):
            text = f"(let! {p} := {e} in\n  {text})" if kind == "bind" else f"(let {p} := {e} in\n  {text})"
        return text

    # ------------------------------------------------------------------ integers
    def asZ(self, v):
        if v.t == "Z":
            return v.s
        if v.t == "pyint":
            return f"(pi_zof {v.s})"
        raise Untranslatable(f"integer expected, got {v.t}: {v.s}")

    def as_pyint(self, v):
        if v.t == "pyint":
            return v.s
        if v.t == "Z":
            return f"(VInt {v.s})"
        raise Untranslatable(f"int-or-None expected, got {v.t}")

    def as_sig(self, v):
        if v.t == "sig":
            return v.s
        if v.t == "Z":
            return f"(EConst {v.s})"
        raise Untranslatable(f"signal expression expected, got {v.t}")

    # ------------------------------------------------------------------ expressions
    def enum_member(self, n):
        """Source.Trigger.LEVEL (any qualification ending in <Enum path>.<MEMBER>)"""
        try:
            p = attr_path(n)
        except Untranslatable:
            return None
        for suffix, e in self.w.enums.items():
            for q in (suffix, "event." + suffix):
                if p.startswith(q + ".") and p[len(q) + 1:] in e["members"]:
                    return V(f"{e['type']}_{p[len(q) + 1:]}", ("enum", e["type"]))
        return None

    def path_of(self, n):
        try:
            return attr_path(n)
        except Untranslatable:
            return None

    def expr(self, n, env, pre):
        if isinstance(n, ast.Constant):
            if isinstance(n.value, bool):
                return V("true" if n.value else "false", "bool")
            if isinstance(n.value, int):
                return V(f"({n.value})", "Z")
            if isinstance(n.value, str):
                return V(qs(n.value), "str")
            raise Untranslatable("constant " + repr(n.value))
        if isinstance(n, ast.Name):
            if n.id in env:
                return self.read(n.id, env, pre)
            raise Untranslatable(f"unknown name {n.id}")
        if isinstance(n, ast.Attribute):
            return self.attribute(n, env, pre)
        if isinstance(n, ast.Subscript):
            base = self.expr(n.value, env, pre)
            if isinstance(n.slice, ast.Slice):
                raise Untranslatable("slice")
            if isinstance(base.t, tuple) and base.t[0] == "tuple" and isinstance(n.slice, ast.Constant) \
                    and isinstance(n.slice.value, int) and not isinstance(n.slice.value, bool):
                k, ts = n.slice.value, base.t[1]             # t[k] of a tuple, constant k (negative from the end)
                if not -len(ts) <= k < len(ts):
                    raise Untranslatable("tuple index out of range")
                k %= len(ts)
                names = [self.fresh("proj") if j == k else "_" for j in range(len(ts))]
                return V(f"(let '({', '.join(names)}) := {base.s} in {names[k]})", ts[k])
            i = self.expr(n.slice, env, pre)
            if base.t == "sdict" and i.t == "Z":
                nm = self.fresh("item")
                pre.append(("bind", nm, f"(match dict_get {i.s} {base.s} with Some v => Ok v | None => Err KeyError end)"))
                return V(nm, ENTRY)
            if base.t == "sig" and i.t == "Z":
                return V(f"(EBit {base.s} {i.s})", "sig")
            raise Untranslatable(f"subscript of {base.t} by {i.t}")
        if isinstance(n, ast.BinOp):
            a = self.expr(n.left, env, pre); b = self.expr(n.right, env, pre)
            if a.t == "sig" or b.t == "sig":
                tab = {ast.BitAnd: "EAnd", ast.BitOr: "EOr", ast.BitXor: "EXor"}
                if type(n.op) in tab:
                    return V(f"({tab[type(n.op)]} {self.as_sig(a)} {self.as_sig(b)})", "sig")
                raise Untranslatable("operator on signals " + type(n.op).__name__)
            if type(n.op) in BINOPS:
                return V(f"({BINOPS[type(n.op)]} {self.asZ(a)} {self.asZ(b)})", "Z")
            raise Untranslatable("operator " + type(n.op).__name__)
        if isinstance(n, ast.UnaryOp):
            a = self.expr(n.operand, env, pre)
            if isinstance(n.op, ast.Invert):
                if a.t == "sig":
                    return V(f"(ENot {a.s})", "sig")
                return V(f"(Z.lnot {self.asZ(a)})", "Z")
            if isinstance(n.op, ast.USub):
                return V(f"(Z.opp {self.asZ(a)})", "Z")
            if isinstance(n.op, ast.Not):
                return V(self.cond(n, env, pre), "bool")
            raise Untranslatable("unary operator")
        if isinstance(n, (ast.Compare, ast.BoolOp)):
            return V(self.cond(n, env, pre), "bool")
        if isinstance(n, ast.Tuple):
            vs = [self.expr(e, env, pre) for e in n.elts]
            if not vs:
                raise Untranslatable("empty tuple")
            return V(tup([v.s for v in vs]), ("tuple", tuple(v.t for v in vs)))
        if isinstance(n, ast.Call):
            return self.call(n, env, pre)
        raise Untranslatable("expression " + ast.dump(n)[:100])

    def attribute(self, n, env, pre):
        p = self.path_of(n)
        if p is not None:
            if p in env:
                return self.read(p, env, pre)
            m = self.enum_member(n)
            if m is not None:
                return m
            g = self.spec.get("getters", {}).get(p)
            if g is not None:                     # a property of an object held by self: call its translated getter
                cls, prop, slot = g
                c = self.w.calls.get((cls, "get:" + prop))
                if c is None:
                    raise Untranslatable(f"property {cls}.{prop} has no translated getter")
                nm = self.fresh(prop)
                pre.append(("bind", nm, f"{c['coq']} {self.read(slot, env, pre).s}"))
                return V(nm, c["ret"])
            ports = self.spec.get("ports")
            if ports is not None and p.startswith("self.") and p[5:] in ports:
                return V(f"(EPort {qs(p[5:])})", "sig")
        if isinstance(n.value, ast.Name) and n.value.id == "self" and self.spec.get("selftype") == "emap":
            base = self.self_value(env)
        else:
            base = self.expr(n.value, env, pre)
        a = n.attr
        if base.t == "obj":
            if a == "trigger" and "trigger_of" in env:
                return V(f"({self.lookup('trigger_of', env).s} {base.s})", ("enum", "Trigger"))
            if self.w.sig_ports is not None and a in self.w.sig_ports:
                return V(f"(ESub {base.s} {qs(a)})", "sig")
            raise Untranslatable(f"attribute .{a} of an object")
        if base.t in ("pyemap", "emap"):
            c = self.w.calls.get(("EventMap", "get:" + a))
            if c is not None:
                recv = f"(emap_of {base.s})" if base.t == "pyemap" else base.s
                nm = self.fresh(a)
                pre.append(("bind", nm, f"{c['coq']} {recv}"))
                return V(nm, c["ret"])
            raise Untranslatable(f"attribute .{a} of an EventMap")
        if base.x is not None:
            return V(f"(XAttr {base.x} {qs(a)})", "xterm", f"(XAttr {base.x} {qs(a)})")
        raise Untranslatable(f"attribute .{a} of a value of type {base.t}")

    def self_value(self, env):
        """the current state of self (an EventMap) as one value"""
        parts = []
        for (path, base, t) in self.spec["state"]:
            if path not in env:
                raise Untranslatable(f"self used before {path} is set")
            parts.append(self.lookup(path, env).s)
        return V(tup(parts), "emap")

    def kwargs(self, n, names, required=()):
        """keyword (or leading positional) arguments by name -> dict name -> ast node"""
        out = {}
        if len(n.args) > len(names):
            raise Untranslatable("too many positional arguments: " + ast.unparse(n)[:80])
        for nm, a in zip(names, n.args):
            if isinstance(a, ast.Starred):
                raise Untranslatable("starred argument")
            out[nm] = a
        for k in n.keywords:
            if k.arg is None or k.arg not in names or k.arg in out:
                raise Untranslatable(f"keyword argument {k.arg} in " + ast.unparse(n)[:80])
            out[k.arg] = k.value
        for r in required:
            if r not in out:
                raise Untranslatable(f"missing argument {r} in " + ast.unparse(n)[:80])
        return out

    def call(self, n, env, pre):
        f = n.func
        fp = self.path_of(f)
        # ---- builtins
        if isinstance(f, ast.Name):
            if f.id == "len" and len(n.args) == 1 and not n.keywords:
                a = self.expr(n.args[0], env, pre)
                if a.t == "sdict":
                    return V(f"(dict_len {a.s})", "Z")
                if isinstance(a.t, tuple) and a.t[0] == "list":
                    return V(f"(Z.of_nat (List.length {a.s}))", "Z")
                raise Untranslatable(f"len of {a.t}")
            if f.id == "id" and len(n.args) == 1 and not n.keywords:
                a = self.expr(n.args[0], env, pre)
                if a.t == "obj":
                    return V(f"(obj_id {a.s})", "Z")
                raise Untranslatable(f"id of {a.t}")
            if f.id == "dict" and not n.args and not n.keywords:
                return V("[]", "sdict")
            if f.id in ("max", "min") and len(n.args) == 2 and not n.keywords:
                a = self.expr(n.args[0], env, pre); b = self.expr(n.args[1], env, pre)
                return V(f"(Z.{f.id} {self.asZ(a)} {self.asZ(b)})", "Z")
            if f.id == "ceil_log2" and len(n.args) == 1 and not n.keywords:
                return V(f"(ceil_log2 {self.asZ(self.expr(n.args[0], env, pre))})", "Z")
            if f.id in ("In", "Out") and len(n.args) == 1 and not n.keywords:
                d = "DIn" if f.id == "In" else "DOut"
                a = self.expr(n.args[0], env, pre)
                if a.t == "Z":
                    return V(f"({d}, {a.s})", "port", port=(d, a.s))
                if a.t == "signature":
                    return V(f"(MIface {d} {a.s})", "member")
                if a.t == "xterm":
                    return V(f"(MExt {d} {a.s})", "member")
                raise Untranslatable(f"{f.id}() of {a.t}")
            if f.id == "Field":
                kw = self.kwargs(n, ["action_cls", "shape", "access"], ["action_cls", "shape", "access"])
                if not isinstance(kw["action_cls"], ast.Name):
                    raise Untranslatable("Field action class")
                sh = self.expr(kw["shape"], env, pre); ac = self.expr(kw["access"], env, pre)
                if sh.t != "Z" or ac.t != "str":
                    raise Untranslatable("Field arguments")
                return V(f"({qs(kw['action_cls'].id)}, {sh.s}, {ac.s})", "field")
            if f.id == "Module" and not n.args and not n.keywords:
                return V("[]", "module")
            if f.id == "MemoryMap":
                kw = self.kwargs(n, ["addr_width", "data_width", "alignment"], ["addr_width", "data_width"])
                vals = {k: self.as_pyint(self.expr(v, env, pre)) for k, v in kw.items()}
                vals.setdefault("alignment", "(VInt 0)")     # MemoryMap's own default
                return V(f"{{| mt_addr_width := {vals['addr_width']}; mt_data_width := {vals['data_width']}; "
                         f"mt_alignment := {vals['alignment']}; mt_adds := [] |}}", "mmtrace")
            if f.id == "Multiplexer" and len(n.args) == 1 and not n.keywords:
                a = self.expr(n.args[0], env, pre)
                if a.t != "mmtrace":
                    raise Untranslatable("Multiplexer argument")
                return V(a.s, "mux")
        # ---- Signal.like(e, name_suffix=s)
        if fp == "Signal.like":
            kw = self.kwargs(n, ["other", "name_suffix"], ["other", "name_suffix"])
            if n.args[1:]:
                raise Untranslatable("Signal.like positional arguments")
            a = self.expr(kw["other"], env, pre); s = self.expr(kw["name_suffix"], env, pre)
            if a.t == "sig" and s.t == "str":
                return V(f"(ELike {a.s} {s.s})", "sig")
            raise Untranslatable("Signal.like arguments")
        # ---- enum lookup by value
        for suffix, e in self.w.enums.items():
            if fp in (suffix, "event." + suffix) and len(n.args) == 1 and not n.keywords:
                a = self.expr(n.args[0], env, pre)
                if a.t != ("pyval", e["type"]):
                    raise Untranslatable(f"{fp}() of {a.t}")
                nm = self.fresh(e["type"].lower())
                pre.append(("bind", nm, f"enum_call {e['type']}_members {a.s}"))
                return V(nm, ("enum", e["type"]))
        # ---- constructors of translated classes
        ctor = {"Source.Signature": "Signature", "event.Source.Signature": "Signature", "Monitor": "Monitor",
                "event.Monitor": "Monitor", "_EventMaskRegister": "_EventMaskRegister", "EventMap": "EventMap",
                "event.EventMap": "EventMap"}.get(fp)
        if ctor is not None:
            c = self.w.calls.get((ctor, "__init__"))
            if c is None:
                raise Untranslatable(f"{fp} is not translated (yet)")
            return self.invoke(c, None, n, env, pre)
        # ---- methods
        if isinstance(f, ast.Attribute):
            if isinstance(f.value, ast.Name) and f.value.id == "self" and self.spec.get("selftype") == "emap":
                recv = self.self_value(env)
            else:
                recv = self.expr(f.value, env, pre)
            a = f.attr
            if recv.t == "sig" and a in ("any", "all") and not n.args and not n.keywords:
                return V(f"({'EAny' if a == 'any' else 'EAll'} {recv.s})", "sig")
            if recv.t == "sdict" and a == "values" and not n.args and not n.keywords:
                return V(f"(dict_values {recv.s})", ("list", ENTRY))
            if recv.t in ("pyemap", "emap"):
                c = self.w.calls.get(("EventMap", a))
                if c is None:
                    raise Untranslatable(f"EventMap.{a} is not translated")
                if c["mutates_self"]:
                    raise Untranslatable(f"EventMap.{a}() stores into its object: only allowed as a statement")
                return self.invoke(c, f"(emap_of {recv.s})" if recv.t == "pyemap" else recv.s, n, env, pre)
            if recv.x is not None and not n.args and not n.keywords:
                return V(f"(XMeth {recv.x} {qs(a)})", "xterm", f"(XMeth {recv.x} {qs(a)})")
        raise Untranslatable("call " + ast.unparse(n)[:100])

    def invoke(self, c, recv, n, env, pre):
        """call of a translated function c; returns the bound result.  Arguments the callee mutates are rebound."""
        kw = self.kwargs(n, [p[0] for p in c["params"]])
        args = []
        for (pn, pt, default) in c["params"]:
            if pn in kw:
                v = self.expr(kw[pn], env, pre)
                args.append(self.coerce(v, pt))
            elif default is not None:
                args.append(default)
            else:
                raise Untranslatable(f"missing argument {pn} in " + ast.unparse(n)[:80])
        nm = self.fresh(c["coq"].replace("gen_", ""))
        pre.append(("bind", nm, " ".join([c["coq"]] + ([recv] if recv is not None else []) + args)))
        res = V(nm, c["ret"])
        for (pn, proj) in c.get("arg_state", {}).items():
            node = kw.get(pn)
            if not isinstance(node, ast.Name):
                raise Untranslatable(f"{c['coq']} mutates its argument {pn}: a plain variable is needed there")
            new = self.fresh(node.id)
            pre.append(("let", new, proj.format(nm)))
            env[node.id] = V(new, env[node.id].t)
        return res

    def coerce(self, v, t):
        if v.t == t:
            return v.s
        if t == "pyint" and v.t == "Z":
            return f"(VInt {v.s})"
        if isinstance(t, tuple) and t[0] == "pyval" and v.t == "str":
            return f"(VStr {v.s})"
        if isinstance(t, tuple) and t[0] == "pyval" and v.t == ("enum", t[1]):
            return f"(VMember {v.s})"
        raise Untranslatable(f"argument of type {v.t} where {t} is expected")

    # ------------------------------------------------------------------ conditions
    def cond(self, n, env, pre):
        if isinstance(n, ast.Constant) and isinstance(n.value, bool):
            return "true" if n.value else "false"
        if isinstance(n, ast.BoolOp):
            op = "&&" if isinstance(n.op, ast.And) else "||"
            parts = [self.cond(n.values[0], env, pre)]
            for v in n.values[1:]:
                p2 = []
                parts.append(self.cond(v, env, p2))
                if p2:
                    raise Untranslatable("a call that may raise inside the short-circuited operand of and/or")
            return "(" + f" {op} ".join(parts) + ")"
        if isinstance(n, ast.UnaryOp) and isinstance(n.op, ast.Not):
            return f"(negb {self.cond(n.operand, env, pre)})"
        if isinstance(n, ast.Compare) and len(n.ops) == 1:
            op = type(n.ops[0]); l, r = n.left, n.comparators[0]
            if op in (ast.Is, ast.IsNot) and isinstance(r, ast.Constant) and r.value is None:
                v = self.expr(l, env, pre)
                tst = {"pyint": "pi_is_none", "pyemap": "is_none_map"}.get(v.t)
                if tst is None:
                    raise Untranslatable(f"`is None` on a value of type {v.t}")
                return f"({tst} {v.s})" if op is ast.Is else f"(negb ({tst} {v.s}))"
            if op in (ast.In, ast.NotIn):
                k = self.expr(l, env, pre); d = self.expr(r, env, pre)
                if d.t == "sdict" and k.t == "Z":
                    return f"(dict_mem {k.s} {d.s})" if op is ast.In else f"(negb (dict_mem {k.s} {d.s}))"
                raise Untranslatable(f"`in` on {d.t}")
            a = self.expr(l, env, pre); b = self.expr(r, env, pre)
            if isinstance(a.t, tuple) and a.t[0] == "enum" and a.t == b.t and op in (ast.Eq, ast.NotEq):
                c = f"({a.t[1]}_eqb {a.s} {b.s})"
                return c if op is ast.Eq else f"(negb {c})"
            x, y = self.asZ(a), self.asZ(b)
            tab = {ast.Eq: "Z.eqb", ast.Lt: "Z.ltb", ast.LtE: "Z.leb", ast.Gt: "Z.gtb", ast.GtE: "Z.geb"}
            if op is ast.NotEq:
                return f"(negb (Z.eqb {x} {y}))"
            if op in tab:
                return f"({tab[op]} {x} {y})"
        if isinstance(n, ast.Call) and isinstance(n.func, ast.Name) and n.func.id == "isinstance" and len(n.args) == 2 \
                and not n.keywords:
            v = self.expr(n.args[0], env, pre)
            cls = self.path_of(n.args[1])
            if cls == "int" and v.t == "pyint":
                return f"(pi_is_int {v.s})"
            if cls == "int" and v.t == "Z":
                return "true"
            if cls in ("Source", "event.Source") and v.t == "obj":
                return f"(is_source {v.s})"
            if cls in ("EventMap", "event.EventMap") and v.t == "pyemap":
                return f"(is_map {v.s})"
            raise Untranslatable(f"isinstance({v.t}, {cls})")
        if isinstance(n, (ast.Name, ast.Attribute, ast.Call)):
            v = self.expr(n, env, pre)
            if v.t == "bool":
                return v.s
            raise Untranslatable(f"truth value of {v.t}")
        raise Untranslatable("condition " + ast.dump(n)[:120])

    # ------------------------------------------------------------------ statements
    def exc(self, st):
        e = st.exc
        if isinstance(e, ast.Call):
            e = e.func
        if isinstance(e, ast.Name) and (e.id.endswith("Error") or e.id.endswith("Exception")):
            return EXC.get(e.id, "OtherError")
        raise Untranslatable("raise " + ast.dump(st)[:80])

    def finish(self, env, value=None):
        """the function's result at a `return` / at the end of the body"""
        sp = self.spec
        parts, types = [], []
        if sp.get("returns_state"):
            for (path, base, t) in sp["state"]:
                if path not in env:
                    raise Untranslatable(f"{path} is not set on every path")
                v = env[path]
                if v.t != t:
                    raise Untranslatable(f"{path} holds a {v.t}, declared {t}")
                parts.append(v.s); types.append(t)
        if sp.get("generator"):
            if value is not None:
                raise Untranslatable("return with a value in a generator")
            parts.append(env["(yield)"].s); types.append(env["(yield)"].t)
        elif value is not None:
            parts.append(value.s); types.append(value.t)
        if sp.get("stores"):
            parts.append(env["(stores)"].s); types.append(env["(stores)"].t)
        if not parts:
            parts, types = ["tt"], ["unit"]
        t = types[0] if len(types) == 1 else ("tuple", tuple(types))
        if self.ret_t is None:
            self.ret_t = t
        elif self.ret_t != t:
            raise Untranslatable(f"paths return different types: {self.ret_t} / {t}")
        return f"(Ok {tup(parts)})"

    def block(self, body, env, k):
        """Coq text (type res T) of `body` followed by k(env)."""
        if not body:
            return k(env)
        st, rest = body[0], body[1:]
        env = dict(env)
        pre = []
        go = lambda e: self.block(rest, e, k)
        if isinstance(st, ast.Pass) or (isinstance(st, ast.Expr) and isinstance(st.value, ast.Constant)
                                        and isinstance(st.value.value, str)):
            return go(env)
        if isinstance(st, ast.Raise):
            if st.exc is None or st.cause is not None:
                raise Untranslatable("bare raise / raise from")
            return f"(Err {self.exc(st)})"
        if isinstance(st, ast.Assert):
            c = self.cond(st.test, env, pre)
            return self.wrap(pre, f"(if negb {c} then Err AssertionError else\n  {go(env)})")
        if isinstance(st, ast.Return):
            if st.value is None:
                return self.finish(env)
            v = self.expr(st.value, env, pre)
            return self.wrap(pre, self.finish(env, v))
        if isinstance(st, ast.Assign) and len(st.targets) == 1:
            return self.assign(st.targets[0], st.value, env, go)
        if isinstance(st, ast.AugAssign):
            return self.augassign(st, env, go)
        if isinstance(st, ast.Expr) and isinstance(st.value, (ast.Yield, ast.YieldFrom)):
            if not self.spec.get("generator") or st.value.value is None:
                raise Untranslatable("yield")
            v = self.expr(st.value.value, env, pre)
            acc = env["(yield)"]
            if isinstance(st.value, ast.YieldFrom):
                if not (isinstance(v.t, tuple) and v.t[0] == "list"):
                    raise Untranslatable(f"yield from a {v.t}")
                new, t = f"({acc.s} ++ {v.s})", v.t
            else:
                new, t = f"({acc.s} ++ [{v.s}])", ("list", v.t)
            if acc.t not in (("list", "?"), t):
                raise Untranslatable("yields of different types")
            nm = self.fresh("yielded")
            env["(yield)"] = V(nm, t)
            return self.wrap(pre, f"(let {nm} := {new} in\n  {go(env)})")
        if isinstance(st, ast.Expr) and isinstance(st.value, ast.Call):
            return self.call_stmt(st.value, env, go)
        if isinstance(st, ast.If):
            c = self.cond(st.test, env, pre)
            arms = []
            for arm in (st.body, st.orelse):
                try:
                    arms.append(self.block(arm, env, go))
                except UnknownYet:
                    if not self.discovery:
                        raise
                    arms.append("?")
            return self.wrap(pre, f"(if {c} then\n  {arms[0]}\n  else\n  {arms[1]})")
        if isinstance(st, ast.For):
            return self.loop(st, env, go)
        if isinstance(st, ast.With):
            return self.with_stmt(st, env, go)
        raise Untranslatable("statement " + ast.dump(st)[:120])

    def assign(self, t, value, env, go):
        pre = []
        # x = e
        if isinstance(t, ast.Name):
            v = self.expr(value, env, pre)
            if v.t == "mux":
                raise Untranslatable("a Multiplexer may only be stored in an attribute of self")
            if v.t in MUTABLE and not isinstance(value, ast.Call):
                raise Untranslatable(f"second name for a mutable object ({v.t}): aliasing is not modelled")
            nm = self.fresh(t.id)
            env[t.id] = V(nm, v.t, v.x)
            return self.wrap(pre, f"(let {nm} := {v.s} in\n  {go(env)})")
        # a, b = e
        if isinstance(t, ast.Tuple) and all(isinstance(e, ast.Name) for e in t.elts):
            v = self.expr(value, env, pre)
            if not (isinstance(v.t, tuple) and v.t[0] == "tuple" and len(v.t[1]) == len(t.elts)):
                raise Untranslatable(f"unpacking a {v.t} into {len(t.elts)} names")
            names = []
            for e, et in zip(t.elts, v.t[1]):
                nm = self.fresh(e.id)
                names.append(nm)
                env[e.id] = V(nm, et)
            return self.wrap(pre, f"(let '({', '.join(names)}) := {v.s} in\n  {go(env)})")
        # d[k] = e
        if isinstance(t, ast.Subscript) and not isinstance(t.slice, ast.Slice):
            dp = self.path_of(t.value)
            if dp is None or dp not in env:
                raise Untranslatable("store into " + ast.unparse(t))
            v = self.expr(value, env, pre)               # Python evaluates the right-hand side first
            d = self.read(dp, env, pre)
            kx = self.expr(t.slice, env, pre)
            if d.t == "sdict" and kx.t == "Z" and v.t == ENTRY:
                nm = self.fresh(dp)
                env[dp] = V(nm, "sdict")
                return self.wrap(pre, f"(let {nm} := dict_set {kx.s} {v.s} {d.s} in\n  {go(env)})")
            raise Untranslatable(f"store of a {v.t} into a {d.t} at a {kx.t}")
        if isinstance(t, ast.Attribute):
            p = self.path_of(t)
            if p is None:
                raise Untranslatable("assignment target " + ast.unparse(t))
            # declared state attribute of self
            for (path, base, ty) in self.spec.get("state", []):
                if path == p:
                    v = self.expr(value, env, pre) if not (isinstance(value, ast.Constant) and value.value is None) \
                        else V("PNone", "none")
                    if isinstance(value, ast.Constant) and value.value is None and ty == "pyemap":
                        v = V("PNone", "pyemap")
                    if v.t != ty:
                        raise Untranslatable(f"{p} is declared {ty}, assigned a {v.t}")
                    nm = self.fresh(base)
                    x = f"(XRoot {qs(p[5:])})" if ty in ("reg", "mux") or ty == MONITOR else None
                    env[p] = V(nm, ty, x)
                    return self.wrap(pre, f"(let {nm} := {v.s} in\n  {go(env)})")
            # property with a translated setter, of an object held by self
            s = self.spec.get("setters", {}).get(p)
            if s is not None:
                cls, prop, slot = s
                c = self.w.calls.get((cls, "set:" + prop))
                if c is None:
                    raise Untranslatable(f"property {cls}.{prop} has no translated setter")
                v = self.expr(value, env, pre)
                (pn, pt, _), = c["params"]
                nm = self.fresh(slot)
                pre.append(("bind", nm, f"{c['coq']} {self.coerce(v, pt)}"))
                env[slot] = V(nm, c["ret"])
                if isinstance(value, ast.Name):      # the argument object IS the stored object
                    env[value.id] = V(nm, c["ret"])
                return self.wrap(pre, go(env))
            # any other attribute path of self: recorded as an uninterpreted store
            if self.spec.get("stores") and p.startswith("self."):
                v = self.expr(value, env, pre)
                if v.t != "xterm":
                    raise Untranslatable(f"store of a {v.t} into {p}")
                path = "[" + "; ".join(qs(x) for x in p.split(".")[1:]) + "]"
                nm = self.fresh("stores")
                old = env["(stores)"]
                env["(stores)"] = V(nm, old.t)
                return self.wrap(pre, f"(let {nm} := {old.s} ++ [({path}, {v.s})] in\n  {go(env)})")
        raise Untranslatable("assignment target " + ast.unparse(t))

    def augassign(self, st, env, go):
        pre = []
        t = st.target
        # m.d.<domain> += lhs.eq(rhs)
        if isinstance(t, ast.Attribute) and isinstance(t.value, ast.Attribute) and t.value.attr == "d" \
                and isinstance(t.value.value, ast.Name) and isinstance(st.op, ast.Add):
            mname = t.value.value.id
            if mname in env:
                m = self.read(mname, env, pre)
                if m.t == "module":
                    dom = {"comb": "DComb", "sync": "DSync"}.get(t.attr)
                    c = st.value
                    if dom is None or not (isinstance(c, ast.Call) and isinstance(c.func, ast.Attribute)
                                           and c.func.attr == "eq" and len(c.args) == 1 and not c.keywords):
                        raise Untranslatable("module statement " + ast.unparse(st)[:100])
                    lhs = self.expr(c.func.value, env, pre); rhs = self.expr(c.args[0], env, pre)
                    if lhs.t != "sig":
                        raise Untranslatable("assignment to a non-signal")
                    nm = self.fresh(mname)
                    env[mname] = V(nm, "module")
                    return self.wrap(pre, f"(let {nm} := {m.s} ++ [SAssign {dom} {lhs.s} {self.as_sig(rhs)}] in\n  {go(env)})")
        if isinstance(t, ast.Name) and t.id in env and type(st.op) in BINOPS:
            cur = self.read(t.id, env, pre)
            v = self.expr(st.value, env, pre)
            if cur.t in ("Z", "pyint"):
                nm = self.fresh(t.id)
                env[t.id] = V(nm, "Z")
                return self.wrap(pre, f"(let {nm} := ({BINOPS[type(st.op)]} {self.asZ(cur)} {self.asZ(v)}) in\n  {go(env)})")
        raise Untranslatable("augmented assignment " + ast.unparse(st)[:100])

    def members_dict(self, d, env, pre):
        """{"name": In(..)/Out(..)/Field(..), ...} -> list of (name, value), in order"""
        if not isinstance(d, ast.Dict) or not d.keys:
            raise Untranslatable("members must be a non-empty dict literal")
        items = []
        for kx, vx in zip(d.keys, d.values):
            if not (isinstance(kx, ast.Constant) and isinstance(kx.value, str)):
                raise Untranslatable("member name")
            items.append((kx.value, self.expr(vx, env, pre)))
        ts = {v.t for _, v in items}
        if ts <= {"port"}:
            et = "port"
        elif ts <= {"field"}:
            et = "field"
        elif ts <= {"port", "member"}:
            et = "member"
            items = [(k, V(f"(MPort {v.port[0]} {v.port[1]})", "member") if v.t == "port" else v) for k, v in items]
        else:
            raise Untranslatable(f"members of types {ts}")
        text = "[" + "; ".join(f"({qs(k)}, {v.s})" for k, v in items) + "]"
        self.iface_members = [k for k, v in items if v.s.startswith("(MIface ")]
        return V(text, ("list", ("tuple", ("str", et)))), [k for k, _ in items]

    def call_stmt(self, c, env, go):
        pre = []
        f = c.func
        # super().__init__({...})
        if isinstance(f, ast.Attribute) and f.attr == "__init__" and isinstance(f.value, ast.Call) \
                and isinstance(f.value.func, ast.Name) and f.value.func.id == "super" and not f.value.args:
            slot = self.spec.get("members")
            if slot is None or len(c.args) != 1 or c.keywords:
                raise Untranslatable("super().__init__ call")
            v, names = self.members_dict(c.args[0], env, pre)
            (path, base, ty), = [s for s in self.spec["state"] if s[0] == slot]
            if v.t != ty:
                raise Untranslatable(f"members are a {v.t}, declared {ty}")
            if path in env:
                raise Untranslatable("super().__init__ called twice")
            self.member_names = names
            nm = self.fresh(base)
            env[path] = V(nm, ty)
            return self.wrap(pre, f"(let {nm} := {v.s} in\n  {go(env)})")
        if isinstance(f, ast.Attribute):
            rp = self.path_of(f.value)
            if rp is not None and rp in env:
                recv = self.read(rp, env, pre)
                # method of an EventMap that stores into it: the receiver variable is rebound
                if recv.t == "pyemap":
                    m = self.w.calls.get(("EventMap", f.attr))
                    if m is None:
                        raise Untranslatable(f"EventMap.{f.attr} is not translated")
                    if not m["mutates_self"] or m["ret"] != "emap":
                        raise Untranslatable(f"result of EventMap.{f.attr}() discarded")
                    r = self.invoke(m, f"(emap_of {recv.s})", c, env, pre)
                    nm = self.fresh(rp)
                    env[rp] = V(nm, "pyemap")
                    pre.append(("let", nm, f"PMap {r.s}"))
                    return self.wrap(pre, go(env))
                # memory_map.add_resource(obj, name=, size=, addr=, alignment=)
                if recv.t == "mmtrace" and f.attr == "add_resource":
                    kw = self.kwargs(c, ["resource", "name", "size", "addr", "alignment"], ["resource", "name", "size"])
                    if len(c.args) > 1:
                        raise Untranslatable("add_resource positional arguments")
                    r = self.expr(kw["resource"], env, pre)
                    if r.x is None:
                        raise Untranslatable("add_resource of an object that is not held by self")
                    nmx = kw["name"]
                    if isinstance(nmx, ast.Constant) and isinstance(nmx.value, str):
                        name = f"(NmStr {qs(nmx.value)})"
                    elif isinstance(nmx, ast.Tuple) and nmx.elts and all(isinstance(e, ast.Constant) and isinstance(e.value, str) for e in nmx.elts):
                        name = "(NmTuple [" + "; ".join(qs(e.value) for e in nmx.elts) + "])"
                    else:
                        raise Untranslatable("add_resource name")
                    opt = lambda k: self.as_pyint(self.expr(kw[k], env, pre)) if k in kw and not (
                        isinstance(kw[k], ast.Constant) and kw[k].value is None) else "VNone"
                    size = self.as_pyint(self.expr(kw["size"], env, pre))
                    call = (f"{{| ac_res := {r.x}; ac_name := {name}; ac_size := {size}; ac_addr := {opt('addr')}; "
                            f"ac_alignment := {opt('alignment')} |}}")
                    nm = self.fresh(rp)
                    env[rp] = V(nm, "mmtrace")
                    return self.wrap(pre, f"(let {nm} := mm_add {recv.s} {call} in\n  {go(env)})")
        raise Untranslatable("call statement " + ast.unparse(c)[:100])

    def with_stmt(self, st, env, go):
        pre = []
        if len(st.items) != 1 or st.items[0].optional_vars is not None:
            raise Untranslatable("with statement")
        c = st.items[0].context_expr
        if not (isinstance(c, ast.Call) and isinstance(c.func, ast.Attribute) and isinstance(c.func.value, ast.Name)
                and c.func.value.id in env and not c.keywords):
            raise Untranslatable("with " + ast.unparse(c)[:80])
        mname = c.func.value.id
        m = self.read(mname, env, pre)
        kind = c.func.attr
        if m.t != "module" or kind not in ("If", "Elif", "Else"):
            raise Untranslatable("with " + ast.unparse(c)[:80])
        if kind == "Else":
            if c.args:
                raise Untranslatable("m.Else() takes no argument")
            tok = "SElse"
        else:
            if len(c.args) != 1:
                raise Untranslatable(f"m.{kind}() takes one argument")
            tok = f"S{kind} {self.as_sig(self.expr(c.args[0], env, pre))}"
        nm = self.fresh(mname)
        env[mname] = V(nm, "module")

        def close(e):
            e = dict(e)
            p2 = []
            m2 = self.read(mname, e, p2)
            if m2.t != "module":
                raise Untranslatable("module variable rebound inside a with block")
            nm2 = self.fresh(mname)
            e[mname] = V(nm2, "module")
            return self.wrap(p2, f"(let {nm2} := {m2.s} ++ [SEnd] in\n  {go(e)})")
        return self.wrap(pre, f"(let {nm} := {m.s} ++ [{tok}] in\n  {self.block(st.body, env, close)})")

    # ------------------------------------------------------------------ loops
    def loop(self, st, env, go):
        pre = []
        if st.orelse:
            raise Untranslatable("for ... else")
        for x in ast.walk(st):
            if isinstance(x, (ast.Break, ast.Continue)):
                raise Untranslatable("break / continue")
            if isinstance(x, (ast.Return, ast.Yield, ast.YieldFrom)):
                raise Untranslatable("return / yield inside a loop")
        it = self.expr(st.iter, env, pre)
        if not (isinstance(it.t, tuple) and it.t[0] == "list"):
            raise Untranslatable(f"iteration over a {it.t}")
        et = it.t[1]
        if isinstance(st.target, ast.Name):
            targets, ttypes = [st.target.id], [et]
        elif isinstance(st.target, ast.Tuple) and all(isinstance(e, ast.Name) for e in st.target.elts) \
                and isinstance(et, tuple) and et[0] == "tuple" and len(et[1]) == len(st.target.elts):
            targets, ttypes = [e.id for e in st.target.elts], list(et[1])
        else:
            raise Untranslatable("loop target")
        if len(set(targets)) != len(targets):
            raise Untranslatable("repeated loop target")
        # names bound somewhere in the body that are not bound before the loop
        new = []
        for x in ast.walk(ast.Module(body=st.body, type_ignores=[])):
            if isinstance(x, ast.Name) and isinstance(x.ctx, ast.Store) and x.id not in env and x.id not in targets \
                    and x.id not in new:
                new.append(x.id)
        # ---- discovery: which bindings differ at the end of some path, and the types of the new names
        ends = []
        env_d = dict(env)
        for nm, t in zip(targets, ttypes):
            env_d[nm] = V(nm, t)
        for nm in new:
            env_d[nm] = V(nm, ("maybe", "?"))
        saved = (self.discovery, self.n, self.free_track, list(self.loops), self.nloops)
        self.discovery, self.free_track = True, None

        def record(e):
            ends.append(e)
            return "?"
        try:
            self.block(st.body, env_d, record)
        except UnknownYet as u:
            raise Untranslatable(f"loop body reads {u} before any path binds it")
        self.discovery, self.n, self.free_track, self.loops, self.nloops = saved
        if not ends:
            raise Untranslatable("loop body never reaches its end")
        ntype = {}
        for nm in new:
            ts = set()
            for e in ends:
                t = e[nm].t
                t = t[1] if isinstance(t, tuple) and t[0] == "maybe" else t
                if t != "?":
                    ts.add(t)
            if len(ts) != 1:
                raise Untranslatable(f"cannot type loop variable {nm}: {ts}")
            ntype[nm] = ts.pop()
        changed = [k for k in env if k not in targets and any(e[k] is not env_d[k] for e in ends)]
        for k in changed:
            if any(e[k].t != env[k].t for e in ends):
                raise Untranslatable(f"{k} changes type inside the loop")
        for nm in targets:
            if nm in env:
                changed = [k for k in changed if k != nm]
        carried = [(k, env[k].t) for k in changed] + [(nm, ("maybe", ntype[nm])) for nm in new]
        # ---- the loop body as a definition of its own
        self.nloops += 1
        fname = f"{self.spec['coq']}_loop{self.nloops}"
        env_b = dict(env)
        for nm in targets:
            env_b.pop(nm, None)
        outer = {id(v): v for k, v in env_b.items()}
        cnames, tnames = [], []
        for (k, t) in carried:
            nm = self.fresh(k)
            cnames.append(nm)
            env_b[k] = V(nm, t, env[k].x if k in env else None)
        for nm, t in zip(targets, ttypes):
            cn = self.fresh(nm)
            tnames.append(cn)
            env_b[nm] = V(cn, t)
        saved_track = self.free_track
        self.free_track = (set(outer) - {id(env[k]) for k, _ in carried if k in env}, [])

        def end(e):
            vals = []
            for (k, t) in carried:
                v = e[k]
                if v.t == t:
                    vals.append(v.s)
                elif isinstance(t, tuple) and t[0] == "maybe" and v.t == t[1]:
                    vals.append(f"(Some {v.s})")
                else:
                    raise Untranslatable(f"{k}: {v.t} at the end of the loop body, carried as {t}")
            return f"(Ok {tup(vals) if vals else 'tt'})"
        body = self.block(st.body, env_b, end)
        used = self.free_track[1]
        self.free_track = saved_track
        params = [(p[1], p[2]) for p in self.spec["params"]]
        pnames = {p[0] for p in params}
        frees = [(v.s, v.t) for v in used if v.s not in pnames]
        for (s, t) in frees:
            if not s.replace("_", "a").isalnum():
                raise Untranslatable(f"loop body uses the compound outer value {s}")
        if saved_track is not None:          # nested loop: the inner body's free variables are the outer body's too
            for v in used:
                if id(v) in saved_track[0] and all(v is not u for u in saved_track[1]):
                    saved_track[1].append(v)
        ctype = "unit" if not carried else coqt(("tuple", tuple(t for _, t in carried))) if len(carried) > 1 else coqt(carried[0][1])
        sig = " ".join(f"({n} : {coqt(t)})" for n, t in params + frees)
        self.loops.append(
            f"Definition {fname} {sig} (carried : {ctype}) (item : {coqt(et)}) : res {ctype} :=\n"
            f"  let {pat(cnames) if cnames else '_'} := carried in let {pat(tnames)} := item in\n  {body}.\n")
        # ---- the loop itself
        init = []
        for (k, t) in carried:
            init.append(self.lookup(k, env).s if k in env else "None")
        after = []
        for (k, t) in carried:
            nm = self.fresh(k)
            after.append(nm)
            env[k] = V(nm, t, env[k].x if k in env else None)
        for nm in targets:
            env.pop(nm, None)           # reading a loop target after the loop is not supported
        call = " ".join([fname] + [p[0] for p in params] + [s for s, _ in frees])
        text = (f"(let! {pat(after) if after else '_'} := fold_res ({call}) {it.s} {tup(init) if init else 'tt'} in\n"
                f"  {go(env)})")
        return self.wrap(pre, text)


# ---------------------------------------------------------------------------------------------------- driver

def class_node(tree, path):
    node = tree
    for name in path:
        for ch in node.body:
            if isinstance(ch, ast.ClassDef) and ch.name == name:
                node = ch
                break
        else:
            raise Untranslatable("cannot find class " + ".".join(path))
    return node


def method_node(cls, name, decorator=None):
    """the FunctionDef `name` of the class; decorator: None (plain method), "property", "<name>.setter" """
    found = []
    for ch in cls.body:
        if isinstance(ch, ast.FunctionDef) and ch.name == name:
            decs = [ast.unparse(d) for d in ch.decorator_list]
            if decs == ([decorator] if decorator else []):
                found.append(ch)
    if len(found) != 1:
        raise Untranslatable(f"{cls.name}.{name} ({decorator or 'method'}): found {len(found)} definitions")
    return found[0]


def check_params(fn, spec):
    """every Python parameter is either declared in the spec or listed as ignored; defaults are constants"""
    a = fn.args
    if a.vararg or a.kwarg or a.posonlyargs:
        raise Untranslatable(f"{fn.name}: *args / **kwargs")
    names = [x.arg for x in a.args + a.kwonlyargs]
    defaults = dict(zip([x.arg for x in a.args][len(a.args) - len(a.defaults):], a.defaults))
    defaults.update({x.arg: d for x, d in zip(a.kwonlyargs, a.kw_defaults) if d is not None})
    declared = [p[0] for p in spec["params"] if p[0] is not None]
    if len(set(names)) != len(names):
        raise Untranslatable(f"{fn.name}: repeated parameter")
    allowed = set(declared) | set(spec.get("ignored", [])) | {"self"}
    if set(names) - allowed or set(declared) - set(names):
        raise Untranslatable(f"{fn.name}: parameters {names}, expected {sorted(allowed)}")
    return names, defaults


def default_text(node, t):
    """a parameter default as a Coq value of the parameter's type"""
    if isinstance(node, ast.Constant):
        if isinstance(node.value, str) and isinstance(t, tuple) and t[0] == "pyval":
            return f"(VStr {qs(node.value)})"
        if isinstance(node.value, int) and not isinstance(node.value, bool) and t == "pyint":
            return f"(VInt ({node.value}))"
        if node.value is None and t == "pyint":
            return "VNone"
    raise Untranslatable("parameter default " + ast.unparse(node))


def gen_enum(world, cls, pypath, out):
    """class C(enum.Enum): NAME = "value" ... -> Inductive C, C_members, C_eqb"""
    if [ast.unparse(b) for b in cls.bases] != ["enum.Enum"] or cls.keywords or cls.decorator_list:
        raise Untranslatable(f"{cls.name}: not a plain enum.Enum")
    members = []
    for st in cls.body:
        if isinstance(st, ast.Expr) and isinstance(st.value, ast.Constant) and isinstance(st.value.value, str):
            continue
        if isinstance(st, ast.Assign) and len(st.targets) == 1 and isinstance(st.targets[0], ast.Name) \
                and isinstance(st.value, ast.Constant) and isinstance(st.value.value, str):
            members.append((st.targets[0].id, st.value.value))
            continue
        raise Untranslatable(f"{cls.name}: statement " + ast.unparse(st)[:60])
    if not members or len({m for m, _ in members}) != len(members):
        raise Untranslatable(f"{cls.name}: members")
    T = cls.name
    world.enums[pypath] = {"type": T, "members": [m for m, _ in members]}
    out.append(f"(* {pypath} *)")
    out.append(f"Inductive {T} := " + " | ".join(f"{T}_{m}" for m, _ in members) + ".")
    out.append(f"Definition {T}_members : list ({T} * string) := [" + "; ".join(f"({T}_{m}, {qs(v)})" for m, v in members) + "].")
    cases = " | ".join(f"{T}_{m}, {T}_{m} => true" for m, _ in members)
    out.append(f"Definition {T}_eqb (a b : {T}) : bool := match a, b with {cases}" + (" | _, _ => false" if len(members) > 1 else "") + " end.")
    out.append("")


def stores_into_self(fn):
    """does the body assign to an attribute of self / to an item of one"""
    for x in ast.walk(fn):
        if isinstance(x, (ast.Assign, ast.AugAssign)):
            for t in (x.targets if isinstance(x, ast.Assign) else [x.target]):
                for y in ([t] if not isinstance(t, ast.Tuple) else t.elts):
                    if isinstance(y, ast.Subscript):
                        y = y.value
                    if isinstance(y, ast.Attribute):
                        try:
                            if attr_path(y).startswith("self."):
                                return True
                        except Untranslatable:
                            pass
    return False


def gen_function(world, tree, spec, out):
    spec = dict(spec)
    cls = class_node(tree, spec["cls"])
    fn = method_node(cls, spec["py"], spec.get("decorator"))
    names, defaults = check_params(fn, spec)
    f = Fn(world, spec)
    env = {}
    for (py, coq, t) in spec["params"]:
        env[py if py is not None else coq] = V(coq, t)
    for path, coq in spec.get("envpaths", {}).items():
        env[path] = env[coq]
    prologue = ""
    state = spec.get("state", [])
    if state and not spec.get("init"):               # a method of an object with declared state: self is a parameter
        nms = []
        for (path, base, t) in state:
            env[path] = V(base, t)
            nms.append(base)
        if nms != [spec["self"]]:
            prologue = f"let {pat(nms)} := {spec['self']} in\n  "
    if spec.get("class_kw"):                         # class C(Base, access="rw"): the keyword is part of the object
        kws = [(k.arg, k.value) for k in cls.keywords]
        if [k for k, _ in kws] != [spec["class_kw"]] or not (isinstance(kws[0][1], ast.Constant)
                                                             and isinstance(kws[0][1].value, str)):
            raise Untranslatable(f"{cls.name}: class keywords")
        env[f"({spec['class_kw']})"] = V(qs(kws[0][1].value), "str")
    elif isinstance(cls, ast.ClassDef) and cls.keywords and spec.get("init"):
        raise Untranslatable(f"{cls.name}: class keywords")
    if spec.get("generator"):
        env["(yield)"] = V("[]", ("list", "?"))
    if spec.get("stores"):
        env["(stores)"] = V("[]", ("list", ("tuple", (("list", "str"), "xterm"))))
    has_yield = any(isinstance(x, (ast.Yield, ast.YieldFrom)) for x in ast.walk(fn))
    if has_yield != bool(spec.get("generator")):
        raise Untranslatable(f"{fn.name}: is {'a' if has_yield else 'not a'} generator")
    mutates = stores_into_self(fn)
    spec["returns_state"] = bool(state) and (mutates or bool(spec.get("init")))
    if mutates and not state and not spec.get("stores"):
        raise Untranslatable(f"{fn.name}: stores into self")
    body = f.block(fn.body, env, lambda e: f.finish(e))
    if f.ret_t is None:
        raise Untranslatable(f"{fn.name}: never returns")
    if "?" in repr(f.ret_t):
        raise Untranslatable(f"{fn.name}: generator that yields nothing")
    params = []
    if state and not spec.get("init"):
        params.append((spec["self"], spec["selftype"]))
    params += [(coq, t) for (_, coq, t) in spec["params"]]
    sig = " ".join(f"({n} : {coqt(t)})" for n, t in params)
    src = f"{spec['file']}: {'.'.join(spec['cls'])}.{spec['py']}" + (f" ({spec['decorator']})" if spec.get("decorator") else "")
    out.append(f"(* {src} *)")
    out += f.loops
    out.append(f"Definition {spec['coq']}{' ' if sig else ''}{sig} : res {coqt(f.ret_t)} :=\n  {prologue}{body}.\n")
    callparams = [(py, t, default_text(defaults[py], t) if py in defaults else None)
                  for (py, _, t) in spec["params"] if py is not None]
    key = spec["py"] if not spec.get("decorator") else ("get:" if spec["decorator"] == "property" else "set:") + spec["py"]
    ret = spec.get("ret_as", f.ret_t)
    if state and spec.get("selftype") and ret == (("tuple", tuple(t for _, _, t in state)) if len(state) > 1 else state[0][2]):
        ret = spec["selftype"]                        # the new state of self
    world.calls[(spec["cls"][-1], key)] = {"coq": spec["coq"], "params": callparams, "ret": ret,
                                          "mutates_self": spec["returns_state"] and not spec.get("init"),
                                          "arg_state": spec.get("arg_state", {})}
    if "ret_as" in spec and coqt(spec["ret_as"]) is None:
        raise Untranslatable("ret_as")
    for (py, t, d) in callparams:
        if d is not None:
            out.append(f"Definition {spec['coq']}_default_{py} : {coqt(t)} := {d}.")
    if any(d is not None for _, _, d in callparams):
        out.append("")
    return f


EV = "amaranth_soc/event.py"
CSR = "amaranth_soc/csr/event.py"
TRIG = ("pyval", "Trigger")
EMAP_STATE = [("self._sources", "self__sources", "sdict"), ("self._frozen", "self__frozen", "bool")]
EMAP = {"file": EV, "cls": ["EventMap"], "self": "self_", "selftype": "emap", "state": EMAP_STATE}
PORTS = ("list", ("tuple", ("str", "port")))
MEMBERS = ("list", ("tuple", ("str", "member")))
FIELDS = ("list", ("tuple", ("str", "field")))

# per method: where it is, its Coq name, and the TYPES of parameters / self attributes.  Nothing about the body.
METHODS = [
    {"file": EV, "cls": ["Source", "Signature"], "py": "__init__", "coq": "gen_signature_init", "init": True,
     "self": "self_", "params": [("trigger", "trigger", TRIG)], "members": "(members)", "ret_as": "signature",
     "state": [("(members)", "members", PORTS), ("self._trigger", "self__trigger", ("enum", "Trigger"))]},
    dict(EMAP, py="__init__", coq="gen_emap_init", init=True, params=[]),
    dict(EMAP, py="size", decorator="property", coq="gen_emap_size", params=[]),
    dict(EMAP, py="freeze", coq="gen_emap_freeze", params=[]),
    dict(EMAP, py="add", coq="gen_emap_add", params=[("src", "src", "obj")]),
    dict(EMAP, py="index", coq="gen_emap_index", params=[("src", "src", "obj")]),
    dict(EMAP, py="sources", coq="gen_emap_sources", params=[], generator=True),
    # Source.event_map: the setter's result is the new value of self._event_map (the same object as its argument)
    {"file": EV, "cls": ["Source"], "py": "event_map", "decorator": "event_map.setter", "coq": "gen_source_set_event_map",
     "self": "self_", "init": True, "params": [("event_map", "event_map", "pyemap")],
     "state": [("self._event_map", "self__event_map", "pyemap")]},
    {"file": EV, "cls": ["Source"], "py": "event_map", "decorator": "property", "coq": "gen_source_get_event_map",
     "self": "self__event_map", "selftype": "pyemap", "state": [("self._event_map", "self__event_map", "pyemap")],
     "params": []},
    # Monitor: state = the members handed to Component.__init__ and the _event_map slot of its `src` interface
    {"file": EV, "cls": ["Monitor"], "py": "__init__", "coq": "gen_monitor_init", "init": True, "self": "self_",
     "params": [("event_map", "event_map", "pyemap"), ("trigger", "trigger", TRIG)], "members": "(members)",
     "state": [("(members)", "members", MEMBERS), ("self.src._event_map", "self_src__event_map", "pyemap")],
     "setters": {"self.src.event_map": ("Source", "event_map", "self.src._event_map")},
     "arg_state": {"event_map": "(snd {})"}},
    {"file": EV, "cls": ["Monitor"], "py": "elaborate", "coq": "gen_monitor_elaborate", "ignored": ["platform"],
     "params": [(None, "self_src__event_map", "pyemap"), (None, "trigger_of", "trigger_of")],
     "envpaths": {"self.src._event_map": "self_src__event_map"},
     "getters": {"self.src.event_map": ("Source", "event_map", "self.src._event_map")},
     "ports_of": "Monitor"},
    {"file": CSR, "cls": ["_EventMaskRegister"], "py": "__init__", "coq": "gen_maskreg_init", "init": True,
     "self": "self_", "params": [("width", "width", "Z")], "members": "(fields)", "class_kw": "access", "ret_as": "reg",
     "state": [("(access)", "access", "str"), ("(fields)", "fields", FIELDS)]},
    {"file": CSR, "cls": ["EventMonitor"], "py": "__init__", "coq": "gen_evmon_init", "init": True, "self": "self_",
     "ignored": ["name"], "stores": True, "members": "(members)",
     "params": [("event_map", "event_map", "pyemap"), ("trigger", "trigger", TRIG),
                ("data_width", "data_width", "pyint"), ("alignment", "alignment", "pyint")],
     "state": [("self._monitor", "self__monitor", MONITOR), ("self._enable", "self__enable", "reg"),
               ("self._pending", "self__pending", "reg"), ("self._mux", "self__mux", "mux"),
               ("(members)", "members", MEMBERS)]},
]

HEADER = ["(* GENERATED on every run by harness/translate6.py from /repo's current source. Do not edit. *)",
          "From Coq Require Import String ZArith List Bool.",
          "From Soc Require Import Lib.Bits Lib.Res Lib.PyObj.",
          "Import ListNotations.", "Open Scope Z_scope.", ""]


def generate(repo):
    trees = {f: ast.parse(open(os.path.join(repo, f)).read()) for f in (EV, CSR)}
    w = World()
    out = list(HEADER)
    gen_enum(w, class_node(trees[EV], ["Source", "Trigger"]), "Source.Trigger", out)
    out += ["(* a Source.Signature object: the members handed to wiring.Signature.__init__, and self._trigger *)",
            "Definition signature := (list (string * port) * Trigger)%type.", ""]
    for spec in METHODS:
        spec = dict(spec)
        if spec.get("ports_of"):
            spec["ports"] = w.comp_ports[spec["ports_of"]]
        f = gen_function(w, trees[spec["file"]], spec, out)
        if spec["coq"] == "gen_signature_init":
            w.sig_ports = list(f.member_names)       # x.i / x.trg of a source object
        if spec["coq"] == "gen_monitor_init":
            # self.<port> for the members with a width; self.src.<member of Source.Signature> for the interface
            names = list(f.member_names)
            w.comp_ports["Monitor"] = [n for n in names if n not in f.iface_members] + \
                [f"{n}.{p}" for n in f.iface_members for p in w.sig_ports]
    return "\n".join(out) + "\n"


# what runner.check_kernels runs for a property whose propdef sets the flag
STAGES = [("eventmap", "EventGen.v", generate, "TieEvent.v")]

if __name__ == "__main__":
    import sys
    print(generate(sys.argv[1] if len(sys.argv) > 1 else "/repo"))
