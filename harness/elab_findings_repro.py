"""Reproducers for the defects the `elab` engine (C19) found in /repo while it was built.
Run:  PYTHONPATH=/repo /venv/bin/python harness/elab_findings_repro.py
Each line prints what happens on the tree under PYTHONPATH; on the repaired tree every line says 'elaborates'
or 'refused with ValueError'.  (E1 = F11-F13, E2 = F14, K2 in known_findings.json.)"""
import warnings
warnings.simplefilter("ignore")
from amaranth.hdl import Fragment
from amaranth.lib import wiring
from amaranth.lib.wiring import Out
from amaranth import Module
from amaranth_soc import csr
from amaranth_soc.csr import action
from amaranth_soc.memory import MemoryMap


def attempt(label, build):
    try:
        dut = build()
    except (ValueError, TypeError) as e:
        print(f"{label}: refused with {type(e).__name__}")
        return
    except Exception as e:
        print(f"{label}: REFUSED WITH {type(e).__name__}: {e}")
        return
    try:
        Fragment.get(dut, None)
        Fragment.get(dut, None)
        print(f"{label}: elaborates (twice)")
    except Exception as e:
        print(f"{label}: ELABORATION RAISED {type(e).__name__}: {str(e)[:100]}")


def rw8():
    return csr.Register(csr.Field(action.RW, 8), access="rw")


# E1 (a): csr.Register field paths ("a","b") and ("a__b",) join to the same submodule name  -> NameError
attempt("E1a register fields a.b / a__b",
        lambda: csr.Register({"a": {"b": csr.Field(action.RW, 2)}, "a__b": csr.Field(action.RW, 2)}, access="rw"))
attempt("E1a' register fields a[0] / a__0",
        lambda: csr.Register({"a": [csr.Field(action.RW, 2)], "a__0": csr.Field(action.RW, 2)}, access="rw"))


# E1 (b): csr.Bridge register names ("a__0",) and ("a","0"); a register called "mux"          -> NameError
def bridge1():
    b = csr.Builder(addr_width=8, data_width=8)
    b.add("a__0", rw8())
    with b.Cluster("a"):
        b.add("0", rw8())
    return csr.Bridge(b.as_memory_map())


def bridge2():
    b = csr.Builder(addr_width=8, data_width=8)
    b.add("mux", rw8())
    return csr.Bridge(b.as_memory_map())


attempt("E1b bridge names a__0 / a.0", bridge1)
attempt("E1b' bridge register named mux", bridge2)

# E2: storage actions over a range() shape that does not contain the (default) init -> SyntaxError
attempt("E2 action.RW(range(1, 5))", lambda: action.RW(range(1, 5)))
attempt("E2' action.RW1C(range(4), init=4)", lambda: action.RW1C(range(4), init=4))


# K2: hundreds of readable registers -> RecursionError (one shared chunk / one chunk each)
class Reg(wiring.Component):
    def __init__(self):
        super().__init__({"element": Out(csr.Element.Signature(8, "rw"))})

    def elaborate(self, platform):
        return Module()


def bigmux(ov):
    mm = MemoryMap(addr_width=12, data_width=8)
    for i in range(1100):
        mm.add_resource(Reg(), name=(f"r{i}",), size=1)
    return csr.Multiplexer(mm, shadow_overlaps=ov)


attempt("K2 1100 one-byte registers, shared chunk", lambda: bigmux(None))
attempt("K2' 1100 one-byte registers, one chunk each", lambda: bigmux(0))
