"""Fail-closed translator for the interface signatures and port declarations of /repo (DESIGN §4.2, stage 9).

Regenerates Gen/SigGen.v from the CURRENT source on every run; Gen/TieSig.v proves the result equal to
Model/Wiring.v for all arguments.  Nothing is looked up by method name: the classes are DISCOVERED (every class
of amaranth_soc/**.py deriving from enum.Enum, wiring.Signature, wiring.PureInterface, wiring.Component) and their
bodies are translated statement by statement by the rules below; what is outside the rules raises Untranslatable.

How Python objects are represented (coq/Lib/PyWire.v holds the specified, untranslated part):
  int                         Z; an ARGUMENT that the code tests with isinstance(x, int) / `is None` / `in (8, 16, ..)`
                              is a `pyint` (VInt | VNone | VBad).  After `if not isinstance(x, int) or ..: raise` and
                              after `if x not in (c1, ..): raise` x is known to be an int and is read as `zof x : Z`
                              (a non-int never equals an int constant: floats like 8.0 are outside the domain).
                              Arithmetic on a pyint that was NOT validated also reads `zof` (as translate2 does).
  enum.Enum subclass          an Inductive with one constructor per member, `<E>_eqb`, the table `<E>_values`
                              (member, raw value) in definition order, `<E>_call` = EnumClass(arg) (PyWire.enum_call:
                              a member is returned unchanged, a raw value is looked up, otherwise ValueError), and
                              `<E>_shape` = Shape.cast(EnumClass) (explicit `shape=` keyword, else PyWire.enum_shape
                              over the integer values).  Methods (`readable`) become functions.
  argument of EnumClass(..)   `earg E` = EMem member | ERaw (RStr s | RInt z | ROther)
  frozenset(E(f) for f in it) `it : list (earg E)` (any iterable, consumed once, in order), the set is the LIST of
                              members; only `x in s` (fset_mem) and `s == t` (fset_eqb, mutual inclusion) are
                              supported, every other use of the set aborts.
  shape-like argument         PyWire.shapelike (SLInt n | SLCast w s | SLBad): isinstance(x, ShapeLike) = is_shapelike,
                              Shape.cast(x) = shape_cast (TypeError for SLBad and negative ints); a Shape is (width, signed).
  In(x) / Out(x)              x an int n: the port (flow, (n, false)) - Amaranth's own refusal of a negative n is not
                              modelled; unsigned(n)/signed(n); a Shape; a shape-like argument (cast first, may raise);
                              an Enum class (its shape); a signature object: an interface member.  .array(n) prepends.
  dict                        ordered association list with string keys (pdict): display, d[k] = v (dict_set),
                              d.update(e) / {.., **e} (dict_update), `k in d`, dict(pairs).  The display is emitted as a
                              plain list when all keys are distinct constants, through dict_of otherwise.
  signature object            a Record per class: one field per `self._x = ..` of __init__ (sorted by name) plus
                              `<C>_members`; a VALUE of signature type is (flipped?, record): .flip() negates the flag,
                              attribute reads and isinstance() ignore it (FlippedSignature forwards both).
                              `gsig` is the sum of all signature records (for __eq__'s `other` and for members).
  interface object            Record with `<C>_signature : bool * <SigRecord>`; path= / src_loc_at= are naming/debug
                              arguments and are dropped, as is every parameter for which no use gives a type.
                              `self._x = None` is not tracked.  A value is (flipped?, record); isinstance(v, Class) is
                              false for a flipped one, isinstance(v, wiring.FlippedInterface) is the flag.
  exceptions                  `res` (Lib/Res.v); AttributeError / NameError / .. are OtherError.
  component                   Record with `<C>_ports : pdict (pmember gsig)` (the dict handed to Component.__init__) and,
                              for every key of the display whose value is a (non-array) signature with a create()
                              method, `<C>_port_<key>`: the interface Component.__init__ creates from it (create() is
                              really called there: a refusal is a refusal of the component).
  abstract classes            event.EventMap is represented by its `size` (ABSTRACT below); nothing else of it is used.
  plain helper classes        (memory.MemoryMap, csr.Builder) __init__ is translated like a signature's; stores of
                              constants / empty containers / zero-argument constructor calls make the attribute untracked.

Statement rules (methods of enum / signature classes, and create / __eq__: STRICT - anything else aborts):
  docstring, pass; `raise E(..)`; `return e`; `x = e`; `x op= e`; `self._x = e`; `d[k] = e`; `d.update(e)`;
  `if c: [message building] raise E(..)`; `if/elif/else` whose arms assign locals (joined; pure when no arm can raise);
  `super().__init__(..)` (signature: the members dict; interface: the signature; component: the ports dict, or the
  call of a library base class's __init__); `obj.attr = e` where attr has a setter in obj's class (the setter is
  translated as its refusals; its stores are effects outside the model).
  Properties are inlined at every use (body = docstring + `return e`) and also emitted as `gen_<C>_get_<p>`.
  `isinstance(other, C) and rest` narrows `other : gsig` to C's record inside `rest`.

LENIENT contexts (__init__ of components and plain classes, property setters): a statement outside the rules becomes an
OPAQUE STEP: the generated function gets a parameter `oN : option exn` (None = the statement returns, Some e = it
raises e) consumed at that point (consecutive opaque statements share one parameter); every local it assigns that
had a data type before becomes a fresh PARAMETER of that type (the function is parametric in what the untranslated
code computes), every other target becomes unusable.  Mutation of tracked values by an opaque statement is not
modelled (tracked values are ints, enum members, records of them).  So the arity of a generated function changes
whenever a translated statement becomes opaque or vice versa, and the tie file stops compiling.
Classes deriving from csr.Register (other than Register itself) and component classes without an own __init__ are
not translated: their port declaration is the inherited one.

Further rules:
  * a one-armed `if c: x = f(x)` over one variable is emitted as `((if c then (fun x => f x) else (fun x => x)) x)`:
    the same value as `if c then f x else x`, with the old value occurring once (zeta-expansion stays linear).
  * every default value of a tracked __init__ parameter is emitted as `gen_<C>_default_<param>` (the generated
    functions take all arguments explicitly; Gen/TieSig.v pins the defaults).
  * MemoryData(depth=d, ..) / Memory(data) of amaranth.lib.memory (EXT_OBJECTS) are opaque steps whose result has the
    one attribute `depth`.
  * fail closed at class level: a decorator other than @property / @x.setter on a translated method, a class-level
    rebinding of a method name, a class-level annotation, or any other class-level statement in an enumeration /
    signature / interface class aborts; of two definitions of one name the later one is translated.
  * parameter types are inferred from use: isinstance(p, int) / `p is None` / `p in (ints)` -> pyint;
    isinstance(p, ShapeLike) / Shape.cast(p) -> shapelike; EnumClass(p) -> earg; `EnumClass(x) for x in p` -> iterable of
    earg; isinstance(p, LibraryClass) -> object of that class; dict(p) -> dict of members; p handed to another
    constructor / method of the same class -> that parameter's type; also through `q = p` / `q = flipped(p)`.
    A parameter with no such use is dropped (path, src_loc_at, name, init, ...): using it aborts (strict) or
    makes the statement opaque (lenient).
What is NOT seen: parameter names / keyword-only-ness (a renamed parameter changes nothing generated unless a library
caller uses it), Amaranth's own refusal of In(negative int), initial values of members (none are declared), the
elaborate() methods, __repr__."""
import ast, os

from .translate import Untranslatable, BINOPS, attr_path

PKG = "amaranth_soc"

# abstract classes: represented by the listed observations only
ABSTRACT = {("event.py", "EventMap"): [("size", "Z")]}

# Amaranth classes whose instances are used for one attribute: the call itself is an opaque step (it may raise);
# if it returns, `depth` of MemoryData(depth=d, ..) is d and Memory(data).depth is data.depth
EXT_OBJECTS = {"MemoryData": ("kw", ("depth",)), "Memory": ("fwd", ("depth",))}

EXN = {"ValueError": "ValueError", "TypeError": "TypeError", "KeyError": "KeyError", "AssertionError": "AssertionError"}
DATA = ("Z", "pyint", "bool", "shape", "shapelike", "str")


def cstr(s):
    if '"' in s or "\\" in s or not s.isascii():
        raise Untranslatable(f"string constant {s!r}")
    return f'"{s}"%string'


# ---------------------------------------------------------------------------------------------- the library

class Lib:
    def __init__(self, repo):
        self.root = os.path.join(repo, PKG)
        self._mods = {}
        self._classes = {}

    def files(self):
        out = []
        for d, _, fs in os.walk(self.root):
            for f in fs:
                if f.endswith(".py"):
                    out.append(os.path.relpath(os.path.join(d, f), self.root))
        return sorted(out)

    def mod(self, rel):
        if rel not in self._mods:
            p = os.path.join(self.root, rel)
            if not os.path.isfile(p):
                raise Untranslatable(f"no module {rel}")
            self._mods[rel] = ast.parse(open(p).read())
        return self._mods[rel]

    def classes(self, rel):
        """qualname -> ClassDef, nested classes included, in source order"""
        if rel not in self._classes:
            out = {}

            def walk(body, prefix):
                for st in body:
                    if isinstance(st, ast.ClassDef):
                        out[prefix + st.name] = st
                        walk(st.body, prefix + st.name + ".")
            walk(self.mod(rel).body, "")
            self._classes[rel] = out
        return self._classes[rel]

    def cls(self, key):
        return self.classes(key[0])[key[1]]

    def _target(self, rel, level, module):
        """file of `from <level dots><module> import ..` seen from rel; None when outside the library"""
        if level == 0:
            return None
        d = os.path.dirname(rel)
        for _ in range(level - 1):
            d = os.path.dirname(d)
        parts = module.split(".") if module else []
        base = os.path.normpath(os.path.join(d, *parts)) if parts else (d or ".")
        base = "" if base == "." else base
        for cand in (base + ".py" if base else None, os.path.join(base, "__init__.py")):
            if cand and os.path.isfile(os.path.join(self.root, cand)):
                return cand
        raise Untranslatable(f"import target {level} {module} from {rel}")

    def glob(self, rel, name, seen=()):
        """what the module-level name `name` of module rel is: ("class", key) | ("mod", rel) | ("ext", dotted) | None"""
        if (rel, name) in seen:
            return None
        seen = seen + ((rel, name),)
        tree = self.mod(rel)
        for st in tree.body:
            if isinstance(st, ast.ClassDef) and st.name == name:
                return ("class", (rel, name))
            if isinstance(st, ast.FunctionDef) and st.name == name:
                return ("func", (rel, name))
        found = None
        for st in tree.body:
            if isinstance(st, ast.ImportFrom):
                tgt = self._target(rel, st.level, st.module)
                for al in st.names:
                    if al.name == "*":
                        if tgt is not None:
                            r = self.glob(tgt, name, seen)
                            if r is not None and r[0] != "ext":
                                found = r
                        continue
                    if (al.asname or al.name) != name:
                        continue
                    if tgt is None:
                        found = ("ext", f"{st.module}.{al.name}")
                        continue
                    # a submodule / subpackage of the target package, or a name defined in it
                    if os.path.basename(tgt) == "__init__.py":
                        d = os.path.dirname(tgt)
                        for cand in (os.path.join(d, al.name + ".py"), os.path.join(d, al.name, "__init__.py")):
                            if os.path.isfile(os.path.join(self.root, cand)):
                                found = ("mod", cand)
                                break
                        else:
                            found = self.glob(tgt, al.name, seen)
                    else:
                        found = self.glob(tgt, al.name, seen)
            elif isinstance(st, ast.Import):
                for al in st.names:
                    if (al.asname or al.name.split(".")[0]) == name:
                        found = ("ext", al.name)
        return found

    def resolve(self, rel, node):
        """a Name / dotted Attribute chain as a module-level reference, or None"""
        parts = []
        while isinstance(node, ast.Attribute):
            parts.append(node.attr)
            node = node.value
        if not isinstance(node, ast.Name):
            return None
        parts.append(node.id)
        parts.reverse()
        cur = self.glob(rel, parts[0])
        if cur is None:
            cur = ("ext", parts[0])      # `from amaranth import *`, builtins
        for p in parts[1:]:
            if cur[0] == "mod":
                cur = self.glob(cur[1], p)
                if cur is None:
                    return None
            elif cur[0] == "class":
                k = (cur[1][0], cur[1][1] + "." + p)
                if k[1] in self.classes(k[0]):
                    cur = ("class", k)
                else:
                    cur = ("classattr", cur[1], p)
            elif cur[0] == "ext":
                cur = ("ext", cur[1] + "." + p)
            else:
                return None
        return cur


EXT_BASES = {"amaranth.lib.enum.Enum": "enum", "amaranth.lib.wiring.Signature": "sig",
             "amaranth.lib.wiring.PureInterface": "iface", "amaranth.lib.wiring.Component": "comp"}


def cname(key):
    rel, q = key
    m = rel[:-3].replace(os.sep, "_")
    for suf in ("_bus", "_reg", "___init__"):
        if m.endswith(suf):
            m = m[: -len(suf)]
    return m + "_" + q.replace(".", "_")


class V:
    """typed Coq expression.  t: "Z" "pyint" "bool" "str" "none" "opaque" "shape" "shapelike" "port" "member" "gsig"
    ("enum", k) ("earg", k) ("fset", k) ("eiter", k) ("dict", "port"|"member") ("obj", k) ("sigv", k) ("ifv", k)
    ("comp", k) ("cls", k) ("mod", rel) ("self", k).  sigv / ifv: s is the record, flip the Coq boolean."""
    def __init__(self, s, t, **kw):
        self.s, self.t = s, t
        self.flip = "false"
        self.__dict__.update(kw)


def neg(b):
    return {"true": "false", "false": "true"}.get(b, f"(negb {b})")


def bxor(a, b):
    if a == "false":
        return b
    if b == "false":
        return a
    if a == "true":
        return neg(b)
    if b == "true":
        return neg(a)
    return f"(xorb {a} {b})"


# ---------------------------------------------------------------------------------------------- class records

class Info:
    """what is known about a translated class"""
    def __init__(self, key, kind):
        self.key, self.kind, self.cn = key, kind, cname(key)
        self.fields = []        # [(python attr, type)] of the record, besides members / signature / ports
        self.params = []        # [(python name, type, default node or None)] of __init__, opaque ones dropped
        self.extra = []         # [(coq name, coq type)] opaque-step parameters of __init__
        self.rtype = None       # type of the object __init__ yields
        self.members = {}       # enum: member name -> constructor
        self.iface = None       # signature class: key of the interface class create() returns
        self.ports = {}         # component: port name -> interface class key, for the created interface attributes
        self.setters = {}       # attr -> (coq name, [(pname, type)], extra)
        self.methods = {}       # enum methods: name -> (coq name, result type)
        self.rec = None         # record type name actually used (a derived component uses its base's)


class Ctx:
    def __init__(self, key, kind, lenient=False, ret=None):
        self.key, self.kind, self.lenient, self.ret = key, kind, lenient, ret
        self.extra = []         # [(coq name, coq type)]
        self.n = 0
        self.mon = 0            # number of monadic constructs emitted so far

    def fresh(self, base):
        self.n += 1
        base = "".join(c if c.isalnum() or c == "_" else "_" for c in base)
        return f"{base}_{self.n}"


class T:
    def __init__(self, repo):
        self.lib = Lib(repo)
        self.info = {}
        self.busy = set()
        self.sec = {k: [] for k in ("enum", "sig", "gsig", "eq", "plain", "iface", "create", "comp")}
        self._kind = {}
        self._ptypes = {}
        self.sigs = []          # signature classes in discovery order

    # ---- classification
    def kind(self, key, seen=()):
        if key in self._kind:
            return self._kind[key]
        if key in ABSTRACT:
            self._kind[key] = "abstract"
            return "abstract"
        if key in seen:
            raise Untranslatable(f"inheritance cycle at {key}")
        c = self.lib.cls(key)
        k = "plain"
        for b in c.bases:
            r = self.lib.resolve(key[0], b)
            if r is None:
                continue
            if r[0] == "ext" and r[1] in EXT_BASES:
                k = EXT_BASES[r[1]]
            elif r[0] == "class":
                kk = self.kind(r[1], seen + (key,))
                if kk != "plain":
                    k = kk
        self._kind[key] = k
        return k

    def base_class(self, key):
        """the library class `key` derives from, if any"""
        for b in self.lib.cls(key).bases:
            r = self.lib.resolve(key[0], b)
            if r is not None and r[0] == "class":
                return r[1]
        return None

    def derives(self, key, anc):
        while key is not None:
            if key == anc:
                return True
            key = self.base_class(key)
        return False

    def find_def(self, key, name, setter=False):
        """FunctionDef `name` in class key or its library bases -> (defining class key, node)"""
        k = key
        while k is not None:
            if k not in ABSTRACT:
                found = None
                for st in self.lib.cls(k).body:
                    if isinstance(st, ast.FunctionDef) and st.name == name:
                        decs = [ast.unparse(d) for d in st.decorator_list]
                        if [d for d in decs if d not in ("property", f"{name}.setter", f"{name}.getter")]:
                            raise Untranslatable(f"{k[1]}.{name}: decorator {decs}")
                        if setter == (f"{name}.setter" in decs):
                            found = st          # a later definition replaces an earlier one
                    elif isinstance(st, (ast.Assign, ast.AnnAssign, ast.AugAssign)):
                        tg = st.targets if isinstance(st, ast.Assign) else [st.target]
                        if any(isinstance(t, ast.Name) and t.id == name for t in tg):
                            raise Untranslatable(f"{k[1]}.{name} is rebound at class level")
                if found is not None:
                    return k, found
            k = self.base_class(k)
        return None, None

    def check_class_body(self, key, kind):
        """class-level statements that could change what the translated methods mean"""
        for st in self.lib.cls(key).body:
            if isinstance(st, (ast.FunctionDef, ast.ClassDef, ast.Pass)) or \
                    (isinstance(st, ast.Expr) and isinstance(st.value, ast.Constant)):
                continue
            if isinstance(st, ast.AnnAssign):
                raise Untranslatable(f"{key[1]}: class-level annotation (Component members by annotation are not supported)")
            if kind == "comp" and isinstance(st, ast.Assign) and all(
                    isinstance(t, ast.Name) and t.id.startswith("_") for t in st.targets):
                continue                     # private class attributes (doc templates)
            raise Untranslatable(f"{key[1]}: class-level statement {ast.unparse(st)[:50]}")

    def is_property(self, fn):
        return any(ast.unparse(d) == "property" for d in fn.decorator_list)

    # ---- Coq types
    def ctype(self, t):
        if t in ("Z", "pyint", "bool", "shape", "shapelike", "gsig"):
            return t
        if t == "str":
            return "string"
        if t == "port":
            return "pport"
        if t == "member":
            return "(pmember gsig)"
        if isinstance(t, tuple):
            if t[0] == "enum":
                return cname(t[1])
            if t[0] == "earg":
                return f"(earg {cname(t[1])})"
            if t[0] == "fset":
                return f"(list {cname(t[1])})"
            if t[0] == "eiter":
                return f"(list (earg {cname(t[1])}))"
            if t[0] == "dict":
                return "(pdict pport)" if t[1] == "port" else "(pdict (pmember gsig))"
            if t[0] in ("obj", "comp"):
                return self.need(t[1]).rec
            if t[0] in ("sigv", "ifv"):
                return f"(bool * {self.need(t[1]).rec})"
        raise Untranslatable(f"no Coq type for {t}")

    def pack(self, v):
        """a value as an argument of its Coq type"""
        if isinstance(v.t, tuple) and v.t[0] in ("sigv", "ifv"):
            return f"({v.flip}, {v.s})"
        return v.s

    def unpack(self, name, t):
        """the V of a parameter `name` of type t"""
        if isinstance(t, tuple) and t[0] in ("sigv", "ifv"):
            return V(f"(snd {name})", t, flip=f"(fst {name})")
        return V(name, t)

    def coerce(self, v, t):
        """v as a value of type t (argument passing, joins)"""
        if v.t == t:
            return v
        if t == "pyint":
            if v.t == "Z":
                return V(f"(VInt {v.s})", t)
            if v.t == "none":
                return V("VNone", t)
        if t == "Z" and v.t == "pyint":
            return V(f"(zof {v.s})", "Z")
        if isinstance(t, tuple) and t[0] == "earg":
            if v.t == ("enum", t[1]):
                return V(f"(EMem {v.s})", t)
            if v.t == "str":
                return V(f"(ERaw (RStr {v.s}))", t)
            if v.t == "Z":
                return V(f"(ERaw (RInt {v.s}))", t)
        if isinstance(t, tuple) and t[0] == "eiter" and v.t == ("fset", t[1]):
            return V(f"(map EMem {v.s})", t)
        if t == "shapelike":
            if v.t == "shape":
                return V(f"(SLCast (fst {v.s}) (snd {v.s}))", t)
            if v.t == "Z":
                return V(f"(SLInt {v.s})", t)
        if t == ("dict", "member") and v.t == ("dict", "port"):
            return V(f"(map (fun kv => (fst kv, m_port (snd kv))) {v.s})", t)
        if t == "member" and v.t == "port":
            return V(f"(m_port {v.s})", t, flow=getattr(v, "flow", None), sigv=None, arr=False)
        raise Untranslatable(f"cannot pass a {v.t} where a {t} is expected: {v.s}")

    def unify(self, a, b):
        if a == b:
            return a
        if {a, b} <= {"Z", "pyint", "none"}:
            return "pyint"
        raise Untranslatable(f"branches give different types {a} / {b}")

    # ---- parameter types
    def func_params(self, fn):
        a = fn.args
        if a.vararg or a.kwarg or a.posonlyargs:
            raise Untranslatable(f"{fn.name}: *args / **kwargs")
        names = [x.arg for x in a.args]
        defaults = [None] * (len(names) - len(a.defaults)) + list(a.defaults)
        out = list(zip(names, defaults, [False] * len(names)))
        out += [(x.arg, d, True) for x, d in zip(a.kwonlyargs, a.kw_defaults)]
        return out[1:] if names and names[0] == "self" else out

    def param_types(self, key, fname, setter=False, seen=()):
        """types of the parameters of method fname of class key, inferred from how the body uses them"""
        ck = (key, fname, setter)
        if ck in self._ptypes:
            return self._ptypes[ck]
        if ck in seen:
            return {}
        dk, fn = self.find_def(key, fname, setter)
        if fn is None:
            raise Untranslatable(f"{key[1]} has no {fname}")
        rel = dk[0]
        strong, weak = {}, {}

        def put(tab, p, t):
            if p in tab and tab[p] != t:
                if {tab[p], t} <= {"pyint", "Z"}:
                    tab[p] = "pyint"
                    return
                raise Untranslatable(f"{key[1]}.{fname}: parameter {p} used as {tab[p]} and as {t}")
            tab[p] = t

        pnames = {p for p, _, _ in self.func_params(fn)}

        # a local that is only another name for a parameter (x = p, x = flipped(p)) gives evidence about p
        alias = {}
        for n in ast.walk(fn):
            if isinstance(n, ast.Assign) and len(n.targets) == 1 and isinstance(n.targets[0], ast.Name):
                v = n.value
                if isinstance(v, ast.Call) and len(v.args) == 1 and not v.keywords:
                    rr = self.lib.resolve(rel, v.func)
                    if rr is not None and rr[0] == "ext" and rr[1].split(".")[-1] == "flipped":
                        v = v.args[0]
                if isinstance(v, ast.Name) and v.id in pnames and n.targets[0].id not in pnames:
                    alias[n.targets[0].id] = v.id

        def pname(n):
            if isinstance(n, ast.Name):
                return n.id if n.id in pnames else alias.get(n.id)
            return None

        def callee_params(call):
            """(class key) whose __init__ receives the arguments of this call, or None"""
            f = call.func
            if isinstance(f, ast.Attribute) and f.attr == "__init__" and ast.unparse(f.value) == "super()":
                return self.base_class(dk)
            r = self.lib.resolve(rel, f)
            if r is not None and r[0] == "class" and self.kind(r[1]) != "enum":
                return r[1]
            return None

        def own_method(call):
            f = call.func
            if isinstance(f, ast.Attribute) and isinstance(f.value, ast.Name) and f.value.id == "self":
                _, m = self.find_def(key, f.attr)
                if m is not None and not self.is_property(m):
                    return f.attr
            return None

        for n in ast.walk(fn):
            if isinstance(n, ast.Call):
                r = self.lib.resolve(rel, n.func)
                ext = r[1].split(".")[-1] if r is not None and r[0] == "ext" else None
                if ext == "isinstance" and len(n.args) == 2 and pname(n.args[0]):
                    p = pname(n.args[0])
                    cr = self.lib.resolve(rel, n.args[1])
                    if cr == ("ext", "int"):
                        put(strong, p, "pyint")
                    elif cr is not None and cr[0] == "ext" and cr[1].endswith("ShapeLike"):
                        put(strong, p, "shapelike")
                    elif cr is not None and cr[0] == "class":
                        k = self.kind(cr[1])
                        put(strong, p, ({"sig": "sigv", "iface": "ifv"}.get(k, "obj"), cr[1]))
                elif r is not None and r[0] == "class" and self.kind(r[1]) == "enum" and len(n.args) == 1 and pname(n.args[0]):
                    put(strong, pname(n.args[0]), ("earg", r[1]))
                elif r is not None and r[0] == "ext" and r[1].endswith("Shape.cast") and len(n.args) == 1 and pname(n.args[0]):
                    put(strong, pname(n.args[0]), "shapelike")
                elif ext == "dict" and len(n.args) == 1 and pname(n.args[0]):
                    put(strong, pname(n.args[0]), ("dict", "member"))
                elif ext in ("In", "Out") and len(n.args) == 1 and pname(n.args[0]):
                    put(weak, pname(n.args[0]), "shapelike")
                else:
                    ck2 = callee_params(n)
                    meth = "__init__"
                    if ck2 is None and own_method(n):
                        ck2, meth = key, own_method(n)      # an argument handed to a method of the same class
                    if ck2 is not None and ck2 not in ABSTRACT:
                        _, cfn = self.find_def(ck2, meth)
                        try:
                            cps = self.func_params(cfn) if cfn is not None else None
                        except Untranslatable:
                            cps = None
                        if cps is not None:
                            ct = self.param_types(ck2, meth, False, seen + (ck,))
                            pos = [p for p, _, kw in cps if not kw]
                            for i, a in enumerate(n.args):
                                if pname(a) and i < len(pos) and pos[i] in ct:
                                    put(strong, pname(a), ct[pos[i]])
                            for kwd in n.keywords:
                                if kwd.arg and pname(kwd.value) and kwd.arg in ct:
                                    put(strong, pname(kwd.value), ct[kwd.arg])
            elif isinstance(n, ast.Compare) and len(n.ops) == 1 and pname(n.left):
                op, rhs = n.ops[0], n.comparators[0]
                if isinstance(op, (ast.Is, ast.IsNot)) and isinstance(rhs, ast.Constant) and rhs.value is None:
                    put(weak, pname(n.left), "pyint")
                elif isinstance(op, (ast.In, ast.NotIn)) and isinstance(rhs, ast.Tuple) and \
                        all(isinstance(e, ast.Constant) and isinstance(e.value, int) for e in rhs.elts):
                    put(strong, pname(n.left), "pyint")
            elif isinstance(n, ast.GeneratorExp) and len(n.generators) == 1 and pname(n.generators[0].iter):
                g = n.generators[0]
                if isinstance(n.elt, ast.Call) and len(n.elt.args) == 1 and ast.unparse(n.elt.args[0]) == ast.unparse(g.target):
                    r = self.lib.resolve(rel, n.elt.func)
                    if r is not None and r[0] == "class" and self.kind(r[1]) == "enum":
                        put(strong, pname(g.iter), ("eiter", r[1]))
        out = dict(weak)
        out.update(strong)
        if fname == "__eq__":
            for p in pnames:
                out[p] = "gsig"
        self._ptypes[ck] = out
        return out

    # ---------------------------------------------------------------------------------------- expressions
    def asZ(self, v):
        if v.t == "Z":
            return v.s
        if v.t == "pyint":
            return f"(zof {v.s})"
        raise Untranslatable(f"integer expected, got {v.t}: {v.s}")

    def bind(self, pre, ctx, base, text, t, **kw):
        nm = ctx.fresh(base)
        pre.append((nm, text))
        ctx.mon += 1
        return V(nm, t, **kw)

    def get_attr(self, obj, name, env, pre, ctx):
        t = obj.t
        if t == "shape" and name in ("width", "signed"):
            return V(f"({'fst' if name == 'width' else 'snd'} {obj.s})", "Z" if name == "width" else "bool")
        if not isinstance(t, tuple):
            raise Untranslatable(f"attribute {name} of a {t}")
        if t[0] == "ext":
            for a, v in t[1]:
                if a == name:
                    return v
            raise Untranslatable(f"attribute {name} of an external object")
        if t[0] == "mod":
            r = self.lib.glob(t[1], name)
            return self.ref(r, f"{t[1]}:{name}")
        if t[0] == "cls":
            k = (t[1][0], t[1][1] + "." + name)
            if k[1] in self.lib.classes(k[0]):
                return V(None, ("cls", k))
            if self.kind(t[1]) == "enum":
                inf = self.need(t[1])
                if name in inf.members:
                    return V(inf.members[name], ("enum", t[1]))
            raise Untranslatable(f"class attribute {t[1][1]}.{name}")
        if t[0] == "enum":
            inf = self.need(t[1])
            if name in inf.members:          # self.R inside a method of the enumeration
                return V(inf.members[name], t)
            raise Untranslatable(f"attribute {name} of an enumeration member")
        if t[0] == "self":
            p = f"self.{name}"
            if p in env:
                if env[p].t in ("opaque", "none"):
                    raise Untranslatable(f"self.{name} is not tracked")
                return env[p]
            key = t[1]
        elif t[0] in ("obj", "sigv", "ifv", "comp"):
            key = t[1]
            if key in ABSTRACT:
                for (a, at) in ABSTRACT[key]:
                    if a == name:
                        return V(f"({cname(key)}_{a} {obj.s})", at)
                raise Untranslatable(f"{key[1]} is abstract: no attribute {name}")
            inf = self.need(key)
            for (a, at) in inf.fields:
                if a == name:
                    return self.unpack(f"({inf.rec}_{a} {obj.s})", at) if isinstance(at, tuple) and at[0] in ("sigv", "ifv") \
                        else V(f"({inf.rec}_{a} {obj.s})", at)
            if t[0] == "sigv" and name == "members":
                return V(f"({inf.rec}_members {obj.s})", ("dict", "port"))
            if t[0] == "ifv" and name == "signature":
                sk = inf.sigkey
                return V(f"(snd ({inf.rec}_signature {obj.s}))", ("sigv", sk),
                         flip=bxor(obj.flip, f"(fst ({inf.rec}_signature {obj.s}))"))
            if t[0] == "comp":
                if name in inf.ports:
                    return self.unpack(f"({inf.rec}_port_{name} {obj.s})", ("ifv", inf.ports[name]))
                if name == "signature":
                    raise Untranslatable("signature of a component")
        else:
            raise Untranslatable(f"attribute {name} of a {t}")
        # a property of the class: inline its body
        dk, fn = self.find_def(key, name)
        if fn is None or not self.is_property(fn):
            raise Untranslatable(f"{key[1]}.{name}: neither tracked attribute nor property")
        body = [s for s in fn.body if not (isinstance(s, ast.Expr) and isinstance(s.value, ast.Constant))]
        if len(body) != 1 or not isinstance(body[0], ast.Return) or body[0].value is None:
            raise Untranslatable(f"property {key[1]}.{name} is not a single return")
        env2 = {k: v for k, v in env.items() if k.startswith("self.") or k.startswith("@")} if t[0] == "self" else {}
        env2["self"] = obj
        env2["@rel"] = dk[0]
        return self.expr(body[0].value, env2, pre, ctx)

    def ref(self, r, what):
        if r is None:
            raise Untranslatable(f"unknown name {what}")
        if r[0] == "class":
            return V(None, ("cls", r[1]))
        if r[0] == "mod":
            return V(None, ("mod", r[1]))
        if r[0] == "classattr":
            return self.get_attr(V(None, ("cls", r[1])), r[2], {}, [], None)
        raise Untranslatable(f"{what} is outside the library: {r}")

    def ext_name(self, n, env):
        """the external (Amaranth / builtin) function a call target denotes, by its last component(s)"""
        root = n
        while isinstance(root, ast.Attribute):
            root = root.value
        if not isinstance(root, ast.Name) or root.id in env:
            return None
        r = self.lib.resolve(env["@rel"], n)
        if r is None or r[0] != "ext":
            return None
        parts = r[1].split(".")
        return "Shape.cast" if parts[-2:] == ["Shape", "cast"] else parts[-1]

    def expr(self, n, env, pre, ctx):
        if isinstance(n, ast.Constant):
            if isinstance(n.value, bool):
                return V("true" if n.value else "false", "bool")
            if isinstance(n.value, int):
                return V(f"({n.value})", "Z")
            if isinstance(n.value, str):
                return V(cstr(n.value), "str", py=n.value)
            if n.value is None:
                return V(None, "none")
            raise Untranslatable(f"constant {n.value!r}")
        if isinstance(n, ast.Name):
            if n.id in env:
                v = env[n.id]
                if v.t == "opaque":
                    raise Untranslatable(f"{n.id} is not tracked")
                return v
            return self.ref(self.lib.resolve(env["@rel"], n), n.id)
        if isinstance(n, ast.Attribute):
            base = self.expr(n.value, env, pre, ctx)
            return self.get_attr(base, n.attr, env, pre, ctx)
        if isinstance(n, ast.BinOp) and type(n.op) in BINOPS:
            a = self.asZ(self.expr(n.left, env, pre, ctx))
            b = self.asZ(self.expr(n.right, env, pre, ctx))
            return V(f"({BINOPS[type(n.op)]} {a} {b})", "Z")
        if isinstance(n, ast.UnaryOp) and isinstance(n.op, ast.USub):
            return V(f"(Z.opp {self.asZ(self.expr(n.operand, env, pre, ctx))})", "Z")
        if isinstance(n, ast.UnaryOp) and isinstance(n.op, ast.Invert):
            return V(f"(Z.lnot {self.asZ(self.expr(n.operand, env, pre, ctx))})", "Z")
        if isinstance(n, (ast.BoolOp, ast.Compare)) or (isinstance(n, ast.UnaryOp) and isinstance(n.op, ast.Not)):
            return V(self.cond(n, env, pre, ctx), "bool")
        if isinstance(n, ast.Dict):
            return self.dict_display(list(zip(n.keys, n.values)), env, pre, ctx)
        if isinstance(n, ast.Tuple) and n.elts and all(isinstance(e, ast.Tuple) and len(e.elts) == 2 for e in n.elts):
            # a tuple of (key, value) pairs: usable where a dict is built from it
            return self.dict_display([(e.elts[0], e.elts[1]) for e in n.elts], env, pre, ctx)
        if isinstance(n, ast.Tuple) and not n.elts:
            return V("[]", ("dict", None))
        if isinstance(n, ast.Call):
            return self.call(n, env, pre, ctx)
        raise Untranslatable("expression " + ast.unparse(n)[:80])

    def dict_display(self, items, env, pre, ctx):
        vals, kind, keys, static = [], None, [], {}
        acc = None          # Coq text of the dict so far when a ** splat occurs

        def flush():
            nonlocal acc, vals
            if not vals and acc is not None:
                return
            txt = "[" + "; ".join(f"({k}, {v})" for k, v in vals) + "]"
            ks = [k for k, _ in vals]
            if len(set(ks)) != len(ks):
                txt = f"(dict_of {txt})"
            acc = txt if acc is None else f"(dict_update {acc} {txt})"
            vals = []
        # first pass: evaluate in order
        evald = []
        for k, v in items:
            if k is None:
                d = self.expr(v, env, pre, ctx)
                if not (isinstance(d.t, tuple) and d.t[0] == "dict"):
                    raise Untranslatable("** of a non-dict")
                evald.append((None, d))
                if d.t[1]:
                    kind = "member" if "member" in (kind, d.t[1]) else d.t[1]
            else:
                kv = self.expr(k, env, pre, ctx)
                if kv.t != "str":
                    raise Untranslatable("dict key is not a string constant")
                vv = self.expr(v, env, pre, ctx)
                if vv.t not in ("port", "member"):
                    raise Untranslatable(f"dict value of type {vv.t}")
                kind = "member" if "member" in (kind, vv.t) else vv.t
                evald.append((kv, vv))
        kind = kind or ("member" if ctx.kind == "comp" else "port")
        for kv, vv in evald:
            if kv is None:
                flush()
                d = vv if vv.t[1] is None else self.coerce(vv, ("dict", kind))
                acc = f"(dict_update {acc} {d.s})"
            else:
                vals.append((kv.s, self.coerce(vv, kind).s))
                static[kv.py] = vv
        flush()
        return V(acc, ("dict", kind), static=static, closed=all(k is not None for k, _ in evald))

    def flow_member(self, flow, arg, env, pre, ctx):
        """In(arg) / Out(arg)"""
        f = "in" if flow == "In" else "out"
        v = self.expr(arg, env, pre, ctx)
        sh = None
        if v.t in ("Z", "pyint"):
            sh = f"(sh_int {self.asZ(v)})"
        elif v.t == "shape":
            sh = v.s
        elif v.t == "shapelike":
            sh = self.bind(pre, ctx, "shape", f"shape_cast {v.s}", "shape").s
        elif isinstance(v.t, tuple) and v.t[0] == "cls" and self.kind(v.t[1]) == "enum":
            sh = f"{self.need(v.t[1]).cn}_shape"
        if sh is not None:
            return V(f"(p_{f} {sh})", "port", flow=flow)
        if isinstance(v.t, tuple) and v.t[0] == "sigv":
            return V(f"(m_{f} (BSig {v.flip} (G_{self.need(v.t[1]).rec} {v.s})))", "member", flow=flow, sigv=v, arr=False)
        raise Untranslatable(f"{flow}() of a {v.t}")

    def args_of(self, n):
        if any(isinstance(a, ast.Starred) for a in n.args) or any(k.arg is None for k in n.keywords):
            raise Untranslatable("call with * / ** arguments")
        return n.args, {k.arg: k.value for k in n.keywords}

    def call(self, n, env, pre, ctx):
        f = n.func
        ext = self.ext_name(f, env)
        if ext is not None:
            args, kws = self.args_of(n)
            if ext in ("In", "Out") and len(args) == 1 and not kws:
                return self.flow_member(ext, args[0], env, pre, ctx)
            if ext in ("unsigned", "signed") and len(args) == 1 and not kws:
                return V(f"(sh_{'int' if ext == 'unsigned' else 'signed'} {self.asZ(self.expr(args[0], env, pre, ctx))})", "shape")
            if ext in ("max", "min") and len(args) == 2 and not kws:
                return V(f"(Z.{ext} {self.asZ(self.expr(args[0], env, pre, ctx))} {self.asZ(self.expr(args[1], env, pre, ctx))})", "Z")
            if ext == "ceil_log2" and len(args) == 1 and not kws:
                return V(f"(ceil_log2 {self.asZ(self.expr(args[0], env, pre, ctx))})", "Z")
            if ext == "exact_log2" and len(args) == 1 and not kws:
                return self.bind(pre, ctx, "log2", f"exact_log2 {self.asZ(self.expr(args[0], env, pre, ctx))}", "Z")
            if ext == "Shape.cast" and len(args) == 1 and not kws:
                v = self.expr(args[0], env, pre, ctx)
                if v.t == "shape":
                    return v
                if v.t == "shapelike":
                    return self.bind(pre, ctx, "shape", f"shape_cast {v.s}", "shape")
                raise Untranslatable(f"Shape.cast of a {v.t}")
            if ext == "flipped" and len(args) == 1 and not kws:
                v = self.expr(args[0], env, pre, ctx)
                if isinstance(v.t, tuple) and v.t[0] == "ifv":
                    return V(v.s, v.t, flip=neg(v.flip))
                raise Untranslatable(f"flipped() of a {v.t}")
            if ext == "dict" and len(args) == 1 and not kws:
                v = self.expr(args[0], env, pre, ctx)
                if isinstance(v.t, tuple) and v.t[0] == "dict":
                    return v
                raise Untranslatable(f"dict() of a {v.t}")
            if ext == "frozenset" and not kws:
                if not args:
                    return V("[]", ("fset", None))
                if len(args) == 1 and isinstance(args[0], ast.GeneratorExp):
                    return self.genexp_set(args[0], env, pre, ctx)
            if ext in EXT_OBJECTS and ctx.lenient:
                how, names = EXT_OBJECTS[ext]
                attrs = {}
                if how == "kw":
                    for a in names:
                        if a in kws:
                            attrs[a] = self.expr(kws[a], env, pre, ctx)
                elif len(args) == 1:
                    src = self.expr(args[0], env, pre, ctx)
                    if isinstance(src.t, tuple) and src.t[0] == "ext":
                        attrs = {a: v for a, v in src.t[1] if a in names}
                o = ctx.fresh("o")
                ctx.extra.append((o, "(option exn)"))
                ctx.mon += 1
                pre.append(("_", f"opaque_step {o}"))
                return V(None, ("ext", tuple(attrs.items())))
            if ext == "isinstance" and len(args) == 2 and not kws:
                return V(self.isinstance_cond(n, env, pre, ctx), "bool")
            raise Untranslatable("call of " + ast.unparse(f))
        # a method of a value
        if isinstance(f, ast.Attribute):
            if ast.unparse(f) == "super().__init__":
                raise Untranslatable("super().__init__ in expression position")
            try:
                base = self.expr(f.value, env, [], ctx)
            except Untranslatable:
                base = None
            if base is not None and isinstance(base.t, tuple) and base.t[0] not in ("cls", "mod"):
                base = self.expr(f.value, env, pre, ctx)
                args, kws = self.args_of(n)
                if base.t[0] == "sigv" and f.attr == "flip" and not args and not kws:
                    return V(base.s, base.t, flip=neg(base.flip))
                if base.t[0] == "enum" and not kws:
                    inf = self.need(base.t[1])
                    if f.attr in inf.methods and not args:
                        nm, rt = inf.methods[f.attr]
                        return V(f"({nm} {base.s})", rt)
                raise Untranslatable(f"method {f.attr} of a {base.t}")
            if base is not None and base.t == "member" and f.attr == "array":
                base = self.expr(f.value, env, pre, ctx)
                args, kws = self.args_of(n)
                if kws or not args:
                    raise Untranslatable("array()")
                dims = "; ".join(self.asZ(self.expr(a, env, pre, ctx)) for a in args)
                return V(f"(m_array {base.s} [{dims}])", "member", flow=base.flow, sigv=base.sigv, arr=True)
            if base is not None and base.t == "port" and f.attr == "array":
                m = self.coerce(self.expr(f.value, env, pre, ctx), "member")
                args, kws = self.args_of(n)
                dims = "; ".join(self.asZ(self.expr(a, env, pre, ctx)) for a in args)
                return V(f"(m_array {m.s} [{dims}])", "member", flow=m.flow, sigv=None, arr=True)
        # a class of the library
        tgt = self.expr(f, env, [], ctx) if isinstance(f, (ast.Name, ast.Attribute)) else None
        if tgt is not None and isinstance(tgt.t, tuple) and tgt.t[0] == "cls":
            key = tgt.t[1]
            args, kws = self.args_of(n)
            if self.kind(key) == "enum":
                if len(args) != 1 or kws:
                    raise Untranslatable("enumeration call")
                inf = self.need(key)
                a = self.coerce(self.expr(args[0], env, pre, ctx), ("earg", key))
                return self.bind(pre, ctx, key[1].split(".")[-1].lower(), f"{inf.cn}_call {a.s}", ("enum", key))
            return self.construct(key, args, kws, env, pre, ctx)
        raise Untranslatable("call " + ast.unparse(n)[:80])

    def genexp_set(self, g, env, pre, ctx):
        """frozenset(E(x) for x in it)"""
        if len(g.generators) != 1 or g.generators[0].ifs or not isinstance(g.generators[0].target, ast.Name):
            raise Untranslatable("generator form")
        it = self.expr(g.generators[0].iter, env, pre, ctx)
        if not (isinstance(it.t, tuple) and it.t[0] == "eiter"):
            raise Untranslatable(f"iteration over a {it.t}")
        x = g.generators[0].target.id
        env2 = dict(env)
        env2[x] = V(x + "_it", ("earg", it.t[1]))
        sub = []
        c0 = ctx.mon
        e = self.expr(g.elt, env2, sub, ctx)
        ctx.mon = c0
        if len(sub) != 1 or e.s != sub[0][0] or e.t != ("enum", it.t[1]):
            raise Untranslatable("generator element is not EnumClass(x)")
        return self.bind(pre, ctx, "fset", f"mapR (fun {x}_it => {sub[0][1]}) {it.s}", ("fset", it.t[1]))

    def construct(self, key, args, kws, env, pre, ctx):
        """ClassOfTheLibrary(args): a call of its generated __init__"""
        if key in ABSTRACT:
            raise Untranslatable(f"{key[1]} is abstract: it cannot be constructed here")
        inf = self.need(key)
        if inf.rtype is None:
            raise Untranslatable(f"{key[1]} has no translated constructor")
        text = f"gen_{inf.cn}_init " + " ".join(self.bind_args(key, "__init__", inf.params, args, kws, env, pre, ctx)
                                                + self.pass_extra(inf.extra, ctx))
        base = key[1].split(".")[-1].lower()
        return self.bind(pre, ctx, base, text.strip(), inf.rtype)

    def pass_extra(self, extra, ctx):
        out = []
        for (nm, ct) in extra:
            if not ctx.lenient:
                raise Untranslatable("the callee has opaque steps and the caller is translated strictly")
            mine = ctx.fresh("o")
            ctx.extra.append((mine, ct))
            out.append(mine)
        return out

    def bind_args(self, key, fname, params, args, kws, env, pre, ctx):
        """Coq argument texts for the tracked parameters `params` of key.fname given the call's arguments"""
        dk, fn = self.find_def(key, fname)
        sig = self.func_params(fn)
        pos = [p for p, _, kw in sig if not kw]
        if len(args) > len(pos):
            raise Untranslatable(f"too many positional arguments for {key[1]}")
        given = dict(zip(pos, args))
        for k, v in kws.items():
            if k in given or k not in [p for p, _, _ in sig]:
                raise Untranslatable(f"bad keyword {k} for {key[1]}")
            given[k] = v
        out = []
        for (p, t, dflt) in params:
            if p in given:
                v = self.expr(given[p], env, pre, ctx)
            elif dflt is not None:
                v = self.expr(dflt, {"@rel": dk[0]}, pre, ctx)
            else:
                raise Untranslatable(f"{key[1]}: argument {p} missing")
            if isinstance(v.t, tuple) and v.t[0] in ("fset", "dict") and v.t[1] is None:
                v = V(v.s, t if t[0] != "eiter" else ("fset", t[1]))
                if t[0] == "eiter":
                    v = V("[]", t)
            out.append(self.pack(self.coerce(v, t)))
        for p, _, _ in sig:
            if p not in given and p not in [q for q, _, _ in params] and \
                    [d for q, d, _ in sig if q == p][0] is None:
                raise Untranslatable(f"{key[1]}: argument {p} missing")
        return out

    # ---------------------------------------------------------------------------------------- conditions
    def pure(self, fn, ctx):
        """evaluate fn(pre) requiring that it emits no monadic binding (operands of and / or / not)"""
        pre = []
        r = fn(pre)
        if pre:
            raise Untranslatable("an operand of a boolean operator may raise")
        return r

    def isinstance_cond(self, n, env, pre, ctx):
        x = self.expr(n.args[0], env, pre, ctx)
        c = n.args[1]
        if isinstance(c, ast.Tuple):
            raise Untranslatable("isinstance with a tuple of classes")
        r = self.lib.resolve(env["@rel"], c)
        if r == ("ext", "int"):
            if x.t == "pyint":
                return f"(is_int {x.s})"
            if x.t == "Z":
                return "true"
            raise Untranslatable(f"isinstance(_, int) of a {x.t}")
        if r is not None and r[0] == "ext":
            last = r[1].split(".")[-1]
            if last == "ShapeLike" and x.t == "shapelike":
                return f"(is_shapelike {x.s})"
            if last == "FlippedInterface" and isinstance(x.t, tuple) and x.t[0] == "ifv":
                return x.flip
            raise Untranslatable("isinstance against " + r[1])
        if r is None or r[0] != "class":
            raise Untranslatable("isinstance against " + ast.unparse(c))
        key = r[1]
        if x.t == "gsig":
            return f"(match {x.s} with G_{self.need(key).rec} _ => true | _ => false end)"
        if isinstance(x.t, tuple) and x.t[0] in ("obj", "sigv", "comp") :
            return "true" if self.derives(x.t[1], key) else "false"
        if isinstance(x.t, tuple) and x.t[0] == "ifv":
            return neg(x.flip) if self.derives(x.t[1], key) else "false"
        raise Untranslatable(f"isinstance of a {x.t}")

    def cond(self, n, env, pre, ctx):
        if isinstance(n, ast.BoolOp):
            vals = list(n.values)
            # isinstance(other, C) and rest: narrow `other`
            if isinstance(n.op, ast.And) and isinstance(vals[0], ast.Call) and self.ext_name(vals[0].func, env) == "isinstance" \
                    and len(vals[0].args) == 2 and isinstance(vals[0].args[0], ast.Name) and vals[0].args[0].id in env \
                    and env[vals[0].args[0].id].t == "gsig":
                x = vals[0].args[0].id
                r = self.lib.resolve(env["@rel"], vals[0].args[1])
                if r is None or r[0] != "class" or self.kind(r[1]) != "sig":
                    raise Untranslatable("isinstance against " + ast.unparse(vals[0].args[1]))
                inf = self.need(r[1])
                nm = ctx.fresh(x)
                env2 = dict(env)
                env2[x] = V(nm, ("sigv", r[1]))
                rest = [self.pure(lambda p, v=v: self.cond(v, env2, p, ctx), ctx) for v in vals[1:]]
                return f"(match {env[x].s} with G_{inf.rec} {nm} => {' && '.join(rest)} | _ => false end)"
            op = " && " if isinstance(n.op, ast.And) else " || "
            first = self.cond(vals[0], env, pre, ctx)
            return "(" + op.join([first] + [self.pure(lambda p, v=v: self.cond(v, env, p, ctx), ctx) for v in vals[1:]]) + ")"
        if isinstance(n, ast.UnaryOp) and isinstance(n.op, ast.Not):
            return neg(self.cond(n.operand, env, pre, ctx))
        if isinstance(n, ast.Compare) and len(n.ops) == 1:
            op, l, r = type(n.ops[0]), n.left, n.comparators[0]
            if op in (ast.Is, ast.IsNot) and isinstance(r, ast.Constant) and r.value is None:
                v = self.expr(l, env, pre, ctx)
                if v.t == "none":
                    return "true" if op is ast.Is else "false"
                if v.t != "pyint":
                    raise Untranslatable(f"`is None` on a {v.t}")
                return f"(is_none {v.s})" if op is ast.Is else f"(negb (is_none {v.s}))"
            if op in (ast.In, ast.NotIn):
                a = self.expr(l, env, pre, ctx)
                if isinstance(r, ast.Tuple) and r.elts and all(isinstance(e, ast.Constant) and isinstance(e.value, int)
                                                               and not isinstance(e.value, bool) for e in r.elts):
                    lst = "[" + "; ".join(f"({e.value})" for e in r.elts) + "]"
                    if a.t == "pyint":
                        c = f"(pyint_in {a.s} {lst})"
                    elif a.t == "Z":
                        c = f"(z_in {a.s} {lst})"
                    else:
                        raise Untranslatable(f"`in` of a {a.t}")
                else:
                    b = self.expr(r, env, pre, ctx)
                    if isinstance(b.t, tuple) and b.t[0] == "fset" and a.t == ("enum", b.t[1]):
                        c = f"(fset_mem {cname(b.t[1])}_eqb {a.s} {b.s})"
                    elif isinstance(b.t, tuple) and b.t[0] == "dict" and a.t == "str":
                        c = f"(dict_has {a.s} {b.s})"
                    else:
                        raise Untranslatable(f"`in` of a {a.t} in a {b.t}")
                return c if op is ast.In else neg(c)
            a = self.expr(l, env, pre, ctx)
            b = self.expr(r, env, pre, ctx)
            if op in (ast.Eq, ast.NotEq):
                if isinstance(a.t, tuple) and a.t == b.t and a.t[0] == "enum":
                    c = f"({cname(a.t[1])}_eqb {a.s} {b.s})"
                elif isinstance(a.t, tuple) and a.t == b.t and a.t[0] == "fset":
                    c = f"(fset_eqb {cname(a.t[1])}_eqb {a.s} {b.s})"
                elif a.t == b.t == "shape":
                    c = f"(shape_eqb {a.s} {b.s})"
                elif a.t in ("Z", "pyint") and b.t in ("Z", "pyint"):
                    c = f"(Z.eqb {self.asZ(a)} {self.asZ(b)})"
                else:
                    raise Untranslatable(f"== between {a.t} and {b.t}")
                return c if op is ast.Eq else neg(c)
            tab = {ast.Lt: "Z.ltb", ast.LtE: "Z.leb", ast.Gt: "Z.gtb", ast.GtE: "Z.geb"}
            if op in tab:
                return f"({tab[op]} {self.asZ(a)} {self.asZ(b)})"
        if isinstance(n, ast.Call) and self.ext_name(n.func, env) == "isinstance" and len(n.args) == 2 and not n.keywords:
            return self.isinstance_cond(n, env, pre, ctx)
        if isinstance(n, (ast.Name, ast.Attribute, ast.Call, ast.BinOp)):
            v = self.expr(n, env, pre, ctx)
            if v.t == "bool":
                return v.s
            if v.t == "Z":                      # truth value of an int
                return f"(negb (Z.eqb {v.s} 0))"
            raise Untranslatable(f"truth value of a {v.t}")
        raise Untranslatable("condition " + ast.unparse(n)[:80])

    def refine(self, test, env):
        """names known to be ints when `test` is False (the raise was not taken)"""
        out = []

        def visit(t):
            if isinstance(t, ast.BoolOp) and isinstance(t.op, ast.Or):
                for v in t.values:
                    visit(v)
            elif isinstance(t, ast.UnaryOp) and isinstance(t.op, ast.Not) and isinstance(t.operand, ast.Call) \
                    and self.ext_name(t.operand.func, env) == "isinstance" and len(t.operand.args) == 2 \
                    and isinstance(t.operand.args[0], ast.Name) and self.lib.resolve(env["@rel"], t.operand.args[1]) == ("ext", "int"):
                out.append(t.operand.args[0].id)
            elif isinstance(t, ast.Compare) and len(t.ops) == 1 and isinstance(t.ops[0], ast.NotIn) and isinstance(t.left, ast.Name) \
                    and isinstance(t.comparators[0], ast.Tuple) and t.comparators[0].elts \
                    and all(isinstance(e, ast.Constant) and isinstance(e.value, int) for e in t.comparators[0].elts):
                out.append(t.left.id)
        visit(test)
        env2 = dict(env)
        for x in out:
            if x in env and env[x].t == "pyint":
                env2[x] = V(f"(zof {env[x].s})", "Z")
        return env2

    # ---------------------------------------------------------------------------------------- statements
    @staticmethod
    def binds(pre, body):
        for nm, text in reversed(pre):
            body = f"(let! {nm} := {text} in\n  {body})"
        return body

    def exc(self, st, ctx):
        e = st.exc
        if isinstance(e, ast.Call) and isinstance(e.func, ast.Name) and e.func.id.endswith("Error"):
            ctx.mon += 1
            return EXN.get(e.func.id, "OtherError")
        raise Untranslatable("raise " + ast.unparse(st)[:60])

    @staticmethod
    def harmless(st):
        """allowed in front of a `raise` inside an if-block: builds the message only"""
        for x in ast.walk(st):
            if isinstance(x, (ast.Return, ast.Raise, ast.Global, ast.Nonlocal, ast.Delete, ast.With, ast.While, ast.For)):
                return False
            if isinstance(x, (ast.Assign, ast.AugAssign, ast.AnnAssign)):
                for t in (x.targets if isinstance(x, ast.Assign) else [x.target]):
                    if any(isinstance(y, (ast.Attribute, ast.Subscript)) for y in ast.walk(t)):
                        return False
            if isinstance(x, ast.Call) and isinstance(x.func, ast.Attribute):
                b = x.func.value
                while isinstance(b, ast.Attribute):
                    b = b.value
                if isinstance(b, ast.Name) and b.id == "self":
                    return False
        return True

    @staticmethod
    def targets(st):
        """names (and self.x paths) a statement may assign"""
        out = []

        def add(t):
            if isinstance(t, ast.Name):
                out.append(t.id)
            elif isinstance(t, ast.Attribute) and isinstance(t.value, ast.Name) and t.value.id == "self":
                out.append("self." + t.attr)
            elif isinstance(t, (ast.Tuple, ast.List)):
                for e in t.elts:
                    add(e)
            elif isinstance(t, ast.Subscript):
                add(t.value)
            elif isinstance(t, ast.Starred):
                add(t.value)
        for x in ast.walk(st):
            if isinstance(x, ast.Assign):
                for t in x.targets:
                    add(t)
            elif isinstance(x, (ast.AugAssign, ast.AnnAssign, ast.For)):
                add(x.target)
            elif isinstance(x, ast.NamedExpr):
                add(x.target)
            elif isinstance(x, ast.withitem) and x.optional_vars is not None:
                add(x.optional_vars)
            elif isinstance(x, (ast.FunctionDef, ast.ClassDef)):
                out.append(x.name)
            elif isinstance(x, ast.Expr) and isinstance(x.value, ast.Call) and isinstance(x.value.func, ast.Attribute) \
                    and x.value.func.attr in ("update", "append", "extend", "add", "insert", "pop", "clear", "setdefault"):
                add(x.value.func.value)
        return [x for i, x in enumerate(out) if x not in out[:i]]

    def let(self, ctx, base, v, env, key):
        """bind v to a fresh Coq name under env[key]; static values are not bound"""
        env2 = dict(env)
        if v.t in ("none", "opaque") or (isinstance(v.t, tuple) and v.t[0] in ("cls", "mod", "ext")) or v.s is None:
            env2[key] = v
            return (lambda rest: rest), env2
        nm = ctx.fresh(base)
        kw = {k: x for k, x in v.__dict__.items() if k not in ("s", "t")}
        if isinstance(v.t, tuple) and v.t[0] in ("sigv", "ifv"):
            env2[key] = V(nm, v.t, **kw)       # the record is bound, the flip stays symbolic
        else:
            env2[key] = V(nm, v.t, **kw)
        return (lambda rest: f"(let {nm} := {v.s} in\n  {rest})"), env2

    def stmt(self, st, env, ctx):
        """-> ("end", text) | ("seq", wrap, env')"""
        if isinstance(st, ast.Pass) or (isinstance(st, ast.Expr) and isinstance(st.value, ast.Constant)):
            return ("seq", lambda rest: rest, env)
        if isinstance(st, ast.Raise):
            return ("end", f"(Err {self.exc(st, ctx)})")
        if isinstance(st, ast.Return):
            if ctx.ret is None or st.value is None:
                raise Untranslatable("return")
            pre = []
            v = self.expr(st.value, env, pre, ctx) if ctx.ret[0] != "bool" else V(self.cond(st.value, env, pre, ctx), "bool")
            return ("end", self.binds(pre, ctx.ret[1](v)))
        if isinstance(st, ast.Assign) and len(st.targets) == 1:
            return self.assign(st.targets[0], st.value, env, ctx)
        if isinstance(st, ast.AugAssign) and isinstance(st.target, ast.Name) and type(st.op) in BINOPS:
            pre = []
            cur = self.expr(st.target, env, pre, ctx)
            v = V(f"({BINOPS[type(st.op)]} {self.asZ(cur)} {self.asZ(self.expr(st.value, env, pre, ctx))})", "Z")
            w, env2 = self.let(ctx, st.target.id, v, env, st.target.id)
            return ("seq", lambda rest: self.binds(pre, w(rest)), env2)
        if isinstance(st, ast.Expr) and isinstance(st.value, ast.Call):
            c = st.value
            if ast.unparse(c.func) == "super().__init__":
                return self.super_init(c, env, ctx)
            if isinstance(c.func, ast.Attribute) and c.func.attr == "update" and isinstance(c.func.value, ast.Name) \
                    and len(c.args) == 1 and not c.keywords:
                d = c.func.value.id
                pre = []
                cur = self.expr(c.func.value, env, pre, ctx)
                arg = self.expr(c.args[0], env, pre, ctx)
                if not (isinstance(cur.t, tuple) and cur.t[0] == "dict" and isinstance(arg.t, tuple) and arg.t[0] == "dict"):
                    raise Untranslatable("update() of a non-dict")
                kind = "member" if "member" in (cur.t[1], arg.t[1]) else (cur.t[1] or arg.t[1] or "port")
                cur = cur if cur.t[1] is None else self.coerce(cur, ("dict", kind))
                arg = arg if arg.t[1] is None else self.coerce(arg, ("dict", kind))
                w, env2 = self.let(ctx, d, V(f"(dict_update {cur.s} {arg.s})", ("dict", kind)), env, d)
                return ("seq", lambda rest: self.binds(pre, w(rest)), env2)
            raise Untranslatable("call statement " + ast.unparse(c)[:60])
        if isinstance(st, ast.If):
            return self.if_stmt(st, env, ctx)
        raise Untranslatable("statement " + ast.unparse(st).split("\n")[0][:80])

    def assign(self, tgt, value, env, ctx):
        pre = []
        if isinstance(tgt, ast.Name):
            v = self.expr(value, env, pre, ctx)
            w, env2 = self.let(ctx, tgt.id, v, env, tgt.id)
            return ("seq", lambda rest: self.binds(pre, w(rest)), env2)
        if isinstance(tgt, ast.Attribute) and isinstance(tgt.value, ast.Name) and tgt.value.id == "self" \
                and env.get("self") is not None and env["self"].t[0] == "self":
            if ctx.kind in ("plain", "comp", "iface"):
                # constants, empty containers and zero-argument constructor calls: the attribute is not tracked
                fresh = isinstance(value, ast.Constant) or \
                    (isinstance(value, (ast.List, ast.Dict, ast.Tuple, ast.Set)) and not ast.unparse(value).strip("[]{}() ")) or \
                    (isinstance(value, ast.Call) and not value.args and not value.keywords and isinstance(value.func, ast.Name))
                if fresh:
                    env2 = dict(env)
                    env2["self." + tgt.attr] = V(None, "opaque")
                    return ("seq", lambda rest: rest, env2)
            v = self.expr(value, env, pre, ctx)
            w, env2 = self.let(ctx, "self_" + tgt.attr, v, env, "self." + tgt.attr)
            return ("seq", lambda rest: self.binds(pre, w(rest)), env2)
        if isinstance(tgt, ast.Attribute) and isinstance(tgt.value, ast.Name) and tgt.value.id == "self" \
                and env.get("self") is not None and ctx.kind == "setter":
            # a store of a method: an effect outside the model, provided the value can be evaluated
            self.expr(value, env, pre, ctx)
            return ("seq", lambda rest: self.binds(pre, rest), env)
        if isinstance(tgt, ast.Subscript) and isinstance(tgt.value, ast.Name):
            d = tgt.value.id
            cur = self.expr(tgt.value, env, pre, ctx)
            k = self.expr(tgt.slice, env, pre, ctx)
            v = self.expr(value, env, pre, ctx)
            if not (isinstance(cur.t, tuple) and cur.t[0] == "dict") or k.t != "str" or v.t not in ("port", "member"):
                raise Untranslatable("subscript store")
            kind = "member" if "member" in (cur.t[1], v.t) else "port"
            cur = cur if cur.t[1] is None else self.coerce(cur, ("dict", kind))
            w, env2 = self.let(ctx, d, V(f"(dict_set {k.s} {self.coerce(v, kind).s} {cur.s})", ("dict", kind)), env, d)
            return ("seq", lambda rest: self.binds(pre, w(rest)), env2)
        if isinstance(tgt, ast.Attribute):
            # obj.attr = value through a property setter of obj's class
            obj = self.expr(tgt.value, env, pre, ctx)
            if isinstance(obj.t, tuple) and obj.t[0] in ("ifv", "obj"):
                inf = self.need(obj.t[1])
                if tgt.attr in inf.setters:
                    nm, ps, extra = inf.setters[tgt.attr]
                    v = self.coerce(self.expr(value, env, pre, ctx), ps[0][1])
                    ex = self.pass_extra(extra, ctx)
                    ctx.mon += 1
                    pre.append(("_", f"{nm} {obj.s} {self.pack(v)} " + " ".join(ex)))
                    return ("seq", lambda rest: self.binds(pre, rest), env)
            raise Untranslatable("attribute store " + ast.unparse(tgt))
        raise Untranslatable("assignment target " + ast.unparse(tgt))

    def if_stmt(self, st, env, ctx):
        pre = []
        c = self.cond(st.test, env, pre, ctx)
        ends_raise = lambda b: bool(b) and isinstance(b[-1], ast.Raise) and all(self.harmless(s) for s in b[:-1])
        if ends_raise(st.body) and not st.orelse:
            e = self.exc(st.body[-1], ctx)
            return ("seq", lambda rest: self.binds(pre, f"(if {c} then Err {e} else\n  {rest})"), self.refine(st.test, env))
        if c == "true" or c == "false":
            # statically decided (isinstance of a value whose class is known)
            arm = st.body if c == "true" else st.orelse
            sub = ctx.lenient
            ctx.lenient = False
            try:
                marker = "@@REST@@"
                got = {}

                def k(e2):
                    got["env"] = e2
                    return marker
                txt = self.block(arm, env, ctx, k)
            finally:
                ctx.lenient = sub
            if "env" not in got:
                return ("end", self.binds(pre, txt))
            return ("seq", lambda rest: self.binds(pre, txt.replace(marker, rest)), got["env"])
        names = [x for x in self.targets(ast.Module(body=st.body, type_ignores=[])) +
                 self.targets(ast.Module(body=st.orelse, type_ignores=[]))]
        names = [x for i, x in enumerate(names) if x not in names[:i]]
        arms = []
        sub = ctx.lenient
        ctx.lenient = False
        try:
            for i, body in enumerate((st.body, st.orelse)):
                got = {}
                m0 = ctx.mon

                def k(e2, got=got, i=i):
                    got["env"] = e2
                    return f"@@ARM{i}@@"
                txt = self.block(body, env, ctx, k)
                arms.append((txt, got.get("env"), ctx.mon != m0))
        finally:
            ctx.lenient = sub
        live = [a for a in arms if a[1] is not None]
        if not live:
            return ("end", self.binds(pre, f"(if {c} then {arms[0][0]} else {arms[1][0]})"))
        # join: a name must be defined on every path that falls through
        join = []
        for x in names:
            if all(x in a[1] for a in live):
                vs = [a[1][x] for a in live]
                if all(v.t == "opaque" for v in vs):
                    continue
                t = vs[0].t
                for v in vs[1:]:
                    t = self.unify(t, v.t)
                if t in ("none",) or (isinstance(t, tuple) and t[0] in ("cls", "mod")):
                    raise Untranslatable(f"{x}: cannot join a {t}")
                join.append((x, t))
        monadic = any(a[2] for a in arms)
        parts = []
        for i, (txt, e2, _) in enumerate(arms):
            if e2 is not None:
                vals = [self.pack(self.coerce(e2[x], t)) for x, t in join]
                tup = "tt" if not vals else vals[0] if len(vals) == 1 else "(" + ", ".join(vals) + ")"
                txt = txt.replace(f"@@ARM{i}@@", f"(Ok {tup})" if monadic else tup)
            parts.append(txt)
        env2 = dict(env)
        fresh = []
        for x, t in join:
            nm = ctx.fresh(x.replace(".", "_"))
            fresh.append(nm)
            env2[x] = self.unpack(nm, t)
        for x in names:
            if x not in [j for j, _ in join]:
                if any(x in a[1] for a in live) and not (x in env and all(a[1].get(x) is env.get(x) for a in live)):
                    env2[x] = V(None, "opaque")
        pat = "_" if not fresh else fresh[0] if len(fresh) == 1 else "'(" + ", ".join(fresh) + ")"
        head = f"(if {c} then {parts[0]} else {parts[1]})"
        if monadic:
            ctx.mon += 1
            return ("seq", lambda rest: self.binds(pre, f"(let! {pat} := {head} in\n  {rest})"), env2)
        if not fresh:
            return ("seq", lambda rest: self.binds(pre, rest), env2)
        if len(join) == 1 and not st.orelse and join[0][0] in env and env[join[0][0]].t == join[0][1] \
                and env[join[0][0]].s.replace("_", "a").isalnum():
            # one-armed update of one variable: a conditional function applied to the old value, so that the old
            # value occurs once (the same term as `if c then NEW else old`, beta-expanded)
            o = env[join[0][0]].s
            head = f"((if {c} then (fun {o} => {parts[0]}) else (fun {o} => {o})) {o})"
        return ("seq", lambda rest: self.binds(pre, f"(let {pat} := {head} in\n  {rest})"), env2)

    def opaque_stmt(self, st, env, ctx, why):
        env2 = dict(env)
        wrap = lambda rest: rest
        if not env.get("@opaque"):
            step = ctx.fresh("o")
            ctx.extra.append((step, "(option exn)"))
            ctx.mon += 1
            note = "".join(c if c.isalnum() or c in " _.,=()[]:" else " " for c in why[:70])
            wrap = lambda rest: f"(let! _ := opaque_step {step} in (* {note} *)\n  {rest})"
        for x in self.targets(st):
            old = env.get(x)
            isdata = old is not None and (old.t in DATA or (isinstance(old.t, tuple) and old.t[0] in ("enum", "earg", "fset", "eiter")))
            if isdata:
                nm = ctx.fresh(x.replace(".", "_") + "_o")
                ctx.extra.append((nm, self.ctype(old.t)))
                env2[x] = V(nm, old.t)
            else:
                env2[x] = V(None, "opaque")
        env2["@opaque"] = True
        return ("seq", wrap, env2)

    def block(self, body, env, ctx, k):
        if not body:
            return k(env)
        st, rest = body[0], body[1:]
        try:
            r = self.stmt(st, env, ctx)
            if r[0] == "seq" and env.get("@opaque") and r[2].get("@opaque") and \
                    not (isinstance(st, ast.Pass) or (isinstance(st, ast.Expr) and isinstance(st.value, ast.Constant))):
                e3 = dict(r[2]); e3["@opaque"] = False
                r = ("seq", r[1], e3)
        except Untranslatable as e:
            if not ctx.lenient:
                raise
            if os.environ.get("SIGTIE_DEBUG"):
                import sys
                print(f"opaque in {ctx.key[1]}: {ast.unparse(st).splitlines()[0][:70]}  <- {e}", file=sys.stderr)
            r = self.opaque_stmt(st, env, ctx, ast.unparse(st).split("\n")[0] + ": " + str(e))
        if r[0] == "end":
            return r[1]
        return r[1](self.block(rest, r[2], ctx, k))

    # ---------------------------------------------------------------------------------------- classes
    def need(self, key):
        if key in self.info:
            return self.info[key]
        if key in self.busy:
            raise Untranslatable(f"{key[1]} is used while it is being translated")
        self.busy.add(key)
        try:
            k = self.kind(key)
            inf = {"enum": self.gen_enum, "sig": self.gen_sig, "iface": self.gen_iface, "comp": self.gen_comp,
                   "plain": self.gen_plain, "abstract": self.gen_abstract}[k](key)
            self.info[key] = inf
            return inf
        except BaseException:
            self.info.pop(key, None)       # nothing half-translated stays registered
            raise
        finally:
            self.busy.discard(key)

    def src(self, key):
        return f"(* {PKG}/{key[0]}: {key[1]} *)"

    def gen_abstract(self, key):
        inf = Info(key, "abstract")
        inf.rec = inf.cn
        fs = "; ".join(f"{inf.cn}_{a} : {self.ctype(t)}" for a, t in ABSTRACT[key])
        self.sec["plain"] += [self.src(key) + " (* abstract: represented by these observations only *)",
                              f"Record {inf.cn} := {{ {fs} }}.", ""]
        return inf

    def gen_enum(self, key):
        c = self.lib.cls(key)
        inf = Info(key, "enum")
        cn = inf.cn
        mem = []
        for st in c.body:
            if isinstance(st, ast.Assign):
                if len(st.targets) != 1 or not isinstance(st.targets[0], ast.Name) or not isinstance(st.value, ast.Constant) \
                        or isinstance(st.value.value, bool) or not isinstance(st.value.value, (int, str)):
                    raise Untranslatable(f"enumeration member {ast.unparse(st)}")
                mem.append((st.targets[0].id, st.value.value))
            elif isinstance(st, ast.FunctionDef) or (isinstance(st, ast.Expr) and isinstance(st.value, ast.Constant)) or isinstance(st, ast.Pass):
                pass
            else:
                raise Untranslatable(f"{key[1]}: class-level statement {ast.unparse(st)[:40]}")
        if not mem:
            raise Untranslatable(f"{key[1]}: no members")
        if len({v for _, v in mem}) != len(mem):
            raise Untranslatable(f"{key[1]}: aliases (members with equal values)")
        for m, _ in mem:
            inf.members[m] = f"{cn}_{m}"
        out = [self.src(key), f"Inductive {cn} := " + " | ".join(inf.members[m] for m, _ in mem) + "."]
        cases = " ".join(f"| {inf.members[m]}, {inf.members[m]} => true" for m, _ in mem)
        out.append(f"Definition {cn}_eqb (a b : {cn}) : bool := match a, b with {cases}" + (" | _, _ => false end." if len(mem) > 1 else " end."))
        raw = lambda v: f"RStr {cstr(v)}" if isinstance(v, str) else f"RInt ({v})"
        out.append(f"Definition {cn}_values : list ({cn} * pyraw) := [" + "; ".join(f"({inf.members[m]}, {raw(v)})" for m, v in mem) + "].")
        out.append(f"Definition {cn}_call : earg {cn} -> res {cn} := enum_call {cn}_values.")
        shape_kw = [k for k in c.keywords if k.arg == "shape"]
        if [k for k in c.keywords if k.arg != "shape"]:
            raise Untranslatable(f"{key[1]}: class keyword")
        ctx = Ctx(key, "enum")
        if shape_kw:
            pre = []
            sh = self.expr(shape_kw[0].value, {"@rel": key[0]}, pre, ctx)
            if pre or sh.t not in ("shape", "Z"):
                raise Untranslatable(f"{key[1]}: shape keyword")
            out.append(f"Definition {cn}_shape : shape := {sh.s if sh.t == 'shape' else f'(sh_int {sh.s})'}.")
        elif all(isinstance(v, int) for _, v in mem):
            out.append(f"Definition {cn}_shape : shape := enum_shape [" + "; ".join(f"({v})" for _, v in mem) + "].")
        self.info[key] = inf          # methods refer to the members
        for st in c.body:
            if isinstance(st, ast.FunctionDef):
                if self.func_params(st) or st.decorator_list:
                    raise Untranslatable(f"{key[1]}.{st.name}: parameters / decorators")
                ctx = Ctx(key, "enum", ret=("bool", lambda v: v.s))
                env = {"@rel": key[0], "self": V("self", ("enum", key))}
                body = self.block(st.body, env, ctx, lambda e: (_ for _ in ()).throw(Untranslatable("no return")))
                if ctx.mon:
                    raise Untranslatable(f"{key[1]}.{st.name} may raise")
                out.append(f"Definition gen_{cn}_{st.name} (self : {cn}) : bool :=\n  {body}.")
                inf.methods[st.name] = (f"gen_{cn}_{st.name}", "bool")
        self.sec["enum"] += out + [""]
        return inf

    def init_env(self, key, fname="__init__", setter=False):
        """parameters of key.fname: (tracked [(name, type, default)], env with them bound, Coq binder text)"""
        dk, fn = self.find_def(key, fname, setter)
        if fn is None:
            raise Untranslatable(f"{key[1]} has no {fname}")
        pt = self.param_types(key, fname, setter)
        env = {"@rel": dk[0]}
        params, binders = [], []
        for (p, d, _) in self.func_params(fn):
            t = pt.get(p)
            if t is not None:
                try:
                    self.ctype(t)
                except Untranslatable:
                    t = None          # an object of a class that cannot be represented: the parameter is not tracked
            if t is None:
                env[p] = V(None, "opaque")
                continue
            params.append((p, t, d))
            env[p] = self.unpack(p + "_0", t)
            binders.append(f"({p}_0 : {self.ctype(t)})")
        return dk, fn, params, env, binders

    def default_defs(self, inf, key, params):
        """the default values of the tracked parameters of __init__, as definitions (what a caller gets who omits them)"""
        dk, _ = self.find_def(key, "__init__")
        out = []
        for (p, t, d) in params:
            if d is None:
                continue
            pre = []
            v = self.expr(d, {"@rel": dk[0]}, pre, Ctx(key, "default"))
            if pre:
                raise Untranslatable(f"{key[1]}: default of {p} may raise")
            if isinstance(v.t, tuple) and v.t[0] in ("fset", "dict") and v.t[1] is None:
                v = V("[]", t)
            if v.t == "none" and t != "pyint":
                out.append(f"(* default of {p}: None (stands for `not given`; no value of the parameter's type) *)")
                continue
            out.append(f"Definition gen_{inf.cn}_default_{p} : {self.ctype(t)} := {self.pack(self.coerce(v, t))}.")
        return out

    def tracked(self, env):
        out = []
        for k in sorted(env):
            if k.startswith("self.") and env[k].t not in ("opaque", "none") and env[k].s is not None:
                out.append((k[5:], env[k]))
        return out

    def emit_record(self, inf, fields, extra_fields):
        fs = [f"{inf.cn}_{a} : {self.ctype(t)}" for a, t in fields] + extra_fields
        return f"Record {inf.cn} := {{ " + "; ".join(fs) + " }."

    def build(self, inf, vals):
        return "{| " + "; ".join(f"{inf.cn}_{a} := {v}" for a, v in vals) + " |}"

    def gen_props(self, inf, key, strict):
        out = []
        k = key
        seen = set()
        while k is not None and k not in ABSTRACT:
            for st in self.lib.cls(k).body:
                if isinstance(st, ast.FunctionDef) and self.is_property(st) and st.name not in seen:
                    seen.add(st.name)
                    ctx = Ctx(key, "prop")
                    pre = []
                    try:
                        v = self.get_attr(V("self", ({"sig": "sigv", "iface": "ifv"}.get(inf.kind, "obj"), key)), st.name, {}, pre, ctx)
                        if pre:
                            raise Untranslatable(f"property {st.name} may raise")
                        out.append(f"Definition gen_{inf.cn}_get_{st.name} (self : {inf.rec}) : {self.ctype(v.t)} := {self.pack(v)}.")
                    except Untranslatable as e:
                        if strict:
                            raise
                        out.append(f"(* property {st.name}: not translated *)")
            k = self.base_class(k)
        return out

    def gen_sig(self, key):
        inf = Info(key, "sig")
        inf.rec = inf.cn
        self.check_class_body(key, "sig")
        dk, fn, params, env, binders = self.init_env(key)
        env["self"] = V("self", ("self", key))
        ctx = Ctx(key, "sig")
        res = {}

        def k(e):
            if "@members" not in e:
                raise Untranslatable(f"{key[1]}.__init__ never calls super().__init__")
            res["fields"] = [(a, v.t) for a, v in self.tracked(e)]
            return "Ok " + self.build(inf, [(a, self.pack(v)) for a, v in self.tracked(e)] + [("members", e["@members"].s)])
        body = self.block(fn.body, env, ctx, k)
        inf.fields, inf.params, inf.rtype = res["fields"], params, ("sigv", key)
        self.info[key] = inf
        out = [self.src(key), self.emit_record(inf, inf.fields, [f"{inf.cn}_members : pdict pport"]),
               f"Definition gen_{inf.cn}_init {' '.join(binders)} : res {inf.cn} :=\n  {body}."]
        out += self.default_defs(inf, key, params)
        out += self.gen_props(inf, key, True)
        self.sec["sig"] += out + [""]
        self.sigs.append(key)
        return inf

    def gen_plain(self, key):
        inf = Info(key, "plain")
        inf.rec = inf.cn
        dk, fn, params, env, binders = self.init_env(key)
        env["self"] = V("self", ("self", key))
        ctx = Ctx(key, "plain", lenient=True)
        res = {}

        def k(e):
            res["fields"] = [(a, v.t) for a, v in self.tracked(e)]
            return "Ok " + self.build(inf, [(a, self.pack(v)) for a, v in self.tracked(e)])
        body = self.block(fn.body, env, ctx, k)
        if not res["fields"]:
            raise Untranslatable(f"{key[1]}: nothing to track")
        inf.fields, inf.params, inf.rtype, inf.extra = res["fields"], params, ("obj", key), ctx.extra
        self.info[key] = inf
        ex = [f"({n} : {t})" for n, t in ctx.extra]
        out = [self.src(key), self.emit_record(inf, inf.fields, []),
               f"Definition gen_{inf.cn}_init {' '.join(binders + ex)} : res {inf.cn} :=\n  {body}."]
        out += self.default_defs(inf, key, params)
        out += self.gen_props(inf, key, False)
        self.sec["plain"] += out + [""]
        return inf

    def gen_setters(self, inf, key, section):
        for st in self.lib.cls(key).body:
            if isinstance(st, ast.FunctionDef) and any(ast.unparse(d) == f"{st.name}.setter" for d in st.decorator_list):
                try:
                    dk, fn, params, env, binders = self.init_env(key, st.name, True)
                    if len(params) != 1:
                        raise Untranslatable("setter argument has no type")
                    env["self"] = V("self", ("ifv" if inf.kind == "iface" else "obj", key))
                    ctx = Ctx(key, "setter", lenient=True)
                    body = self.block(fn.body, env, ctx, lambda e: "Ok tt")
                    nm = f"gen_{inf.cn}_set_{st.name}"
                    ex = [f"({n} : {t})" for n, t in ctx.extra]
                    section.append(f"Definition {nm} (self : {inf.rec}) {' '.join(binders + ex)} : res unit :=\n  {body}.")
                    inf.setters[st.name] = (nm, [(p, t) for p, t, _ in params], ctx.extra)
                except Untranslatable as e:
                    section.append(f"(* setter {st.name}: not translated *)")

    def gen_iface(self, key):
        inf = Info(key, "iface")
        inf.rec = inf.cn
        self.check_class_body(key, "iface")
        dk, fn, params, env, binders = self.init_env(key)
        env["self"] = V("self", ("self", key))
        ctx = Ctx(key, "iface")
        res = {}

        def k(e):
            if "@signature" not in e:
                raise Untranslatable(f"{key[1]}.__init__ never calls super().__init__")
            s = e["@signature"]
            res["sig"] = s.t[1]
            res["fields"] = [(a, v.t) for a, v in self.tracked(e)]
            return "Ok " + self.build(inf, [(a, self.pack(v)) for a, v in self.tracked(e)] + [("signature", self.pack(s))])
        body = self.block(fn.body, env, ctx, k)
        inf.fields, inf.params, inf.rtype, inf.sigkey = res["fields"], params, ("ifv", key), res["sig"]
        self.info[key] = inf
        out = [self.src(key),
               self.emit_record(inf, inf.fields, [f"{inf.cn}_signature : (bool * {self.need(inf.sigkey).rec})"]),
               f"Definition gen_{inf.cn}_init {' '.join(binders)} : res {inf.cn} :=\n  {body}."]
        out += self.default_defs(inf, key, params)
        out += self.gen_props(inf, key, False)
        self.gen_setters(inf, key, out)
        self.sec["iface"] += out + [""]
        return inf

    def gen_eq(self, key):
        inf = self.need(key)
        dk, fn = self.find_def(key, "__eq__")
        if fn is None:
            return
        ps = self.func_params(fn)
        if len(ps) != 1:
            raise Untranslatable("__eq__ parameters")
        ctx = Ctx(key, "method", ret=("bool", lambda v: v.s))
        env = {"@rel": dk[0], "self": V("self", ("sigv", key)), ps[0][0]: V("other_0", "gsig")}
        body = self.block(fn.body, env, ctx, lambda e: (_ for _ in ()).throw(Untranslatable("__eq__ without return")))
        if ctx.mon:
            raise Untranslatable(f"{key[1]}.__eq__ may raise")
        self.sec["eq"] += [self.src(key) + " (* __eq__; a flipped `other` compares like the signature it wraps *)",
                           f"Definition gen_{inf.cn}_eq (self : {inf.rec}) (other_0 : gsig) : bool :=\n  {body}.", ""]

    def gen_create(self, key):
        inf = self.need(key)
        dk, fn = self.find_def(key, "create")
        if fn is None:
            self.sec["create"] += [self.src(key) + " (* create() is inherited from wiring.Signature: PureInterface(self) *)", ""]
            return
        got = {}

        def ret(v):
            if not (isinstance(v.t, tuple) and v.t[0] == "ifv" and v.flip == "false"):
                raise Untranslatable("create() does not return an interface")
            got["t"] = v.t
            return f"Ok {v.s}"
        ctx = Ctx(key, "method", ret=("val", ret))
        env = {"@rel": dk[0], "self": V("self", ("sigv", key))}
        for p, _, _ in self.func_params(fn):
            env[p] = V(None, "opaque")
        body = self.block(fn.body, env, ctx, lambda e: (_ for _ in ()).throw(Untranslatable("create without return")))
        inf.iface = got["t"][1]
        self.sec["create"] += [self.src(key) + " (* create *)",
                               f"Definition gen_{inf.cn}_create (self : {inf.rec}) : res {self.need(inf.iface).rec} :=\n  {body}.", ""]

    def super_init(self, c, env, ctx):
        args, kws = self.args_of(c)
        pre = []
        env2 = dict(env)
        if ctx.kind == "sig":
            if len(args) != 1 or kws:
                raise Untranslatable("wiring.Signature.__init__ arguments")
            d = self.expr(args[0], env, pre, ctx)
            if d.t == ("dict", None):
                d = V(d.s, ("dict", "port"))
            if d.t != ("dict", "port"):
                raise Untranslatable(f"members of a signature class must be ports, got {d.t}")
            if "@members" in env:
                raise Untranslatable("super().__init__ twice")
            w, env2 = self.let(ctx, "members", d, env, "@members")
            return ("seq", lambda rest: self.binds(pre, w(rest)), env2)
        if ctx.kind == "iface":
            if len(args) != 1 or set(kws) - {"path", "src_loc_at"}:
                raise Untranslatable("wiring.PureInterface.__init__ arguments")
            s = self.expr(args[0], env, pre, ctx)
            if not (isinstance(s.t, tuple) and s.t[0] == "sigv") or "@signature" in env:
                raise Untranslatable("PureInterface.__init__ wants one signature")
            env2["@signature"] = s
            return ("seq", lambda rest: self.binds(pre, rest), env2)
        if ctx.kind == "comp":
            if "@ports" in env or "@base" in env:
                raise Untranslatable("super().__init__ twice")
            base = self.base_class(ctx.key)
            if base is not None:
                binf = self.need(base)
                texts = self.bind_args(base, "__init__", binf.params, args, kws, env, pre, ctx) + self.pass_extra(binf.extra, ctx)
                b = self.bind(pre, ctx, "base", f"gen_{binf.cn}_init " + " ".join(texts), ("comp", base))
                env2["@base"] = b
                for name, ik in binf.ports.items():
                    env2["self." + name] = self.unpack(f"({binf.rec}_port_{name} {b.s})", ("ifv", ik))
                return ("seq", lambda rest: self.binds(pre, rest), env2)
            if len(args) != 1 or kws:
                raise Untranslatable("wiring.Component.__init__ arguments")
            d = self.expr(args[0], env, pre, ctx)
            if not (isinstance(d.t, tuple) and d.t[0] == "dict"):
                raise Untranslatable("Component.__init__ wants a dict")
            d = V(d.s, ("dict", "member"), static=getattr(d, "static", {})) if d.t[1] is None else \
                V(self.coerce(d, ("dict", "member")).s, ("dict", "member"), static=getattr(d, "static", {}))
            w, env2 = self.let(ctx, "ports", d, env, "@ports")
            created = {}
            # Component.__init__ creates one attribute per member: signature.members.create()
            for name, m in getattr(d, "static", {}).items():
                sv = getattr(m, "sigv", None)
                if sv is None or getattr(m, "arr", False):
                    env2["self." + name] = V(None, "opaque")
                    continue
                sinf = self.need(sv.t[1])
                if sinf.iface is None:
                    env2["self." + name] = V(None, "opaque")
                    continue
                i = self.bind(pre, ctx, "self_" + name, f"gen_{sinf.cn}_create {sv.s}", ("ifv", sinf.iface))
                fl = bxor("true" if m.flow == "In" else "false", sv.flip)
                env2["self." + name] = V(i.s, ("ifv", sinf.iface), flip=fl)
                created[name] = (i.s, sinf.iface, fl)
            env2["@created"] = created
            # the create() calls happen after the dict is complete
            dpre = [p for p in pre if not any(p[0] == v[0] for v in created.values())]
            cpre = [p for p in pre if any(p[0] == v[0] for v in created.values())]
            return ("seq", lambda rest: self.binds(dpre, w(self.binds(cpre, rest))), env2)
        raise Untranslatable("super().__init__ here")

    def gen_comp(self, key):
        inf = Info(key, "comp")
        self.check_class_body(key, "comp")
        dk, fn = self.find_def(key, "__init__")
        if fn is None or dk != key:
            raise Untranslatable(f"{key[1]} has no __init__ of its own")
        dk, fn, params, env, binders = self.init_env(key)
        env["self"] = V("self", ("self", key))
        ctx = Ctx(key, "comp", lenient=True)
        res = {}

        def k(e):
            if "@base" in e:
                binf = self.need(self.base_class(key))
                res["base"] = binf
                return f"Ok {e['@base'].s}"
            if "@ports" not in e:
                raise Untranslatable(f"{key[1]}.__init__ never calls super().__init__")
            res["created"] = e["@created"]
            return "Ok " + self.build(inf, [("ports", e["@ports"].s)] +
                                      [(f"port_{n}", f"({v[2]}, {v[0]})") for n, v in e["@created"].items()])
        body = self.block(fn.body, env, ctx, k)
        inf.params, inf.extra, inf.rtype = params, ctx.extra, ("comp", key)
        ex = [f"({n} : {t})" for n, t in ctx.extra]
        out = [self.src(key)]
        if "base" in res:
            inf.rec, inf.ports = res["base"].rec, res["base"].ports
            inf.rtype = ("comp", res["base"].key) if res["base"].rec == res["base"].cn else res["base"].rtype
        else:
            inf.rec = inf.cn
            inf.ports = {n: v[1] for n, v in res["created"].items()}
            out.append(f"Record {inf.cn} := {{ {inf.cn}_ports : pdict (pmember gsig)" +
                       "".join(f"; {inf.cn}_port_{n} : (bool * {self.need(v[1]).rec})" for n, v in res["created"].items()) + " }.")
        self.info[key] = inf
        out.append(f"Definition gen_{inf.cn}_init {' '.join(binders + ex)} : res {inf.rec} :=\n  {body}.")
        out += self.default_defs(inf, key, params)
        self.sec["comp"] += out + [""]
        return inf

    # ---------------------------------------------------------------------------------------- the file
    def discover(self):
        found = {"enum": [], "sig": [], "iface": [], "comp": []}
        for rel in self.lib.files():
            for q in self.lib.classes(rel):
                k = self.kind((rel, q))
                if k in found:
                    found[k].append((rel, q))
        return found

    def generate(self):
        found = self.discover()
        register = None
        for key in found["comp"]:
            if key[1] == "Register" and self.base_class(key) is None:
                register = key
        for key in found["enum"]:
            self.need(key)
        for key in found["sig"]:
            self.need(key)
        if not self.sigs:
            raise Untranslatable("no signature classes found")
        self.sec["gsig"] += ["(* any signature object of the library *)",
                             "Inductive gsig := " + " | ".join(f"G_{self.info[k].rec} (s : {self.info[k].rec})" for k in self.sigs) + ".", ""]
        for key in found["sig"]:
            self.gen_eq(key)
        for key in found["iface"]:
            self.need(key)
        for key in found["sig"]:
            self.gen_create(key)
        skipped = []
        for key in found["comp"]:
            dk, fn = self.find_def(key, "__init__")
            if dk != key or (register is not None and key != register and self.derives(key, register)):
                skipped.append(key)
                continue
            self.need(key)
        if skipped:
            self.sec["comp"] += ["(* not translated (port declaration inherited; see the module docstring): " +
                                 ", ".join(f"{k[0]}:{k[1]}" for k in skipped) + " *)", ""]
        head = ["(* GENERATED on every run by harness/translate9.py from /repo's current source. Do not edit. *)",
                "From Coq Require Import ZArith List Bool String.", "From Soc Require Import Lib.Bits Lib.Res Lib.PyWire.",
                "Import ListNotations.", "Open Scope Z_scope.", ""]
        body = []
        for s in ("enum", "sig", "gsig", "eq", "plain", "iface", "create", "comp"):
            body += [f"(* ======== {s} ======== *)"] + self.sec[s]
        return "\n".join(head + body) + "\n"


def generate(repo):
    return T(repo).generate()


# what runner.check_kernels runs for a property whose propdef sets the flag
STAGES = [("signatures", "SigGen.v", generate, "TieSig.v")]

if __name__ == "__main__":
    import sys
    print(generate(sys.argv[1] if len(sys.argv) > 1 else "/repo"))
