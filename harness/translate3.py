"""Fail-closed translator for `_RangeMap` (memory.py): insert / get / overlaps regenerated as Gallina over three
parallel lists (keys, starts, stops), exactly the data the Python class keeps; the `_values` dict is represented by
the keys themselves (the model's entries carry their assignment), so `self._values[k]` translates to `k` and
`self._values[key] = value` to nothing — any other use of `_values` aborts.

Types: Z (ints), nat (results of bisect, used as indices), key (a range: .start/.stop), keys (list of key),
zs (list of int), okey (result of indexing keys).  Gen/TieRangeMap.v proves the result equal to Model.MemoryMap's
rm_overlaps / rm_get / rm_insert with K := entry."""
import ast, os

from .translate import Untranslatable, find_func, attr_path

SELF_LISTS = {"self._keys": ("keys", "keys"), "self._starts": ("starts", "zs"), "self._stops": ("stops", "zs")}


class V:
    def __init__(self, s, t):
        self.s, self.t = s, t


class R:
    def __init__(self):
        self.n = 0

    def expr(self, n, env):
        if isinstance(n, ast.Name):
            if n.id in env:
                return env[n.id]
            raise Untranslatable(f"unknown name {n.id}")
        if isinstance(n, ast.Attribute):
            p = attr_path(n)
            if p in env:
                return env[p]
            if n.attr in ("start", "stop"):
                v = self.expr(n.value, env)
                if v.t == "key":
                    return V(f"(k_{n.attr} {v.s})", "Z")
            raise Untranslatable(f"attribute {p}")
        if isinstance(n, ast.Call):
            p = attr_path(n.func) if isinstance(n.func, ast.Attribute) else (n.func.id if isinstance(n.func, ast.Name) else None)
            if p in ("bisect.bisect_right", "bisect.bisect_left") and len(n.args) == 2 and not n.keywords:
                l = self.expr(n.args[0], env); x = self.expr(n.args[1], env)
                if l.t == "zs" and x.t == "Z":
                    return V(f"({p.split('.')[1]} {l.s} {x.s})", "nat")
            if p == "len" and len(n.args) == 1:
                l = self.expr(n.args[0], env)
                if l.t in ("keys", "zs"):
                    return V(f"(length {l.s})", "nat")
            if p == "self.overlaps" and len(n.args) == 1 and not n.keywords:
                k = self.expr(n.args[0], env)
                if k.t == "key":
                    return V(f"(gen_rm_overlaps keys starts stops {k.s})", "keys")
            raise Untranslatable("call " + ast.dump(n)[:100])
        if isinstance(n, ast.Subscript):
            base = self.expr(n.value, env) if not (isinstance(n.value, ast.Attribute) and attr_path(n.value) == "self._values") else None
            if base is None:
                # self._values[k]  ->  k
                k = self.expr(n.slice, env)
                if k.t in ("key",):
                    return k
                raise Untranslatable("self._values indexed by a non-key")
            if isinstance(n.slice, ast.Slice):
                if n.slice.step is not None or n.slice.lower is None or n.slice.upper is None:
                    raise Untranslatable("slice form")
                a = self.expr(n.slice.lower, env); b = self.expr(n.slice.upper, env)
                if base.t == "keys" and a.t == "nat" and b.t == "nat":
                    return V(f"(firstn ({b.s} - {a.s}) (skipn {a.s} {base.s}))", "keys")
                raise Untranslatable("slice types")
            i = self.expr(n.slice, env)
            if base.t == "keys" and i.t == "nat":
                return V(f"(nth_error {base.s} {i.s})", "okey")
            raise Untranslatable("subscript")
        if isinstance(n, ast.ListComp) and len(n.generators) == 1 and not n.generators[0].ifs:
            g = n.generators[0]
            src = self.expr(g.iter, env)
            if src.t == "keys" and isinstance(g.target, ast.Name):
                env2 = dict(env); env2[g.target.id] = V(g.target.id, "key")
                body = self.expr(n.elt, env2)
                if body.t == "key" and body.s == g.target.id:
                    return src          # [self._values[k] for k in L]  ==  L  under the representation
            raise Untranslatable("list comprehension")
        raise Untranslatable("expression " + ast.dump(n)[:100])

    def cond(self, n, env):
        if isinstance(n, ast.BoolOp) and isinstance(n.op, ast.And):
            return "(" + " && ".join(self.cond(v, env) for v in n.values) + ")"
        if isinstance(n, ast.UnaryOp) and isinstance(n.op, ast.Not):
            v = n.operand
            try:
                x = self.expr(v, env)
                if x.t == "keys":
                    return f"(is_nil {x.s})"
            except Untranslatable:
                pass
            return f"(negb {self.cond(v, env)})"
        if isinstance(n, ast.Compare) and len(n.ops) == 1:
            a = self.expr(n.left, env); b = self.expr(n.comparators[0], env)
            op = type(n.ops[0])
            if a.t == b.t == "Z":
                tab = {ast.Lt: "Z.ltb", ast.LtE: "Z.leb", ast.Gt: "Z.gtb", ast.GtE: "Z.geb", ast.Eq: "Z.eqb"}
                if op in tab:
                    return f"({tab[op]} {a.s} {b.s})"
            if a.t == b.t == "nat":
                tab = {ast.Lt: "Nat.ltb", ast.LtE: "Nat.leb", ast.Eq: "Nat.eqb"}
                if op in tab:
                    return f"({tab[op]} {a.s} {b.s})"
        raise Untranslatable("condition " + ast.dump(n)[:100])

    def block(self, body, env, ret_t, tail):
        """ret_t: 'keys' | 'okey' | 'state'.  tail() gives the value when the body falls off the end."""
        if not body:
            return tail(env)
        st, rest = body[0], body[1:]
        if isinstance(st, ast.Expr) and isinstance(st.value, ast.Constant):
            return self.block(rest, env, ret_t, tail)
        if isinstance(st, ast.Assert):
            t = st.test
            if isinstance(t, ast.Call) and isinstance(t.func, ast.Name) and t.func.id == "isinstance":
                return self.block(rest, env, ret_t, tail)
            if ret_t != "state":
                raise Untranslatable("assert outside insert")
            return f"(if negb {self.cond(t, env)} then Err AssertionError else\n  {self.block(rest, env, ret_t, tail)})"
        if isinstance(st, ast.Assign) and len(st.targets) == 1 and isinstance(st.targets[0], ast.Name):
            v = self.expr(st.value, env)
            nm = st.targets[0].id
            env2 = dict(env); env2[nm] = V(nm, v.t)
            if v.t == "okey":
                # indexing: bind the element; out of range cannot be expressed in Python without raising,
                # the generated code returns the fall-through value there
                env2[nm] = V(nm, "key")
                return (f"(match {v.s} with Some {nm} =>\n  {self.block(rest, env2, ret_t, tail)}\n  | None => {tail(env)} end)")
            return f"(let {nm} := {v.s} in\n  {self.block(rest, env2, ret_t, tail)})"
        if isinstance(st, ast.Assign) and len(st.targets) == 1 and isinstance(st.targets[0], ast.Subscript) \
                and isinstance(st.targets[0].value, ast.Attribute) and attr_path(st.targets[0].value) == "self._values":
            k = self.expr(st.targets[0].slice, env)
            if ret_t == "state" and k.t == "key" and isinstance(st.value, ast.Name) and st.value.id == "value":
                return self.block(rest, env, ret_t, tail)
            raise Untranslatable("store into self._values")
        if isinstance(st, ast.Expr) and isinstance(st.value, ast.Call) and isinstance(st.value.func, ast.Attribute) \
                and st.value.func.attr == "insert" and ret_t == "state":
            p = attr_path(st.value.func.value)
            if p in SELF_LISTS and len(st.value.args) == 2:
                lst = env[p]; i = self.expr(st.value.args[0], env); x = self.expr(st.value.args[1], env)
                want = "key" if lst.t == "keys" else "Z"
                if i.t == "nat" and x.t == want:
                    env2 = dict(env)
                    self.n += 1
                    nm = f"{lst.s.split('_')[0]}_{self.n}"
                    env2[p] = V(nm, lst.t)
                    return f"(let {nm} := insert_at {i.s} {x.s} {lst.s} in\n  {self.block(rest, env2, ret_t, tail)})"
            raise Untranslatable("list insert")
        if isinstance(st, ast.If) and not st.orelse:
            c = self.cond(st.test, env)
            inner = self.block(st.body, env, ret_t, tail)
            return f"(if {c} then {inner} else\n  {self.block(rest, env, ret_t, tail)})"
        if isinstance(st, ast.Return) and st.value is not None:
            v = self.expr(st.value, env)
            if ret_t == "keys" and v.t == "keys":
                return v.s
            if ret_t == "okey" and v.t == "key":
                return f"(Some {v.s})"
            raise Untranslatable("return type")
        raise Untranslatable("statement " + ast.dump(st)[:100])


def generate(repo):
    src = open(os.path.join(repo, "amaranth_soc/memory.py")).read()
    tree = ast.parse(src)
    env0 = {p: V(n, t) for p, (n, t) in SELF_LISTS.items()}
    out = ["(* GENERATED on every run by harness/translate3.py from /repo's current source. Do not edit. *)",
           "From Coq Require Import ZArith List Bool Arith.", "From Soc Require Import Lib.PyList Lib.Res.",
           "Import ListNotations.", "Open Scope Z_scope.", "",
           "Section RangeMap.", "Variable K : Type.", "Variables k_start k_stop : K -> Z.",
           "Definition is_nil (l : list K) : bool := match l with [] => true | _ => false end.", ""]
    r = R()
    fn = find_func(tree, ["_RangeMap", "overlaps"])
    env = dict(env0); env["key"] = V("key", "key")
    body = r.block(fn.body, env, "keys", lambda e: (_ for _ in ()).throw(Untranslatable("overlaps: no return")))
    out += ["(* _RangeMap.overlaps *)",
            f"Definition gen_rm_overlaps (keys : list K) (starts stops : list Z) (key : K) : list K :=\n  {body}.", ""]
    fn = find_func(tree, ["_RangeMap", "get"])
    env = dict(env0); env["point"] = V("point", "Z")
    body = r.block(fn.body, env, "okey", lambda e: "None")
    out += ["(* _RangeMap.get (falling off the end returns None) *)",
            f"Definition gen_rm_get (keys : list K) (starts stops : list Z) (point : Z) : option K :=\n  {body}.", ""]
    fn = find_func(tree, ["_RangeMap", "insert"])
    env = dict(env0); env["key"] = V("key", "key")

    def tail(e):
        return f"(Ok ({e['self._keys'].s}, {e['self._starts'].s}, {e['self._stops'].s}))"
    body = r.block(fn.body, env, "state", tail)
    out += ["(* _RangeMap.insert: new (keys, starts, stops); the asserts are AssertionError results *)",
            "Definition gen_rm_insert (keys : list K) (starts stops : list Z) (key : K) : res (list K * list Z * list Z) :=\n"
            f"  {body}.", "", "End RangeMap."]
    return "\n".join(out) + "\n"


# what runner.check_kernels runs for a property whose propdef sets the flag
STAGES = [("rangemap", "RangeMap.v", generate, "TieRangeMap.v")]

if __name__ == "__main__":
    import sys
    print(generate(sys.argv[1] if len(sys.argv) > 1 else "/repo"))
