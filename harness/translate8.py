"""Fail-closed translator for the shadow registers of csr.Multiplexer (csr/bus.py): `Multiplexer._Shadow`, its `Chunk`,
`Multiplexer.__init__`, `_check_memory_map` and the Python skeleton of `Multiplexer.elaborate`, regenerated as monadic
Gallina (`res`, Lib/Res.v) on every run -> Gen/ShadowGen.v; Gen/TieShadow.v proves the result equal to Model/Mux.v.
Needs the kernel stage (flag "kernels", Gen/Kernels.v) in the same run: the arithmetic of decode_address / encode_offset
is NOT translated again, the call goes to gen_shadow_decode / gen_shadow_encode of Kernels.v and only the leading
`assert` of the two methods is translated here.

What is translated, by general rules over the AST (anything else raises Untranslatable):
 statements   assignment to a local, to `self.<attr>` (the record is rebuilt: `set_<field> self v`) and to `d[k]` of a
              dict; augmented assignment; `assert c` (Err AssertionError when c is false; `isinstance(x, T)` of a value
              whose translated type is T is the constant true); `if/else` (arms that end in return/raise/break are
              continued separately, otherwise the variables assigned in the arms are joined); `raise E(...)` (the
              message is not evaluated); `return`, `return e`; `for x in L` / `for a, (b, c) in L` with `break`
              (py_for of Lib/PyShadow.v: the loop state is the tuple of the variables the body assigns or mutates);
              `while c:` (py_while, fuelled); `x.append(e)`, `s.add(e)`, `d[k].append(e)`; `yield e` / `yield from l`
              (the function returns the list of what it yields: a generator is represented by the list of its items,
              built eagerly; this is sound only because every generator here is consumed once, entirely, right where
              it is created, and the translator accepts a generator call only as the iterable of a `for`);
              a call of a translated method as a statement or as the whole right-hand side of an assignment;
              self-recursion (`self.prepare()`) through the parameter `rec` of gen_<f>_body, closed by a Fixpoint on
              `fuel : nat` (out of fuel = Err OtherError, standing for RecursionError); callers get a `fuel` parameter.
 expressions  ints, None, True/False, + - * // % ** << >> & | ^ ~, comparisons, `and/or/not` (short-circuit effects
              are guarded), `is None`, `isinstance`, `in`, max/min/len/ceil_log2/any(genexp)/sorted(key=lambda)/
              tuple/list/set/frozenset/dict/defaultdict(list)/range(a, b), attribute reads of record fields,
              properties (inlined), f-strings (lists of parts), tuples.
 objects      a class is a Coq record whose fields are the attributes assigned in `__init__`, in that order, with the
              types of the assigned values; `self` is rebound on every store.
              range            the pair (start, stop); step is 1
              set/frozenset    `rset`: duplicate-free element list in insertion order + frozen flag; the ORDER IS NOT
                               MEANINGFUL (a Python set iterates in hash order): the translator accepts iteration over
                               a set only through sorted(), and TieShadow proves the result for every enumeration
              defaultdict(list), dict   association lists in insertion order (language guarantee since 3.7); reading
                               a missing key of the defaultdict inserts [] (dd_touch), also inside a condition
              memory map       record `mmap` (is it a MemoryMap, widths, windows as an opaque list, resources in
                               ascending address order as `resources()` yields them); a resource is a record of its
                               range and the six boolean facts the code asks about it, recognised by the text of the
                               expression with the variable name removed (RES_ATOMS); a fact that subscripts
                               members['element'] is only accepted to the right of the `'element' in ...` conjunct
              memory_map.decode_address(a)  the register found at a, represented by the address a itself
              Amaranth         opaque constructors of `aval` / `astmt` (defined in the generated file): Signal, ports of
                               self.bus, <register>.element.<member>, x.eq(y), Mux, _or_reduce, word_select, Const;
                               Module() is the list of statements added so far, `m.d.<domain> += s`, `with m.Switch/
                               Case/If(...)` nest lists.  Only the STRUCTURE is compared with the model.
              wiring.Component.__init__({"bus": In(Signature(addr_width=a, data_width=d))})  gives self.bus.addr_width
                               = a, self.bus.data_width = d and the ports BUS_PORTS of self.bus
 exceptions   `res`: AssertionError / ValueError / TypeError / KeyError, every other class is OtherError."""
import ast, os

from .translate import Untranslatable, BINOPS, find_func, attr_path, KERNELS

FILE = "amaranth_soc/csr/bus.py"
BUS_PORTS = ("addr", "r_data", "r_stb", "w_data", "w_stb")
ELEM_MEMBERS = ("r_data", "r_stb", "w_data", "w_stb")

# ---------------------------------------------------------------------------------------------------- types
LIST = lambda t: ("list", t)
PROD = lambda *ts: ("prod", tuple(ts))
RLIST, ZLIST, AVALS, MOD = LIST("rng"), LIST("Z"), LIST("aval"), LIST("astmt")
CDICT = LIST(PROD("Z", "chunk"))
OCDICT = ("option", CDICT)
DDICT = ("ddict", "rng")
RECORDS = {"shadow", "chunk", "mux"}


def coq_ty(t):
    if isinstance(t, str):
        return {"none": "unit", "unit": "unit"}.get(t, t)
    if t[0] == "list":
        return f"(list {coq_ty(t[1])})"
    if t[0] == "option":
        return f"(option {coq_ty(t[1])})"
    if t[0] == "ddict":
        return f"(ddict {coq_ty(t[1])})"
    if t[0] == "prod":
        return "(" + " * ".join(coq_ty(x) for x in t[1]) + ")%type"
    raise Untranslatable(f"type {t}")


class V:
    """typed Coq expression; .items for Python tuples (t == 'tuple'), .opaque for values that must not be used"""
    def __init__(self, s, t, items=None):
        self.s, self.t, self.items = s, t, items


def tup(items):
    return V(None, "tuple", items)


def coerce(v, t):
    """value v used where type t is expected"""
    if v.t == t:
        return v.s
    if t == "pyint" and v.t == "Z":
        return f"(VInt {v.s})"
    if t == "pyint" and v.t == "none":
        return "VNone"
    if t == "Z" and v.t == "pyint":
        return f"(zof {v.s})"
    if t == "pystr" and v.t == "pname":
        return f"(VStr {v.s})"
    if t == "pname" and v.t == "pystr":
        return f"(sof {v.s})"
    if isinstance(t, tuple) and t[0] == "option" and v.t == "none":
        return "None"
    if isinstance(t, tuple) and t[0] == "option" and v.t == t[1]:
        return f"(Some {v.s})"
    if t == "aval" and v.t == "Z":
        return f"(AConst {v.s})"
    if v.t == "emptylist" and isinstance(t, tuple) and t[0] == "list":
        return "[]"
    if v.t == "tuple" and isinstance(t, tuple) and t[0] == "prod" and len(t[1]) == len(v.items):
        return "(" + ", ".join(coerce(x, y) for x, y in zip(v.items, t[1])) + ")"
    raise Untranslatable(f"a value of type {v.t} where {t} is expected: {v.s}")


def type_of(v):
    if v.t == "tuple":
        return PROD(*[type_of(x) for x in v.items])
    return v.t


def asZ(v):
    return coerce(v, "Z")


# facts about a resource object, by the text of the expression with the variable replaced by `_`;
# (field of `resource`, fact that must have been established to the left in the same conjunction)
RES_ATOMS = {
    "'element' in _.signature.members": ("rs_has_element", None),
    "_.signature.members['element'].flow == Out": ("rs_flow_out", "rs_has_element"),
    "_.signature.members['element'].is_signature": ("rs_is_sig", "rs_has_element"),
    "isinstance(_.signature.members['element'].signature, Element.Signature)": ("rs_sig_elem", "rs_has_element"),
    "_.element.access.readable()": ("rs_readable", None),
    "_.element.access.writable()": ("rs_writable", None),
}

PRELUDE = """(* GENERATED on every run by harness/translate8.py from /repo's current source. Do not edit. *)
From Coq Require Import ZArith List Bool String.
From Soc Require Import Lib.Bits Lib.Res Lib.PyShadow.
From SocGen Require Import Kernels.
Import ListNotations.
Open Scope Z_scope.

(* Amaranth objects: opaque constructors *)
Inductive aval :=
| ASig (width : Z) (name : pname)            (* Signal(width, name=...) *)
| APort (name : string)                      (* self.bus.<name> *)
| AElem (addr : Z) (member : string)         (* memory_map.decode_address(addr).element.<member> *)
| AConst (z : Z)
| AWordSel (v : aval) (offset width : Z)     (* v.word_select(offset, width) *)
| AMux (c a b : aval)
| AOrReduce (l : list aval)                  (* _or_reduce(l) *)
| AEq (lhs rhs : aval).                      (* lhs.eq(rhs) *)
Inductive astmt :=
| SAdd (domain : string) (s : aval)          (* m.d.<domain> += s *)
| SSwitch (v : aval) (body : list astmt)     (* with m.Switch(v): *)
| SCase (pattern : Z) (body : list astmt)    (* with m.Case(pattern): *)
| SIf (c : aval) (body : list astmt).        (* with m.If(c): *)

(* a register as memory_map.resources() yields it, and the facts the code asks about the object *)
Record resource := mk_resource { rs_start : Z; rs_stop : Z; rs_readable : bool; rs_writable : bool;
  rs_has_element : bool; rs_flow_out : bool; rs_is_sig : bool; rs_sig_elem : bool }.
Record mmap := mk_mmap { mm_is_map : bool; mm_addr_width : Z; mm_data_width : Z; mm_windows : list unit;
  mm_resources : list resource }.
Definition is_nil {A} (l : list A) : bool := match l with [] => true | _ => false end.
"""


class Cls:
    def __init__(self, node, rec, prefix):
        self.node, self.rec, self.prefix = node, rec, prefix
        self.fields = None          # [(path, type)] after __init__ is translated
        self.fns = {}               # method name -> Fn
        self.ifaces = {}            # "bus" -> True

    def method(self, name):
        for ch in self.node.body:
            if isinstance(ch, ast.FunctionDef) and ch.name == name:
                return ch
        return None

    def fname(self, path):
        return self.prefix + "_" + path.replace(".", "_").lstrip("_").replace("__", "_")

    def ftype(self, path):
        for p, t in self.fields:
            if p == path:
                return t
        return None


class Fn:
    def __init__(self, name):
        self.name = name
        self.params = []            # [(coq name, type)]
        self.has_self = False
        self.mutates = False
        self.ret = None             # type of the returned value or None
        self.fuel = False
        self.generator = False
        self.text = None
        self.done = False


EXN = {"ValueError": "ValueError", "TypeError": "TypeError", "KeyError": "KeyError", "AssertionError": "AssertionError"}
TERMINAL = (ast.Return, ast.Raise, ast.Break, ast.Continue)


def has_terminal(body):
    for st in body:
        for x in ast.walk(st):
            if isinstance(x, TERMINAL):
                return True
    return False


def root_name(n):
    while isinstance(n, (ast.Attribute, ast.Subscript, ast.Call)):
        n = n.func if isinstance(n, ast.Call) else n.value
    return n.id if isinstance(n, ast.Name) else None


class Ctx:
    """what return / break mean where we are"""
    def __init__(self, ret, brk=None, cont=None):
        self.ret, self.brk, self.cont = ret, brk, cont


class T:
    def __init__(self, tree):
        self.tree = tree
        self.n = 0
        self.pre = []               # bindings that must precede the statement being translated
        self.out = []               # generated function texts, in order
        mux = find_func(tree, ["Multiplexer"])
        sh = find_func(tree, ["Multiplexer", "_Shadow"])
        ch = find_func(tree, ["Multiplexer", "_Shadow", "Chunk"])
        self.classes = {"chunk": Cls(ch, "chunk", "ch"), "shadow": Cls(sh, "shadow", "sh"), "mux": Cls(mux, "mux", "mx")}
        self.by_pyname = {"Chunk": "chunk", "_Shadow": "shadow", "Multiplexer": "mux"}
        self.field_hint = {("shadow", "_chunks"): OCDICT}
        self.param_types = {
            ("shadow", "__init__"): {"granularity": "pyint", "overlaps": "pyint", "name": "pystr"},
            ("chunk", "__init__"): {"shadow": "shadow", "offset": "Z", "registers": RLIST},
            ("shadow", "add"): {"reg_range": "rng"},
            ("shadow", "decode_address"): {"addr": "Z", "reg_range": "rng"},
            ("shadow", "encode_offset"): {"offset": "Z", "reg_range": "rng"},
            ("mux", "__init__"): {"memory_map": "mmap", "shadow_overlaps": "pyint"},
            ("mux", "_check_memory_map"): {"memory_map": "mmap"},
            ("mux", "elaborate"): {"platform": "opaque"},
        }
        # method names that (syntactically) change their object: a store through self, .append/.add on something
        # reached from self, or a call of such a method
        self.mutators = set()
        changed = True
        while changed:
            changed = False
            for cls in self.classes.values():
                for fn in cls.node.body:
                    if not isinstance(fn, ast.FunctionDef) or fn.name in self.mutators or fn.name == "__init__":
                        continue
                    for x in ast.walk(fn):
                        hit = False
                        if isinstance(x, (ast.Assign, ast.AugAssign)):
                            for t in (x.targets if isinstance(x, ast.Assign) else [x.target]):
                                hit |= isinstance(t, (ast.Attribute, ast.Subscript)) and root_name(t) == "self"
                        elif isinstance(x, ast.Call) and isinstance(x.func, ast.Attribute) and root_name(x.func.value) == "self":
                            hit = x.func.attr in ("append", "add") or x.func.attr in self.mutators
                        if hit:
                            self.mutators.add(fn.name)
                            changed = True
                            break
        self.stack = []             # (cls key, method) being translated
        self.cur = None             # Fn being translated

    def fresh(self, base):
        self.n += 1
        base = "".join(c if c.isalnum() or c == "_" else "_" for c in base).strip("_") or "v"
        return f"{base}_{self.n}"

    # ------------------------------------------------------------------------------------------ places
    def resolve_attr(self, n, env):
        """attribute chain -> V.  Handles record fields (flattened paths), properties, ranges, resources, chunks,
        bus ports and register elements."""
        chain = []
        base = n
        while isinstance(base, ast.Attribute):
            chain.append(base.attr)
            base = base.value
        chain.reverse()
        v = self.expr(base, env)
        i = 0
        while i < len(chain):
            v, used = self.step_attr(v, chain[i:], env)
            i += used
        return v

    def step_attr(self, v, chain, env):
        a = chain[0]
        if v.t == "self_init":                      # inside __init__: fields live in the environment
            for k in range(len(chain), 0, -1):
                p = "self." + ".".join(chain[:k])
                if p in env:
                    return env[p], k
            cls = self.classes[self.stack[-1][0]]
            if a in cls.ifaces and len(chain) >= 2 and chain[1] in BUS_PORTS:
                return V(f'(APort "{a}.{chain[1]}")', "aval"), 2
            raise Untranslatable(f"self.{'.'.join(chain)} read before it is assigned")
        if v.t in RECORDS:
            cls = self.classes[v.t]
            if cls.fields is None:
                self.translate(v.t, "__init__")
            for k in range(len(chain), 0, -1):
                p = ".".join(chain[:k])
                t = cls.ftype(p)
                if t is not None:
                    return V(f"({cls.fname(p)} {v.s})", t), k
            fn = cls.method(a)
            if fn is not None and any(isinstance(d, ast.Name) and d.id == "property" for d in fn.decorator_list):
                body = [s for s in fn.body if not (isinstance(s, ast.Expr) and isinstance(s.value, ast.Constant))]
                if len(body) == 1 and isinstance(body[0], ast.Return) and body[0].value is not None:
                    return self.expr(body[0].value, {"self": v}), 1
                raise Untranslatable(f"property {a}: only `return <expression>` is supported")
            if a in cls.ifaces and len(chain) >= 2 and chain[1] in BUS_PORTS:
                return V(f'(APort "{a}.{chain[1]}")', "aval"), 2
            raise Untranslatable(f"attribute {a} of a {v.t}")
        if v.t == "rng":
            if a in ("start", "stop"):
                return V(f"(r{a} {v.s})", "Z"), 1
            if a == "step":
                return V("1", "Z"), 1
        if v.t == "mmap" and a in ("addr_width", "data_width"):
            return V(f"(mm_{a} {v.s})", "Z"), 1
        if v.t == "regref" and a == "element" and len(chain) >= 2 and chain[1] in ELEM_MEMBERS:
            return V(f'(AElem {v.s} "{chain[1]}")', "aval"), 2
        raise Untranslatable(f"attribute {a} of a value of type {v.t}")

    def store_attr(self, target, val, env):
        """self.<path> = val  ->  text of the binding, env updated"""
        path = attr_path(target)
        parts = path.split(".")
        if parts[0] not in env:
            raise Untranslatable(f"store to {path}")
        root = env[parts[0]]
        if root.t == "self_init":
            key = "self." + ".".join(parts[1:])
            hint = self.field_hint.get((self.stack[-1][0], ".".join(parts[1:])))
            if key in env:
                hint = env[key].t
            s = coerce(val, hint) if hint else val.s
            if val.t in ("none", "tuple", "opaque") and not hint:
                raise Untranslatable(f"cannot infer the type of field {key}")
            nm = self.fresh(parts[-1])
            env[key] = V(nm, hint or val.t)
            return f"let {nm} := {s} in"
        return self.store_path(parts[0], parts[1:], val, env)

    def store_path(self, rootname, parts, val, env):
        root = env[rootname]
        if root.t not in RECORDS:
            raise Untranslatable(f"store into an attribute of a {root.t}")
        cls = self.classes[root.t]
        if cls.fields is None:
            self.translate(root.t, "__init__")
        for k in range(len(parts), 0, -1):
            p = ".".join(parts[:k])
            t = cls.ftype(p)
            if t is None:
                continue
            if k == len(parts):
                new = coerce(val, t)
            else:
                if t not in RECORDS:
                    raise Untranslatable(f"store through {p}")
                inner_env = {"$x": V(f"({cls.fname(p)} {root.s})", t)}
                line = self.store_path("$x", parts[k:], val, inner_env)
                # line is "let x := set.. in": take the expression
                new = line[line.index(":=") + 2: -3].strip()
            nm = self.fresh(rootname)
            env[rootname] = V(nm, root.t)
            return f"let {nm} := set_{cls.fname(p)} {root.s} {new} in"
        raise Untranslatable(f"no field {'.'.join(parts)} in {root.t}")

    # ------------------------------------------------------------------------------------------ expressions
    def expr(self, n, env):
        if isinstance(n, ast.Constant):
            if isinstance(n.value, bool):
                return V("true" if n.value else "false", "bool")
            if isinstance(n.value, int):
                return V(f"({n.value})", "Z")
            if n.value is None:
                return V("tt", "none")
            if isinstance(n.value, str):
                return V(f'[SLit "{self.lit(n.value)}"]', "pname")
        if isinstance(n, ast.Name):
            if n.id in env:
                v = env[n.id]
                if v.t == "opaque":
                    raise Untranslatable(f"use of the opaque value {n.id}")
                return v
            raise Untranslatable(f"unknown name {n.id}")
        if isinstance(n, ast.Attribute):
            a = self.atom(n, env)
            if a is not None:
                return a
            return self.resolve_attr(n, env)
        if isinstance(n, ast.JoinedStr):
            parts = []
            for p in n.values:
                if isinstance(p, ast.Constant) and isinstance(p.value, str):
                    parts.append(f'[SLit "{self.lit(p.value)}"]')
                elif isinstance(p, ast.FormattedValue) and p.conversion == -1 and p.format_spec is None:
                    v = self.expr(p.value, env)
                    if v.t in ("pname", "pystr"):
                        parts.append(coerce(v, "pname"))
                    elif v.t in ("Z", "pyint"):
                        parts.append(f"[SInt {asZ(v)}]")
                    else:
                        raise Untranslatable(f"f-string part of type {v.t}")
                else:
                    raise Untranslatable("f-string conversion / format spec")
            return V("(" + " ++ ".join(parts) + ")" if parts else "[]", "pname")
        if isinstance(n, ast.Tuple):
            return tup([self.expr(e, env) for e in n.elts])
        if isinstance(n, ast.List) and not n.elts:
            return V("[]", "emptylist")         # element type fixed by the first append
        if isinstance(n, ast.BinOp) and type(n.op) in BINOPS:
            l, r = self.expr(n.left, env), self.expr(n.right, env)
            return V(f"({BINOPS[type(n.op)]} {asZ(l)} {asZ(r)})", "Z")
        if isinstance(n, ast.UnaryOp) and isinstance(n.op, ast.Invert):
            return V(f"(Z.lnot {asZ(self.expr(n.operand, env))})", "Z")
        if isinstance(n, ast.UnaryOp) and isinstance(n.op, ast.USub):
            return V(f"(Z.opp {asZ(self.expr(n.operand, env))})", "Z")
        if isinstance(n, ast.UnaryOp) and isinstance(n.op, ast.Not):
            return V(f"(negb {self.truth(self.expr(n.operand, env))})", "bool")
        if isinstance(n, ast.BoolOp):
            return self.boolop(n, env)
        if isinstance(n, ast.Compare) and len(n.ops) == 1:
            return self.compare(n, env)
        if isinstance(n, ast.Subscript):
            return self.subscript(n, env)
        if isinstance(n, ast.Call):
            return self.call(n, env)
        raise Untranslatable("expression " + ast.dump(n)[:100])

    @staticmethod
    def lit(s):
        if '"' in s or "\\" in s or "\n" in s:
            raise Untranslatable("string literal with quote / backslash / newline")
        return s

    def truth(self, v):
        if v.t == "bool":
            return v.s
        if isinstance(v.t, tuple) and v.t[0] == "list":
            return f"(negb (is_nil {v.s}))"
        raise Untranslatable(f"truth value of a {v.t}")

    def guarded(self, guard, f):
        """evaluate f() so that its side effects (dd_touch) only happen when `guard` holds"""
        old = self.guard
        self.guard = guard if old is None else f"({old} && {guard})"
        try:
            return f()
        finally:
            self.guard = old

    guard = None
    known = ()                      # resource facts established to the left in the current conjunction

    def boolop(self, n, env):
        is_and = isinstance(n.op, ast.And)
        texts = []
        old_known = self.known
        try:
            for i, operand in enumerate(n.values):
                if i == 0:
                    v = self.expr(operand, env)
                else:
                    prev = "(" + " && ".join(texts) + ")" if is_and else "(negb (" + " || ".join(texts) + "))"
                    v = self.guarded(prev, lambda: self.expr(operand, env))
                t = self.truth(v)
                texts.append(t)
                if is_and and getattr(v, "fact", None):
                    self.known = self.known + (v.fact,)
        finally:
            self.known = old_known
        return V("(" + (" && " if is_and else " || ").join(texts) + ")", "bool")

    def atom(self, n, env):
        """a boolean fact about a resource object, recognised by its text with the variable name removed"""
        names = [x.id for x in ast.walk(n) if isinstance(x, ast.Name) and x.id in env and env[x.id].t == "resource"]
        if len(set(names)) != 1:
            return None

        class Sub(ast.NodeTransformer):
            def visit_Name(s, node):
                return ast.copy_location(ast.Name(id="_", ctx=node.ctx), node) if node.id == names[0] else node
        import copy
        txt = ast.unparse(Sub().visit(copy.deepcopy(n)))
        if txt in RES_ATOMS:
            field, needs = RES_ATOMS[txt]
            if needs and needs not in self.known:
                raise Untranslatable(f"`{ast.unparse(n)}` is evaluated without the test that makes it defined")
            v = V(f"({field} {env[names[0]].s})", "bool")
            v.fact = field
            return v
        return None

    def compare(self, n, env):
        op = type(n.ops[0]); l, r = n.left, n.comparators[0]
        a = self.atom(n, env)
        if a is not None:
            return a
        if op in (ast.Is, ast.IsNot) and isinstance(r, ast.Constant) and r.value is None:
            v = self.expr(l, env)
            if v.t != "pyint":
                raise Untranslatable(f"`is None` on a value of type {v.t}")
            return V(f"(is_none {v.s})" if op is ast.Is else f"(negb (is_none {v.s}))", "bool")
        if op in (ast.In, ast.NotIn):
            x, c = self.expr(l, env), self.expr(r, env)
            if x.t == "rng" and c.t == "rset":
                s = f"(set_mem {x.s} {c.s})"
            elif x.t in ("Z", "pyint") and c.t == "rng":
                s = f"(in_range {asZ(x)} {c.s})"
            else:
                raise Untranslatable(f"`in` between {x.t} and {c.t}")
            return V(s if op is ast.In else f"(negb {s})", "bool")
        x, y = self.expr(l, env), self.expr(r, env)
        a, b = asZ(x), asZ(y)
        tab = {ast.Eq: "Z.eqb", ast.Lt: "Z.ltb", ast.LtE: "Z.leb", ast.Gt: "Z.gtb", ast.GtE: "Z.geb"}
        if op is ast.NotEq:
            return V(f"(negb (Z.eqb {a} {b}))", "bool")
        if op in tab:
            return V(f"({tab[op]} {a} {b})", "bool")
        raise Untranslatable("comparison " + ast.dump(n)[:100])

    def touch(self, name, key, env):
        """reading d[k] of a defaultdict inserts the default: rebind d (guarded by the short-circuit path)"""
        d = env[name]
        nm = self.fresh(name)
        new = f"(dd_touch {d.s} {key})"
        if self.guard is not None:
            new = f"(if {self.guard} then {new} else {d.s})"
        self.pre.append(f"let {nm} := {new} in")
        env[name] = V(nm, d.t)

    def subscript(self, n, env):
        if isinstance(n.slice, ast.Slice):
            raise Untranslatable("slice")
        base = self.expr(n.value, env)
        if isinstance(base.t, tuple) and base.t[0] == "ddict":
            if not isinstance(n.value, ast.Name):
                raise Untranslatable("defaultdict that is not a local variable")
            k = asZ(self.expr(n.slice, env))
            v = V(f"(dd_get {base.s} {k})", LIST(base.t[1]))
            self.touch(n.value.id, k, env)
            return v
        raise Untranslatable(f"subscript of a {base.t}")

    def class_of_call(self, f, env):
        """`self._Shadow`, `Multiplexer._Shadow.Chunk` -> class key"""
        if isinstance(f, ast.Attribute) and f.attr in self.by_pyname:
            r = root_name(f)
            if r == "self" or r in self.by_pyname:
                return self.by_pyname[f.attr]
        return None

    def call(self, n, env):
        f = n.func
        a = self.atom(n, env)
        if a is not None:
            return a
        kw = {k.arg: k.value for k in n.keywords}
        if None in kw:
            raise Untranslatable("**kwargs")
        if isinstance(f, ast.Name):
            name = f.id
            args = n.args
            if name in ("max", "min") and len(args) == 2 and not kw:
                return V(f"(Z.{name} {asZ(self.expr(args[0], env))} {asZ(self.expr(args[1], env))})", "Z")
            if name == "ceil_log2" and len(args) == 1 and not kw:
                return V(f"(ceil_log2 {asZ(self.expr(args[0], env))})", "Z")
            if name == "range" and len(args) == 2 and not kw:
                return V(f"({asZ(self.expr(args[0], env))}, {asZ(self.expr(args[1], env))})", "rng")
            if name == "len" and len(args) == 1 and not kw:
                v = self.expr(args[0], env)
                if v.t == "rset":
                    return V(f"(set_len {v.s})", "Z")
                if isinstance(v.t, tuple) and v.t[0] == "list":
                    return V(f"(Z.of_nat (List.length {v.s}))", "Z")
                raise Untranslatable(f"len of a {v.t}")
            if name == "isinstance" and len(args) == 2 and not kw:
                v = self.expr(args[0], env)
                cls = ast.unparse(args[1])
                if cls == "int":
                    if v.t == "pyint":
                        return V(f"(is_int {v.s})", "bool")
                    if v.t == "Z":
                        return V("true", "bool")
                if cls == "str":
                    if v.t == "pystr":
                        return V(f"(is_str {v.s})", "bool")
                    if v.t == "pname":
                        return V("true", "bool")
                if cls == "range" and v.t == "rng":
                    return V("true", "bool")
                if cls == "frozenset" and v.t == "rset":
                    return V(f"(rs_frozen {v.s})", "bool")
                if cls == "MemoryMap" and v.t == "mmap":
                    return V(f"(mm_is_map {v.s})", "bool")
                raise Untranslatable(f"isinstance({v.t}, {cls})")
            if name == "set" and not args and not kw:
                return V("set_new", "rset")
            if name == "frozenset" and len(args) == 1 and not kw:
                v = self.expr(args[0], env)
                if v.t == "rset":
                    return V(f"(set_freeze {v.s})", "rset")
                raise Untranslatable("frozenset of a non-set")
            if name == "dict" and not args and not kw:
                return V("[]", CDICT)
            if name == "defaultdict" and len(args) == 1 and not kw and ast.unparse(args[0]) == "list":
                return V("[]", DDICT)
            if name in ("tuple", "list") and len(args) == 1 and not kw:
                v = self.expr(args[0], env)
                if isinstance(v.t, tuple) and v.t[0] == "list":
                    return v
                raise Untranslatable(f"{name}() of a {v.t}")
            if name == "sorted" and len(args) == 1 and set(kw) == {"key"} and isinstance(kw["key"], ast.Lambda):
                v = self.expr(args[0], env)
                lam = kw["key"]
                if v.t != "rset" or len(lam.args.args) != 1:
                    raise Untranslatable("sorted(): a set of ranges and a one-argument key are expected")
                x = self.fresh(lam.args.args[0].arg)
                env2 = dict(env); env2[lam.args.args[0].arg] = V(x, "rng")
                kv = self.pure(lambda: self.expr(lam.body, env2))
                ks = kv.items if kv.t == "tuple" else [kv]
                return V(f"(py_sorted (fun {x} => [{'; '.join(asZ(k) for k in ks)}]) (rs_elems {v.s}))", RLIST)
            if name == "any" and len(args) == 1 and not kw and isinstance(args[0], ast.GeneratorExp):
                g = args[0]
                if len(g.generators) != 1 or g.generators[0].ifs or not isinstance(g.generators[0].target, ast.Name):
                    raise Untranslatable("generator expression form")
                src = self.expr(g.generators[0].iter, env)
                if not (isinstance(src.t, tuple) and src.t[0] == "list"):
                    raise Untranslatable(f"any() over a {src.t}")
                x = self.fresh(g.generators[0].target.id)
                env2 = dict(env); env2[g.generators[0].target.id] = V(x, src.t[1])
                body = self.pure(lambda: self.truth(self.expr(g.elt, env2)))
                return V(f"(existsb (fun {x} => {body}) {src.s})", "bool")
            if name == "Module" and not args and not kw:
                return V("[]", MOD)
            if name == "Signal" and len(args) <= 1 and set(kw) <= {"name"}:
                w = asZ(self.expr(args[0], env)) if args else "1"
                nm = coerce(self.expr(kw["name"], env), "pname") if "name" in kw else "[]"
                return V(f"(ASig {w} {nm})", "aval")
            if name == "Mux" and len(args) == 3 and not kw:
                xs = [coerce(self.expr(a, env), "aval") for a in args]
                return V(f"(AMux {xs[0]} {xs[1]} {xs[2]})", "aval")
            if name == "_or_reduce" and len(args) == 1 and not kw:
                v = self.expr(args[0], env)
                if v.t != AVALS:
                    raise Untranslatable("_or_reduce of a non-list")
                return V(f"(AOrReduce {v.s})", "aval")
            raise Untranslatable(f"call of {name}")
        if isinstance(f, ast.Attribute):
            ck = self.class_of_call(f, env)
            if ck is not None:
                return self.invoke(ck, "__init__", None, n, env)
            m = f.attr
            # memory map queries
            if m in ("windows", "resources", "decode_address"):
                base = self.expr(f.value, env)
                if base.t == "mmap":
                    if m == "windows" and not n.args and not kw:
                        return V(f"(mm_windows {base.s})", LIST("unit"))
                    if m == "resources" and not n.args and not kw:
                        return V(f"(mm_resources {base.s})", LIST("resource"))
                    if m == "decode_address" and len(n.args) == 1 and not kw:
                        return V(asZ(self.expr(n.args[0], env)), "regref")
            if m == "eq" and len(n.args) == 1 and not kw:
                l = self.expr(f.value, env)
                if l.t == "aval":
                    return V(f"(AEq {l.s} {coerce(self.expr(n.args[0], env), 'aval')})", "aval")
            if m == "word_select" and len(n.args) == 2 and not kw:
                l = self.expr(f.value, env)
                if l.t == "aval":
                    return V(f"(AWordSel {l.s} {asZ(self.expr(n.args[0], env))} {asZ(self.expr(n.args[1], env))})", "aval")
            if m == "items" and not n.args and not kw:
                base = self.expr(f.value, env)
                if isinstance(base.t, tuple) and base.t[0] == "ddict":
                    return V(base.s, LIST(PROD("Z", LIST(base.t[1]))))
                if base.t == CDICT:
                    return V(base.s, CDICT)
                if base.t == OCDICT:        # None.items() is an AttributeError
                    nm = self.fresh("items")
                    self.need_unguarded("None.items()")
                    self.pre.append(f"let! {nm} := match {base.s} with Some d => Ok d | None => Err OtherError end in")
                    return V(nm, CDICT)
            # a translated method of a record
            base = self.expr(f.value, env)
            if base.t in RECORDS or base.t == "self_init":
                ck = self.stack[-1][0] if base.t == "self_init" else base.t
                if self.classes[ck].method(m) is not None:
                    return self.invoke(ck, m, f.value, n, env)
            raise Untranslatable(f"method call .{m} on a {base.t}")
        raise Untranslatable("call " + ast.dump(n)[:100])

    def pure(self, f):
        """evaluate f() and insist that it had no effect and needed no binding (lambda / generator bodies)"""
        old, self.pre = self.pre, []
        try:
            r = f()
            if self.pre:
                raise Untranslatable("a call with effects inside a lambda / generator expression")
            return r
        finally:
            self.pre = old

    def need_unguarded(self, what):
        if self.guard is not None:
            raise Untranslatable(f"{what} on a short-circuit path")

    # ------------------------------------------------------------------------------------------ calls of translated methods
    def invoke(self, ck, m, recv, n, env):
        """call of method m of class ck on receiver expression recv (None for a constructor); returns the V of the
        returned value (type 'none' if there is none); pushes the monadic binding to self.pre; rebinds the receiver."""
        self.need_unguarded(f"call of {m}")
        rec_call = (ck, m) in self.stack
        if rec_call:
            if self.stack[-1] != (ck, m):
                raise Untranslatable("mutual recursion")
            fn = self.cur
            fn.fuel = True
            fn.recursive = True
        else:
            fn = self.translate(ck, m)
        if fn.done and fn.generator and not self.in_for_iter:
            raise Untranslatable(f"the generator {m}() is used outside `for ... in {m}()`")
        node = self.classes[ck].method(m)
        formal = [a.arg for a in node.args.args][1:] + [a.arg for a in node.args.kwonlyargs]
        defaults = {}
        pos = node.args.args[1:]
        for a, d in zip(pos[len(pos) - len(node.args.defaults):], node.args.defaults):
            defaults[a.arg] = d
        for a, d in zip(node.args.kwonlyargs, node.args.kw_defaults):
            if d is not None:
                defaults[a.arg] = d
        if len(n.args) > len(pos):
            raise Untranslatable("too many positional arguments")
        given = {}
        for a, x in zip(pos, n.args):
            given[a.arg] = x
        for k in n.keywords:
            if k.arg in given or k.arg not in formal:
                raise Untranslatable(f"keyword argument {k.arg}")
            given[k.arg] = k.value
        ptypes = dict(self.param_types.get((ck, m), {}))
        actual = []
        for p in formal:
            if ptypes.get(p) == "opaque":
                continue
            if p in given:
                v = self.expr(given[p], env)
            elif p in defaults:
                v = self.expr(defaults[p], {})
            else:
                raise Untranslatable(f"missing argument {p}")
            if not fn.done and not rec_call:
                raise Untranslatable("call of a function under translation")
            want = dict(fn.params).get(p) if fn.done else ptypes.get(p)
            if want is None:
                if fn.done:
                    continue                # parameter the callee never uses
                raise Untranslatable(f"type of parameter {p}")
            actual.append(coerce(v, want))
        head = "rec" if rec_call else fn.name + (" fuel" if fn.fuel else "")
        if fn.fuel and not rec_call:
            self.cur.fuel = True
        recv_v = None
        if fn.has_self:
            if recv is None:
                raise Untranslatable("constructor with a receiver")
            recv_v = self.expr(recv, env)
            if recv_v.t == "self_init":
                raise Untranslatable(f"{m} uses self and is called from __init__ before the object is complete")
            head += f" {recv_v.s}"
        app = "(" + " ".join([head] + actual) + ")"
        if fn.has_self and fn.mutates:
            new_self = self.fresh("obj")
            if fn.ret is not None and not fn.generator or fn.generator:
                if fn.ret is None:
                    raise Untranslatable("internal: generator without item type")
                r = self.fresh(m)
                self.pre.append(f"let! '({new_self}, {r}) := {app} in")
                res = V(r, fn.ret)
            else:
                self.pre.append(f"let! {new_self} := {app} in")
                res = V("tt", "none")
            # write the receiver back
            val = V(new_self, ck)
            if isinstance(recv, ast.Name):
                env[recv.id] = val
            elif isinstance(recv, ast.Attribute):
                parts = attr_path(recv).split(".")
                self.pre.append(self.store_path(parts[0], parts[1:], val, env))
            else:
                raise Untranslatable("receiver of a mutating call")
            return res
        if m == "__init__":
            r = self.fresh(ck)
            self.pre.append(f"let! {r} := {app} in")
            return V(r, ck)
        if fn.ret is None:
            self.pre.append(f"let! _ := {app} in")
            return V("tt", "none")
        r = self.fresh(m)
        self.pre.append(f"let! {r} := {app} in")
        return V(r, fn.ret)

    # ------------------------------------------------------------------------------------------ statements
    def mutated(self, body, env):
        """names (existing in env) that the statements assign or mutate, in order of first occurrence"""
        out = []

        def add(nm):
            if nm is not None and nm not in out:
                out.append(nm)
        for st in body:
            for x in ast.walk(st):
                if isinstance(x, ast.Assign):
                    for t in x.targets:
                        for y in ([t] if not isinstance(t, ast.Tuple) else t.elts):
                            add(root_name(y))
                elif isinstance(x, ast.AugAssign):
                    add(root_name(x.target))
                elif isinstance(x, ast.Call) and isinstance(x.func, ast.Attribute):
                    # any method call may mutate its receiver (append / add / a translated mutating method)
                    r = root_name(x.func.value)
                    if x.func.attr in ("append", "add") or x.func.attr in self.mutators:
                        add(r)
                    if r in env and env[r].t == MOD:
                        add(r)
                elif isinstance(x, ast.Subscript) and isinstance(x.value, ast.Name) and x.value.id in env \
                        and isinstance(env[x.value.id].t, tuple) and env[x.value.id].t[0] == "ddict":
                    add(x.value.id)
                elif isinstance(x, (ast.Yield, ast.YieldFrom)):
                    add("$yield")
        return [nm for nm in out if nm in env and env[nm].t != "self_init"] + \
               [k for k in env if k.startswith("self.") and any(
                   isinstance(x, (ast.Assign, ast.AugAssign)) and any(
                       isinstance(t, ast.Attribute) and attr_path_safe(t) == k
                       for t in (x.targets if isinstance(x, ast.Assign) else [x.target]))
                   for st in body for x in ast.walk(st))]

    def pack(self, names, env):
        if not names:
            return "tt"
        return "(" + ", ".join(env[nm].s for nm in names) + ")" if len(names) > 1 else env[names[0]].s

    def unpack(self, names, env, src=None):
        """fresh binders for the state variables; returns (pattern, env2)"""
        env2 = dict(env)
        bs = []
        for nm in names:
            b = self.fresh(nm)
            env2[nm] = V(b, env[nm].t)
            bs.append(b)
        if not bs:
            return "_", env2
        return (bs[0] if len(bs) == 1 else "'(" + ", ".join(bs) + ")"), env2

    def wrap(self, lines, text):
        for l in reversed(lines):
            text = f"({l}\n  {text})"
        return text

    def take_pre(self):
        p, self.pre = self.pre, []
        return p

    def bind_target(self, target, v, env):
        """bind a for-loop / assignment target pattern to the value v (possibly a tuple V)"""
        if isinstance(target, ast.Name):
            if target.id == "_":
                return
            if target.id in env and env[target.id].t != v.t and v.t != "opaque":
                pass
            env[target.id] = v
            return
        if isinstance(target, ast.Tuple) and v.t == "tuple" and len(target.elts) == len(v.items):
            for t, x in zip(target.elts, v.items):
                self.bind_target(t, x, env)
            return
        raise Untranslatable("target pattern " + ast.unparse(target))

    def iter_items(self, it, target, env):
        """iteration over the list value `it`: (binder pattern text, bindings text lines, env with the targets)"""
        if not (isinstance(it.t, tuple) and it.t[0] == "list"):
            if it.t == "rng":
                it = V(f"(range_list (rstart {it.s}) (rstop {it.s}))", ZLIST)
            else:
                raise Untranslatable(f"iteration over a {it.t}" + (": a set has no order, use sorted()" if it.t == "rset" else ""))
        et = it.t[1]
        env2 = dict(env)
        x = self.fresh("x")
        lines = []
        if et == "resource":
            item = tup([V(x, "resource"), V(None, "opaque"), tup([V(f"(rs_start {x})", "Z"), V(f"(rs_stop {x})", "Z")])])
        elif isinstance(et, tuple) and et[0] == "prod":
            names = []
            for i, t in enumerate(et[1]):
                hint = target.elts[i].id if isinstance(target, ast.Tuple) and i < len(target.elts) and isinstance(target.elts[i], ast.Name) else "c"
                names.append(self.fresh(hint))
            lines.append(f"let '({', '.join(names)}) := {x} in")
            item = tup([V(nm, t) for nm, t in zip(names, et[1])])
        else:
            hint = target.id if isinstance(target, ast.Name) else "x"
            x = self.fresh(hint)
            item = V(x, et)
        self.bind_target(target, item, env2)
        return it, x, lines, env2

    def block(self, body, env, ctx, k):
        if not body:
            return k(env)
        st, rest = body[0], body[1:]
        env = dict(env)
        self.pre = []
        nxt = lambda e: self.block(rest, e, ctx, k)
        if isinstance(st, ast.Expr) and isinstance(st.value, ast.Constant) and isinstance(st.value.value, str):
            return nxt(env)
        if isinstance(st, ast.Pass):
            return nxt(env)
        if isinstance(st, ast.Assert):
            c = self.truth(self.expr(st.test, env))
            pre = self.take_pre()
            return self.wrap(pre, f"(if negb {c} then Err AssertionError else\n  {nxt(env)})")
        if isinstance(st, ast.Raise):
            e = st.exc
            nm = e.func.id if isinstance(e, ast.Call) and isinstance(e.func, ast.Name) else e.id if isinstance(e, ast.Name) else None
            if nm is None or not (nm.endswith("Error") or nm.endswith("Exception")):
                raise Untranslatable("raise " + ast.unparse(st)[:60])
            return f"(Err {EXN.get(nm, 'OtherError')})"
        if isinstance(st, ast.Return):
            v = self.expr(st.value, env) if st.value is not None else None
            pre = self.take_pre()
            return self.wrap(pre, ctx.ret(env, v))
        if isinstance(st, ast.Break):
            if ctx.brk is None:
                raise Untranslatable("break outside a loop")
            return ctx.brk(env)
        if isinstance(st, ast.Continue):
            if ctx.cont is None:
                raise Untranslatable("continue outside a loop")
            return ctx.cont(env)
        if isinstance(st, ast.Assign) and len(st.targets) == 1:
            return self.assign(st.targets[0], st.value, env, nxt)
        if isinstance(st, ast.AugAssign):
            return self.augassign(st, env, nxt)
        if isinstance(st, ast.Expr) and isinstance(st.value, ast.Call):
            return self.call_stmt(st.value, env, nxt)
        if isinstance(st, ast.Expr) and isinstance(st.value, (ast.Yield, ast.YieldFrom)):
            if "$yield" not in env:
                raise Untranslatable("yield outside a generator")
            y = st.value
            if y.value is None:
                raise Untranslatable("bare yield")
            v = self.expr(y.value, env)
            pre = self.take_pre()
            acc = env["$yield"]
            if isinstance(y, ast.YieldFrom):
                if not (isinstance(v.t, tuple) and v.t[0] == "list"):
                    raise Untranslatable(f"yield from a {v.t}")
                item_t, new = v.t[1], f"({acc.s} ++ {v.s})"
            else:
                item_t = type_of(v)
                new = f"({acc.s} ++ [{coerce(v, item_t)}])"
            if self.cur.ret is None:
                self.cur.ret = LIST(item_t)
            elif self.cur.ret != LIST(item_t):
                raise Untranslatable("yields of different types")
            nm = self.fresh("yielded")
            env["$yield"] = V(nm, LIST(item_t))
            return self.wrap(pre + [f"let {nm} := {new} in"], nxt(env))
        if isinstance(st, ast.If):
            return self.if_stmt(st, env, ctx, nxt)
        if isinstance(st, ast.For) and not st.orelse:
            return self.for_stmt(st, env, ctx, nxt)
        if isinstance(st, ast.While) and not st.orelse:
            return self.while_stmt(st, env, ctx, nxt)
        if isinstance(st, ast.With) and len(st.items) == 1 and st.items[0].optional_vars is None:
            return self.with_stmt(st, env, ctx, nxt)
        raise Untranslatable("statement " + ast.unparse(st).split("\n")[0][:100])

    def assign(self, target, value, env, nxt):
        if isinstance(target, ast.Name):
            v = self.expr(value, env)
            pre = self.take_pre()
            if v.t in ("tuple", "opaque"):
                raise Untranslatable("assignment of a tuple to one name")
            if v.t == "emptylist":
                env[target.id] = v
                return self.wrap(pre, nxt(env))
            if v.t == "regref":
                env[target.id] = v
                return self.wrap(pre, nxt(env))
            t = v.t
            if target.id in env and env[target.id].t != v.t:
                t = env[target.id].t            # keep the declared type of a rebound variable
            nm = self.fresh(target.id)
            s = coerce(v, t)
            env[target.id] = V(nm, t)
            return self.wrap(pre + [f"let {nm} := {s} in"], nxt(env))
        if isinstance(target, ast.Attribute):
            v = self.expr(value, env)
            line = self.store_attr(target, v, env)
            pre = self.take_pre()
            return self.wrap(pre + [line], nxt(env))
        if isinstance(target, ast.Subscript) and not isinstance(target.slice, ast.Slice):
            d = self.expr(target.value, env)
            kx = asZ(self.expr(target.slice, env))
            v = self.expr(value, env)
            pre = self.take_pre()
            if d.t == OCDICT:       # None[k] = v is a TypeError
                body = f"match {d.s} with Some d => Ok (dict_set d {kx} {coerce(v, 'chunk')}) | None => Err TypeError end"
                nm = self.fresh("d")
                new = V(nm, CDICT)
                line = f"let! {nm} := {body} in"
            elif d.t == CDICT:
                nm = self.fresh("d")
                new = V(nm, CDICT)
                line = f"let {nm} := dict_set {d.s} {kx} {coerce(v, 'chunk')} in"
            else:
                raise Untranslatable(f"item assignment on a {d.t}")
            if isinstance(target.value, ast.Name):
                env[target.value.id] = new
                return self.wrap(pre + [line], nxt(env))
            line2 = self.store_attr(target.value, new, env)
            return self.wrap(pre + [line, line2], nxt(env))
        raise Untranslatable("assignment target " + ast.unparse(target))

    def augassign(self, st, env, nxt):
        t = st.target
        # m.d.<domain> += statement
        if isinstance(t, ast.Attribute) and isinstance(t.value, ast.Attribute) and t.value.attr == "d" \
                and isinstance(t.value.value, ast.Name) and t.value.value.id in env and env[t.value.value.id].t == MOD \
                and isinstance(st.op, ast.Add):
            m = env[t.value.value.id]
            v = self.expr(st.value, env)
            pre = self.take_pre()
            if v.t != "aval":
                raise Untranslatable("m.d.<domain> += a non-statement")
            nm = self.fresh(t.value.value.id)
            env[t.value.value.id] = V(nm, MOD)
            return self.wrap(pre + [f'let {nm} := {m.s} ++ [SAdd "{t.attr}" {v.s}] in'], nxt(env))
        if type(st.op) not in BINOPS:
            raise Untranslatable("augmented assignment operator")
        cur = self.expr(t, env)
        v = self.expr(st.value, env)
        val = V(f"({BINOPS[type(st.op)]} {asZ(cur)} {asZ(v)})", "Z")
        if isinstance(t, ast.Name):
            pre = self.take_pre()
            nm = self.fresh(t.id)
            env[t.id] = V(nm, "Z")
            return self.wrap(pre + [f"let {nm} := {val.s} in"], nxt(env))
        if isinstance(t, ast.Attribute):
            line = self.store_attr(t, val, env)
            pre = self.take_pre()
            return self.wrap(pre + [line], nxt(env))
        raise Untranslatable("augmented assignment target")

    def call_stmt(self, c, env, nxt):
        f = c.func
        if isinstance(f, ast.Attribute) and f.attr in ("append", "add") and len(c.args) == 1 and not c.keywords:
            # registers[k].append(v)
            if f.attr == "append" and isinstance(f.value, ast.Subscript) and isinstance(f.value.value, ast.Name) \
                    and f.value.value.id in env and isinstance(env[f.value.value.id].t, tuple) \
                    and env[f.value.value.id].t[0] == "ddict":
                nm0 = f.value.value.id
                d = env[nm0]
                kx = asZ(self.expr(f.value.slice, env))
                v = self.expr(c.args[0], env)
                pre = self.take_pre()
                nm = self.fresh(nm0)
                d = env[nm0]
                env[nm0] = V(nm, d.t)
                return self.wrap(pre + [f"let {nm} := dd_append {d.s} {kx} {coerce(v, d.t[1])} in"], nxt(env))
            base = self.expr(f.value, env)
            v = self.expr(c.args[0], env)
            if f.attr == "append" and base.t == "emptylist" and isinstance(f.value, ast.Name):
                base = V("[]", LIST(type_of(v)))
            if f.attr == "append" and isinstance(base.t, tuple) and base.t[0] == "list" and isinstance(f.value, ast.Name):
                pre = self.take_pre()
                nm = self.fresh(f.value.id)
                env[f.value.id] = V(nm, base.t)
                return self.wrap(pre + [f"let {nm} := {base.s} ++ [{coerce(v, base.t[1])}] in"], nxt(env))
            if f.attr == "add" and base.t == "rset":
                nm = self.fresh("s")
                line = f"let! {nm} := set_add {coerce(v, 'rng')} {base.s} in"
                new = V(nm, "rset")
                if isinstance(f.value, ast.Name):
                    pre = self.take_pre()
                    env[f.value.id] = new
                    return self.wrap(pre + [line], nxt(env))
                line2 = self.store_attr(f.value, new, env)
                pre = self.take_pre()
                return self.wrap(pre + [line, line2], nxt(env))
            if base.t not in RECORDS:
                raise Untranslatable(f".{f.attr}() on a {base.t}")
        # super().__init__({...}) of a wiring.Component
        if isinstance(f, ast.Attribute) and f.attr == "__init__" and ast.unparse(f.value) == "super()" \
                and "self" in env and env["self"].t == "self_init":
            if len(c.args) != 1 or c.keywords or not isinstance(c.args[0], ast.Dict):
                raise Untranslatable("super().__init__: a literal signature dict is expected")
            lines = []
            for kx, vx in zip(c.args[0].keys, c.args[0].values):
                if not (isinstance(kx, ast.Constant) and isinstance(kx.value, str) and isinstance(vx, ast.Call)
                        and isinstance(vx.func, ast.Name) and vx.func.id in ("In", "Out") and len(vx.args) == 1
                        and isinstance(vx.args[0], ast.Call) and ast.unparse(vx.args[0].func) == "Signature"
                        and not vx.args[0].args):
                    raise Untranslatable("super().__init__: member that is not In/Out(Signature(...))")
                self.classes[self.stack[-1][0]].ifaces[kx.value] = True
                for kw in vx.args[0].keywords:
                    if kw.arg not in ("addr_width", "data_width"):
                        raise Untranslatable(f"Signature argument {kw.arg}")
                    v = self.expr(kw.value, env)
                    nm = self.fresh(kw.arg)
                    env[f"self.{kx.value}.{kw.arg}"] = V(nm, "Z")
                    lines.append(f"let {nm} := {asZ(v)} in")
            pre = self.take_pre()
            return self.wrap(pre + lines, nxt(env))
        v = self.expr(c, env)          # a translated method, for its effect
        pre = self.take_pre()
        if v.t not in ("none",) and not pre:
            raise Untranslatable("expression statement without effect: " + ast.unparse(c)[:80])
        return self.wrap(pre, nxt(env))

    def join(self, branches, env, nxt, header):
        """branches: list of functions b(k) -> text translating one arm with continuation k.  The variables the arms
        rebind are returned as a tuple and bound again after the arms."""
        finals = []
        save = self.n
        for b in branches:
            b(lambda e: finals.append(e) or "")
        self.n = save                   # the dry run does not consume names
        names = []
        for e in finals:
            for nm, v in e.items():
                if nm in env and env[nm].s != v.s and nm not in names:
                    names.append(nm)
                if nm not in env and all(nm in e2 for e2 in finals) and nm not in names and not nm.startswith("$"):
                    names.append(nm)
        # a name bound in every arm is joined only if its type agrees
        tys = {}
        for nm in list(names):
            ts = {repr(e[nm].t) for e in finals if nm in e}
            if nm in env:
                tys[nm] = env[nm].t
            elif len(ts) == 1 and all(nm in e for e in finals):
                tys[nm] = finals[0][nm].t
            else:
                names.remove(nm)
        for nm in names:
            if tys[nm] in ("tuple", "opaque", "regref", "self_init"):
                raise Untranslatable(f"{nm} cannot be joined")

        def pk(e):
            vals = [coerce(e[nm] if nm in e else env[nm], tys[nm]) for nm in names]
            return "(Ok " + ("tt" if not vals else vals[0] if len(vals) == 1 else "(" + ", ".join(vals) + ")") + ")"
        arms = [b(pk) for b in branches]
        env2 = dict(env)
        bs = []
        for nm in names:
            bnd = self.fresh(nm)
            env2[nm] = V(bnd, tys[nm])
            bs.append(bnd)
        pat = "_" if not bs else bs[0] if len(bs) == 1 else "'(" + ", ".join(bs) + ")"
        return f"(let! {pat} := {header(arms)} in\n  {nxt(env2)})"

    def if_stmt(self, st, env, ctx, nxt):
        c = self.truth(self.expr(st.test, env))
        pre = self.take_pre()
        if has_terminal(st.body) or has_terminal(st.orelse):
            a = self.block(st.body, env, ctx, nxt)
            b = self.block(st.orelse, env, ctx, nxt)
            return self.wrap(pre, f"(if {c} then {a} else\n  {b})")
        text = self.join([lambda k: self.block(st.body, env, ctx, k), lambda k: self.block(st.orelse, env, ctx, k)],
                         env, nxt, lambda arms: f"(if {c} then {arms[0]} else {arms[1]})")
        return self.wrap(pre, text)

    def for_stmt(self, st, env, ctx, nxt):
        # a generator call is accepted here only
        it = self.iterable(st.iter, env)
        pre = self.take_pre()
        it, x, lines, env_b = self.iter_items(it, st.target, env)
        names = self.mutated(st.body, env_b)
        names = [nm for nm in names if nm in env]
        if any(env[nm].t == "emptylist" for nm in names):
            # the element type of a list that is still empty here is the one the body gives it
            save, finals = self.n, []
            dry = Ctx(self.no_return_in_loop, brk=lambda e: finals.append(e) or "", cont=lambda e: finals.append(e) or "")
            self.block(st.body, dict(env_b), dry, lambda e: finals.append(e) or "")
            self.n = save
            env, env_b = dict(env), dict(env_b)
            for nm in names:
                if env[nm].t == "emptylist":
                    ts = {repr(e[nm].t): e[nm].t for e in finals if e[nm].t != "emptylist"}
                    if len(ts) != 1:
                        raise Untranslatable(f"cannot infer the element type of the list {nm}")
                    (t1,) = ts.values()
                    env[nm] = env_b[nm] = V(f"([] : {coq_ty(t1)})", t1)
        pat, env_body = self.unpack(names, env_b)
        stv = self.fresh("st")
        inner = Ctx(ctx.ret_in_loop if hasattr(ctx, "ret_in_loop") else None,
                    brk=lambda e: f"(Ok ({self.pack(names, e)}, true))",
                    cont=lambda e: f"(Ok ({self.pack(names, e)}, false))")
        inner.ret = self.no_return_in_loop
        body = self.block(st.body, env_body, inner, lambda e: f"(Ok ({self.pack(names, e)}, false))")
        body = self.wrap(lines + ([f"let {pat} := {stv} in"] if names else []), body)
        pat2, env2 = self.unpack(names, env)
        loop = f"py_for {it.s} (fun {x} {stv} =>\n  {body}) {self.pack(names, env)}"
        return self.wrap(pre + [f"let! {pat2} := {loop} in"], nxt(env2))

    def no_return_in_loop(self, env, v):
        raise Untranslatable("return inside a loop")

    def iterable(self, n, env):
        self.in_for_iter = True
        try:
            return self.expr(n, env)
        finally:
            self.in_for_iter = False

    in_for_iter = False

    def while_stmt(self, st, env, ctx, nxt):
        names = [nm for nm in self.mutated(st.body, env) if nm in env]
        pat, env_c = self.unpack(names, env)
        stv = self.fresh("st")
        c = self.pure(lambda: self.truth(self.expr(st.test, env_c)))
        cond = f"(fun {stv} => " + (f"let {pat} := {stv} in " if names else "") + f"Ok {c})"
        pat_b, env_b = self.unpack(names, env)
        inner = Ctx(self.no_return_in_loop, brk=lambda e: f"(Ok ({self.pack(names, e)}, true))",
                    cont=lambda e: f"(Ok ({self.pack(names, e)}, false))")
        body = self.block(st.body, env_b, inner, lambda e: f"(Ok ({self.pack(names, e)}, false))")
        body = f"(fun {stv} => " + (f"let {pat_b} := {stv} in\n  " if names else "") + body + ")"
        pat2, env2 = self.unpack(names, env)
        self.cur.fuel = True
        return f"(let! {pat2} := py_while fuel {cond}\n  {body} {self.pack(names, env)} in\n  {nxt(env2)})"

    def with_stmt(self, st, env, ctx, nxt):
        ce = st.items[0].context_expr
        if not (isinstance(ce, ast.Call) and isinstance(ce.func, ast.Attribute) and isinstance(ce.func.value, ast.Name)
                and ce.func.value.id in env and env[ce.func.value.id].t == MOD and len(ce.args) == 1 and not ce.keywords):
            raise Untranslatable("with " + ast.unparse(ce)[:60])
        mname, kind = ce.func.value.id, ce.func.attr
        arg = self.expr(ce.args[0], env)
        pre = self.take_pre()
        if kind == "Switch" and arg.t == "aval":
            head = f"SSwitch {arg.s}"
        elif kind == "Case" and arg.t in ("Z", "pyint"):
            head = f"SCase {asZ(arg)}"
        elif kind == "If" and arg.t == "aval":
            head = f"SIf {arg.s}"
        else:
            raise Untranslatable(f"with m.{kind}({arg.t})")
        if has_terminal(st.body):
            raise Untranslatable("return / raise / break inside a with block")
        outer = env[mname]
        env_in = dict(env)
        inner_m = self.fresh(mname)
        env_in[mname] = V(inner_m, MOD)

        def after(e):
            # close the block: the statements collected inside become one nested statement of the outer module
            e2 = dict(e)
            nm = self.fresh(mname)
            e2[mname] = V(nm, MOD)
            return f"(let {nm} := {outer.s} ++ [{head} {e[mname].s}] in\n  {nxt(e2)})"
        text = self.block(st.body, env_in, ctx, after)
        return self.wrap(pre + [f"let {inner_m} := ([] : list astmt) in"], text)

    # ------------------------------------------------------------------------------------------ functions
    def translate(self, ck, m):
        cls = self.classes[ck]
        if m in cls.fns:
            fn = cls.fns[m]
            if not fn.done:
                raise Untranslatable(f"{ck}.{m} is needed while it is being translated")
            return fn
        node = cls.method(m)
        if node is None:
            raise Untranslatable(f"no method {m} in {ck}")
        if node.args.vararg or node.args.kwarg or node.args.posonlyargs:
            raise Untranslatable(f"{m}: *args / **kwargs / positional-only")
        fn = Fn(f"gen_{ck}_{m.strip('_')}")
        fn.recursive = False
        cls.fns[m] = fn
        outer = (self.cur, self.pre, self.guard, self.known)
        self.cur, self.pre, self.guard, self.known = fn, [], None, ()
        self.stack.append((ck, m))
        try:
            self.function(cls, ck, m, node, fn)
        finally:
            self.stack.pop()
            self.cur, self.pre, self.guard, self.known = outer
        fn.done = True
        self.out.append(fn.text)
        return fn

    def function(self, cls, ck, m, node, fn):
        body = node.body
        uses_self = any(isinstance(x, ast.Name) and x.id == "self" for st in body for x in ast.walk(st))
        ptypes = self.param_types.get((ck, m), {})
        used = {x.id for st in body for x in ast.walk(st) if isinstance(x, ast.Name)}
        env = {}
        params = []
        for a in [a.arg for a in node.args.args][1:] + [a.arg for a in node.args.kwonlyargs]:
            t = ptypes.get(a)
            if t == "opaque" or (t is None and a not in used):
                continue
            if t is None:
                raise Untranslatable(f"{ck}.{m}: no type for parameter {a}")
            params.append((a, t))
            env[a] = V(a, t)
        fn.params = params
        fn.generator = any(isinstance(x, (ast.Yield, ast.YieldFrom)) for st in body for x in ast.walk(st))
        init = m == "__init__"
        if init:
            env["self"] = V(None, "self_init")
            fn.has_self = False
        else:
            fn.has_self = uses_self
            if uses_self:
                env["self"] = V("self", ck)
        if fn.generator:
            env["$yield"] = V("[]", LIST("unit"))
        # does it change self?  (syntactic: a store through self, a mutating call on self or one of its fields)
        fn.mutates = (not init) and uses_self and "self" in self.mutated(body, env)
        rets = []

        def finish(e, v):
            """value of the whole function when it returns v (None: no value) in environment e"""
            if init:
                if v is not None and v.t != "none":
                    raise Untranslatable("__init__ returns a value")
                fields = [(k[5:], e[k]) for k in e if k.startswith("self.")]
                if cls.fields is None:
                    cls.fields = [(p, x.t) for p, x in fields]
                elif [(p, x.t) for p, x in fields] != cls.fields:
                    raise Untranslatable("__init__ assigns different fields on different paths")
                return f"(Ok (mk_{cls.rec} " + " ".join(x.s for _, x in fields) + "))"
            if fn.generator:
                if v is not None and v.t != "none":
                    raise Untranslatable("generator returns a value")
                val = e["$yield"]
                if fn.ret is None:
                    raise Untranslatable("generator that yields nothing on some path")
                parts = ([e["self"].s] if fn.mutates else []) + [val.s]
            else:
                if v is not None and v.t != "none":
                    t = type_of(v)
                    rets.append(t)
                    if fn.ret is None:
                        fn.ret = t
                    elif fn.ret != t:
                        raise Untranslatable("returns of different types")
                    parts = ([e["self"].s] if fn.mutates else []) + [coerce(v, t)]
                else:
                    rets.append(None)
                    parts = [e["self"].s] if fn.mutates else []
            if not parts:
                return "(Ok tt)"
            return "(Ok " + (parts[0] if len(parts) == 1 else "(" + ", ".join(parts) + ")") + ")"
        ctx = Ctx(finish)
        if fn.generator:
            # the item type must be known before the first finish(): look ahead is not needed, yields come first
            pass
        text = self.block(body, env, ctx, lambda e: finish(e, None))
        if not init and not fn.generator and len(set(map(repr, rets))) > 1:
            raise Untranslatable(f"{m}: some paths return a value and some do not")
        rt = "unit"
        if init:
            rt = cls.rec
        else:
            parts = ([ck] if fn.mutates else []) + ([fn.ret] if fn.ret is not None else [])
            if parts:
                rt = coq_ty(parts[0]) if len(parts) == 1 else coq_ty(PROD(*parts))
        fn.rtype = rt
        ps = ("(self : " + ck + ") " if fn.has_self else "") + " ".join(f"({a} : {coq_ty(t)})" for a, t in params)
        src = f"(* {FILE}: {'.'.join(self.pyname(ck))}.{m} *)\n"
        if fn.recursive:
            selfty = ck if fn.mutates and fn.ret is None else None
            rec_t = " -> ".join(([ck] if fn.has_self else []) + [coq_ty(t) for _, t in params] + [f"res {rt}"])
            fn.text = (src + f"Definition {fn.name}_body (fuel : nat) (rec : {rec_t}) {ps} : res {rt} :=\n  {text}.\n"
                       f"Fixpoint {fn.name} (fuel : nat) {ps} : res {rt} :=\n  match fuel with\n  | O => Err OtherError\n"
                       f"  | S fuel' => {fn.name}_body fuel' ({fn.name} fuel') "
                       + " ".join((["self"] if fn.has_self else []) + [a for a, _ in params]) + "\n  end.\n")
        else:
            fl = "(fuel : nat) " if fn.fuel else ""
            fn.text = src + f"Definition {fn.name} {fl}{ps} : res {rt} :=\n  {text}.\n"

    def pyname(self, ck):
        return {"chunk": ["Multiplexer", "_Shadow", "Chunk"], "shadow": ["Multiplexer", "_Shadow"], "mux": ["Multiplexer"]}[ck]

    def records(self):
        out = []
        for ck in ("chunk", "shadow", "mux"):
            cls = self.classes[ck]
            if cls.fields is None:
                raise Untranslatable(f"{ck}: __init__ was not translated")
            fs = "; ".join(f"{cls.fname(p)} : {coq_ty(t)}" for p, t in cls.fields)
            out.append(f"(* {'.'.join(self.pyname(ck))}: the attributes __init__ assigns *)\n"
                       f"Record {cls.rec} := mk_{cls.rec} {{ {fs} }}.")
            names = [cls.fname(p) for p, _ in cls.fields]
            for i, (p, t) in enumerate(cls.fields):
                args = " ".join(("v" if j == i else f"({nm} x)") for j, nm in enumerate(names))
                out.append(f"Definition set_{names[i]} (x : {cls.rec}) (v : {coq_ty(t)}) : {cls.rec} := mk_{cls.rec} {args}.")
            out.append("")
        return "\n".join(out)


def attr_path_safe(n):
    try:
        return attr_path(n)
    except Untranslatable:
        return None


def kernel_call(t, ck, m, node):
    """decode_address / encode_offset: the leading asserts are translated here, the arithmetic is the kernel's"""
    spec = [k for k in KERNELS if k[1] == ["Multiplexer", "_Shadow", m]]
    if len(spec) != 1:
        raise Untranslatable(f"no kernel for {m}")
    (_, _, (kname,), params, attrs, _) = spec[0]
    body = [s for s in node.body if not (isinstance(s, ast.Expr) and isinstance(s.value, ast.Constant))]
    asserts = []
    while body and isinstance(body[0], ast.Assert):
        asserts.append(body.pop(0))
    if any(isinstance(x, ast.Assert) for s in body for x in ast.walk(s)):
        raise Untranslatable(f"{m}: an assert after the first computation")
    return kname, params, attrs, asserts


def generate(repo):
    src = open(os.path.join(repo, FILE)).read()
    tree = ast.parse(src)
    t = T(tree)
    # decode_address / encode_offset: assert here, arithmetic from Kernels.v
    sh = t.classes["shadow"]
    t.translate("shadow", "__init__")
    for m in ("decode_address", "encode_offset"):
        node = sh.method(m)
        if node is None:
            raise Untranslatable(f"no method {m}")
        kname, kparams, attrs, asserts = kernel_call(t, "shadow", m, node)
        fn = Fn(f"gen_shadow_{m}")
        fn.recursive = False
        ptypes = t.param_types[("shadow", m)]
        formal = [a.arg for a in node.args.args][1:]
        if set(formal) != set(ptypes):
            raise Untranslatable(f"{m}: parameters changed: {formal}")
        fn.params = [(a, ptypes[a]) for a in formal]
        fn.has_self, fn.mutates, fn.ret = True, False, "Z"
        env = {a: V(a, ty) for a, ty in fn.params}
        env["self"] = V("self", "shadow")
        t.cur, t.pre, t.guard, t.known = fn, [], None, ()
        t.stack.append(("shadow", m))
        inv = {v: k for k, v in attrs.items()}
        args = []
        for p in kparams:
            args.append(asZ(t.expr(ast.parse(inv[p], mode="eval").body, env)))
        call = f"(Ok ({kname} " + " ".join(args) + "))"
        text = t.block(asserts, env, Ctx(None), lambda e: call)
        t.stack.pop()
        ps = "(self : shadow) " + " ".join(f"({a} : {coq_ty(ty)})" for a, ty in fn.params)
        fn.text = (f"(* {FILE}: Multiplexer._Shadow.{m}: the assert; the arithmetic is {kname} of Kernels.v *)\n"
                   f"Definition {fn.name} {ps} : res Z :=\n  {text}.\n")
        fn.done = True
        sh.fns[m] = fn
        t.out.append(fn.text)
    t.translate("chunk", "__init__")
    t.translate("chunk", "registers")
    for m in ("add", "prepare", "chunks"):
        t.translate("shadow", m)
    t.translate("mux", "_check_memory_map")
    t.translate("mux", "__init__")
    t.translate("mux", "elaborate")
    return PRELUDE + "\n" + t.records() + "\n" + "\n".join(t.out)


# what runner.check_kernels runs for a property whose propdef sets the flag
STAGES = [("shadow", "ShadowGen.v", generate, "TieShadow.v")]

if __name__ == "__main__":
    import sys
    print(generate(sys.argv[1] if len(sys.argv) > 1 else "/repo"))
