"""Fail-closed translator for the lookup methods of /repo's amaranth_soc/memory.py (DESIGN §4.2, fifth stage):

    _RangeMap.items                  -> gen_rm_items
    ResourceInfo.__init__            -> gen_resource_info
    ResourceInfo.resource/path/start/end/width (properties) -> gen_info_*
    MemoryMap.resources              -> gen_resources
    MemoryMap.windows                -> gen_windows
    MemoryMap.window_patterns        -> gen_window_patterns
    MemoryMap._translate             -> gen_translate             (the whole method)
    MemoryMap.all_resources          -> gen_all_resources_step    (open recursion)
    MemoryMap.find_resource          -> gen_find_resource_step    (open recursion)
    MemoryMap.decode_address         -> gen_decode_address_step   (open recursion)

are regenerated from the CURRENT source as Gallina (Gen/LookupGen.v) on every run; Gen/TieLookup.v proves them
equal to Model/MemoryMap.v's mk_info / resources / windows / window_patterns / translate / all_resources /
find_resource / decode_address.  The translation is by general rules over the Python AST, driven by the *types*
of the values (below); nothing is compared with an expected text.  Whatever is not covered raises Untranslatable.

Reading of Python values (coq/Lib/LookupRep.v holds the corresponding definitions)
  int                          Z
  str over '0' '1' '-'         list Z (codes 0 1 2); any other character aborts.  f"{v:0{w}b}" is the specified
                               function py_format_0b v w, s * n is py_str_repeat, s + t is ++
  MemoryMap.Name               the model's `name`; a value of that type stands for an already validated Name, on
                               which MemoryMap.Name(.) is the identity (Name.__new__ is NOT translated)
  name or None                 option name; `x is None` tests become a match that rebinds x in the Some arm
  tuple of names (a path)      list name: a tuple display all of whose items are names (or *path) is a path,
                               (a, *p) is a :: p; any other tuple display is a Coq tuple of the same nesting
  range object                 prange (p_start / p_stop / p_step)
  an object kept in the range  `assign` (AR id | AW id): its identity.  Passing it where a resource identity is
  map (resource or window)     observed (ResourceInfo(resource, ..), `return assignment`) applies asg_id
  self._ranges.items()         m_ranges self: the entries in list order; an item unpacks to (range_of_entry x, e_asg x)
                               (this reading is itself tied: _RangeMap.items is translated, with self._keys the list of
                               entries and self._values[key] the object the entry carries, as in translate3.py)
  self._ranges.get(a)          option_map e_asg (rm_get (m_ranges self) a) - _RangeMap itself is translated by
                               translate3.py, here its methods are the model's functions
  self._resources              m_ress self.  `id(x) in self._resources` is `res_lookup (m_ress self) x`
                               being Some; `self._resources[id(x)]` is that entry or KeyError; an entry unpacks
                               to (AR (r_id r), r_name r, range_of_res r).  Same for self._windows with win_lookup
                               / m_wins; an entry unpacks to (child map, w_name, range_of_win).  .values() is the
                               list in insertion order.  An `if id(x) in self._windows:` statement becomes a match
                               whose Some arm remembers the entry: there x stands for that entry's window
                               (the Python dict stores (window, name, range) under id(window): add_window's
                               statement, checked textually by translate2.py).  Any other use of the two dicts aborts.
  a window object `w` used as  inside the arm just described: the child map of the remembered entry; elsewhere:
  a MemoryMap (w.addr_width,   deref_window (m_wins self) w, i.e. the child found under that identity in
  w.all_resources(), ...)      self._windows, OtherError if there is none (objects are only resolved through self)
  ResourceInfo                 the model's `info` record; the constructor returns the record built from the
                               final values of self._resource/_path/_start/_end/_width, or the exception; info.start
                               etc. read the field of the same name (the five properties are translated too)
  generator function           res (list T): Ok l when it runs to exhaustion yielding l, Err e when ANYTHING
                               raises.  Laziness is not modelled: a `for` over an inner generator evaluates the
                               inner one first, so when both the inner generator and the loop body would raise,
                               the exception reported is the inner one's (Python would raise whichever comes
                               first in the interleaving).  `for` in a generator is concatR (map body items):
                               no break/continue/return inside, no variable carried from one iteration to the next
  `for` elsewhere              a local fix over the list; break / continue / return inside are supported;
                               variables assigned in the body must be new (nothing is carried across iterations)
  try: B except E: H           either B ends in return/raise: `match B with Err E => H; rest | r => r end`, or B contains
                               no return at all: `match B with Err E => H; rest | Err e => Err e | Ok vars => rest end`
                               where vars are the variables B defines; one handler, no else/finally, not in a generator
  exceptions                   res values; `assert c` is `if c then .. else Err AssertionError`;
                               arguments of a raised exception (messages) are not evaluated
  nested def f(item)           only as the predicate of filter(f, items); its body may read its own locals and self
  recursion                    a call of the method being translated on another map becomes a call of the
                               parameter `rec` (open recursion); on `self` itself it aborts
  calls that can raise         are bound with let! in source evaluation order before the statement that contains
                               them; they may not occur under and/or/if-expressions (short-circuit would be lost)
"""
import ast, os

from .translate import Untranslatable, BINOPS, find_func, attr_path

RESERVED = {"end", "in", "at", "as", "fix", "fun", "let", "match", "with", "return", "if", "then", "else", "forall",
            "exists", "Type", "Set", "Prop", "using", "where", "for", "struct", "cofix", "mod", "rec", "Ok", "Err",
            "Some", "None", "true", "false", "bind", "check", "map", "filter", "length", "concatR", "nil", "cons",
            "fst", "snd", "info", "name", "entry", "assign", "mmap", "prange", "res", "list", "option", "bool", "Z"}

CHARS = {"0": 0, "1": 1, "-": 2}


def cq(t):
    """Coq type of a type tag"""
    if isinstance(t, tuple):
        if t[0] == "list":
            return f"(list {cq(t[1])})"
        if t[0] == "option":
            return f"(option {cq(t[1])})"
        if t[0] == "tuple":
            return "(" + " * ".join(cq(x) for x in t[1]) + ")"
    return {"Z": "Z", "rid": "Z", "bool": "bool", "str": "(list Z)", "name": "name", "oname": "(option name)",
            "path": "(list name)", "obj": "assign", "range": "prange", "mmap": "mmap", "info": "info",
            "entry": "entry", "resrec": "resent", "winrec": "(winent * mmap)", "rmkey": "entry",
            "rmself": "(list entry)"}[t]


# positional reading of the record-like tuples
POSITIONAL = {
    "entry": [("range", "(range_of_entry {})"), ("obj", "(e_asg {})")],
    "resrec": [("obj", "(AR (r_id {}))"), ("name", "(r_name {})"), ("range", "(range_of_res {})")],
    "winrec": [("mmap", "(snd {})"), ("oname", "(w_name (fst {}))"), ("range", "(range_of_win (fst {}))")],
}

ATTRS = {
    ("range", "start"): ("(p_start {})", "Z"), ("range", "stop"): ("(p_stop {})", "Z"),
    ("range", "step"): ("(p_step {})", "Z"),
    ("mmap", "addr_width"): ("(m_aw {})", "Z"), ("mmap", "data_width"): ("(m_dw {})", "Z"),
    ("mmap", "_ranges"): ("(m_ranges {})", "rangemap"), ("mmap", "_resources"): ("(m_ress {})", "resdict"),
    ("mmap", "_windows"): ("(m_wins {})", "windict"),
    ("info", "resource"): ("(i_res {})", "rid"), ("info", "path"): ("(i_path {})", "path"),
    ("info", "start"): ("(i_start {})", "Z"), ("info", "end"): ("(i_end {})", "Z"),
    ("info", "width"): ("(i_width {})", "Z"),
    # the private fields behind the properties of ResourceInfo (gen_info_* below ties each property to its field)
    ("info", "_resource"): ("(i_res {})", "rid"), ("info", "_path"): ("(i_path {})", "path"),
    ("info", "_start"): ("(i_start {})", "Z"), ("info", "_end"): ("(i_end {})", "Z"),
    ("info", "_width"): ("(i_width {})", "Z"),
    # inside _RangeMap: the keys in list order; a key carries its value (as in translate3.py)
    ("rmself", "_keys"): ("{}", ("list", "rmkey")), ("rmself", "_values"): ("{}", "rmvalues"),
}

DICTS = {"resdict": ("res_lookup", "resrec"), "windict": ("win_lookup", "winrec")}

# the functions translated here: how a call of one of them from another is written
FUNCS = {
    "items": {"path": ["_RangeMap", "items"], "coq": "gen_rm_items", "kind": "gen", "self": "rmself", "params": [],
              "ret": ("list", ("tuple", ("range", "obj")))},
    "ResourceInfo": {"path": ["ResourceInfo", "__init__"], "coq": "gen_resource_info", "kind": "ctor",
                     "params": [("resource", "rid"), ("path", "path"), ("start", "Z"), ("end", "Z"), ("width", "Z")],
                     "ret": "info",
                     "fields": [("_resource", "i_res", "rid"), ("_path", "i_path", "path"), ("_start", "i_start", "Z"),
                                ("_end", "i_end", "Z"), ("_width", "i_width", "Z")]},
    "prop:resource": {"path": ["ResourceInfo", "resource"], "coq": "gen_info_resource", "kind": "prop", "self": "info",
                      "params": [], "ret": "rid"},
    "prop:path": {"path": ["ResourceInfo", "path"], "coq": "gen_info_path", "kind": "prop", "self": "info",
                      "params": [], "ret": "path"},
    "prop:start": {"path": ["ResourceInfo", "start"], "coq": "gen_info_start", "kind": "prop", "self": "info",
                      "params": [], "ret": "Z"},
    "prop:end": {"path": ["ResourceInfo", "end"], "coq": "gen_info_end", "kind": "prop", "self": "info",
                      "params": [], "ret": "Z"},
    "prop:width": {"path": ["ResourceInfo", "width"], "coq": "gen_info_width", "kind": "prop", "self": "info",
                      "params": [], "ret": "Z"},
    "resources": {"path": ["MemoryMap", "resources"], "coq": "gen_resources", "kind": "gen", "params": [],
                  "ret": ("list", ("tuple", ("obj", "name", ("tuple", ("Z", "Z")))))},
    "windows": {"path": ["MemoryMap", "windows"], "coq": "gen_windows", "kind": "gen", "params": [],
                "ret": ("list", ("tuple", ("obj", "oname", ("tuple", ("Z", "Z", "Z")))))},
    "window_patterns": {"path": ["MemoryMap", "window_patterns"], "coq": "gen_window_patterns", "kind": "gen",
                        "params": [],
                        "ret": ("list", ("tuple", ("obj", "oname", ("tuple", ("str", "Z")))))},
    "_translate": {"path": ["MemoryMap", "_translate"], "coq": "gen_translate", "kind": "static",
                   "params": [("resource_info", "info"), ("window", "mmap"), ("window_name", "oname"),
                              ("window_range", "range")], "ret": "info"},
    "all_resources": {"path": ["MemoryMap", "all_resources"], "coq": "gen_all_resources_step", "kind": "gen",
                      "params": [], "ret": ("list", "info"), "rec": True},
    "find_resource": {"path": ["MemoryMap", "find_resource"], "coq": "gen_find_resource_step", "kind": "fun",
                      "params": [("resource", "obj")], "ret": "info", "rec": True},
    "decode_address": {"path": ["MemoryMap", "decode_address"], "coq": "gen_decode_address_step", "kind": "fun",
                       "params": [("address", "Z")], "ret": ("option", "rid"), "rec": True},
}
ORDER = ["items", "ResourceInfo", "prop:resource", "prop:path", "prop:start", "prop:end", "prop:width", "resources", "windows", "window_patterns", "_translate", "all_resources", "find_resource",
         "decode_address"]


class V:
    """typed Coq expression; `known` = Coq variable holding the _windows entry this object was found under"""
    def __init__(self, s, t, known=None):
        self.s, self.t, self.known = s, t, known


class Closure:
    def __init__(self, fn):
        self.fn = fn
        self.t = "closure"


def is_doc(st):
    return isinstance(st, ast.Expr) and isinstance(st.value, ast.Constant) and isinstance(st.value.value, str)


def stores(body):
    """names assigned anywhere in a list of statements (targets of =, for, with-less)"""
    out = []
    for st in body:
        for x in ast.walk(st):
            if isinstance(x, ast.Name) and isinstance(x.ctx, ast.Store) and x.id != "_" and x.id not in out:
                out.append(x.id)
    return out


def contains(body, kinds, stop=()):
    """does a statement of one of `kinds` occur in body (not looking inside nested statements of type `stop`)"""
    for st in body:
        if isinstance(st, kinds):
            return True
        if isinstance(st, stop) or isinstance(st, (ast.FunctionDef, ast.Lambda)):
            continue
        for f in ("body", "orelse", "handlers", "finalbody"):
            sub = getattr(st, f, None)
            if isinstance(sub, list) and contains(sub, kinds, stop):
                return True
    return False


class T:
    def __init__(self, key):
        self.key = key
        self.fn = FUNCS[key]
        self.n = 0

    def fresh(self, base):
        self.n += 1
        base = "".join(c if c.isalnum() or c == "_" else "_" for c in base).strip("_") or "v"
        return f"{base}_{self.n}"

    @staticmethod
    def ident(name):
        return name + "_" if name in RESERVED or name.startswith("gen_") else name

    # ------------------------------------------------------------------ coercions
    def coerce(self, v, want, env, pre):
        if isinstance(v, Closure):
            raise Untranslatable("a local function used as a value")
        if v.t == want or {v.t, want} == {"Z", "rid"}:
            return V(v.s, want, v.known)
        if v.t == "obj" and want == "rid":
            return V(f"(asg_id {v.s})", "rid")
        if v.t == "obj" and want == "mmap":
            if v.known:
                return V(f"(snd {v.known})", "mmap")
            key = "@deref:" + v.s
            if key not in env:
                if "self" not in env or env["self"].t != "mmap":
                    raise Untranslatable("an object used as a MemoryMap outside a method of a map")
                nm = self.fresh("map_of_" + v.s)
                pre.append((nm, f"deref_window (m_wins {env['self'].s}) {v.s}"))
                env[key] = V(nm, "mmap")
            return env[key]
        if v.t == "rmkey" and want == "range":
            return V(f"(range_of_entry {v.s})", "range")
        if v.t == "name" and want == "oname":
            return V(f"(Some {v.s})", "oname")
        if isinstance(want, tuple) and want[0] == "option" and v.t != want:
            inner = self.coerce(v, want[1], env, pre)
            return V(f"(Some {inner.s})", want)
        if isinstance(want, tuple) and want[0] == "tuple" and isinstance(v.t, tuple) and v.t[0] == "tuple" \
                and len(want[1]) == len(v.t[1]) and getattr(v, "parts", None):
            parts = [self.coerce(p, w, env, pre) for p, w in zip(v.parts, want[1])]
            r = V("(" + ", ".join(p.s for p in parts) + ")", want)
            r.parts = parts
            return r
        raise Untranslatable(f"a value of type {v.t} where {want} is expected: {v.s[:60]}")

    # ------------------------------------------------------------------ expressions
    def expr(self, n, env, pre):
        """pure Coq expression; calls that may raise are appended to `pre` as (variable, text of type res _)"""
        if isinstance(n, ast.Constant):
            if isinstance(n.value, bool):
                return V("true" if n.value else "false", "bool")
            if isinstance(n.value, int):
                return V(f"({n.value})", "Z")
            if isinstance(n.value, str):
                return V(self.strlit(n.value), "str")
            if n.value is None:
                return V("None", "none")
            raise Untranslatable("constant " + repr(n.value))
        if isinstance(n, ast.Name):
            if n.id in env:
                return env[n.id]
            raise Untranslatable(f"unknown name {n.id}")
        if isinstance(n, ast.Attribute):
            base = self.expr(n.value, env, pre)
            if isinstance(base, Closure):
                raise Untranslatable("attribute of a local function")
            if base.t == "obj":
                base = self.coerce(base, "mmap", env, pre)
            if (base.t, n.attr) in ATTRS:
                tmpl, t = ATTRS[(base.t, n.attr)]
                return V(tmpl.format(base.s), t)
            raise Untranslatable(f"attribute .{n.attr} of a value of type {base.t}")
        if isinstance(n, ast.BinOp):
            a = self.expr(n.left, env, pre); b = self.expr(n.right, env, pre)
            ta = "Z" if getattr(a, "t", None) == "rid" else getattr(a, "t", None)
            tb = "Z" if getattr(b, "t", None) == "rid" else getattr(b, "t", None)
            if ta == tb == "Z" and type(n.op) in BINOPS:
                return V(f"({BINOPS[type(n.op)]} {a.s} {b.s})", "Z")
            if ta == tb == "str" and isinstance(n.op, ast.Add):
                return V(f"({a.s} ++ {b.s})", "str")
            if ta == "str" and tb == "Z" and isinstance(n.op, ast.Mult):
                return V(f"(py_str_repeat {a.s} {b.s})", "str")
            if ta == "Z" and tb == "str" and isinstance(n.op, ast.Mult):
                return V(f"(py_str_repeat {b.s} {a.s})", "str")
            raise Untranslatable(f"operator {type(n.op).__name__} on {ta}, {tb}")
        if isinstance(n, ast.UnaryOp) and isinstance(n.op, ast.USub):
            a = self.expr(n.operand, env, pre)
            if a.t == "Z":
                return V(f"(Z.opp {a.s})", "Z")
        if isinstance(n, ast.UnaryOp) and isinstance(n.op, ast.Invert):
            a = self.expr(n.operand, env, pre)
            if a.t == "Z":
                return V(f"(Z.lnot {a.s})", "Z")
        if isinstance(n, (ast.Compare, ast.BoolOp)) or (isinstance(n, ast.UnaryOp) and isinstance(n.op, ast.Not)):
            return V(self.cond(n, env, pre), "bool")
        if isinstance(n, ast.JoinedStr):
            return self.fstring(n, env, pre)
        if isinstance(n, ast.Tuple):
            return self.tuple_display(n, env, pre)
        if isinstance(n, ast.IfExp):
            return self.ifexp(n, env, pre)
        if isinstance(n, ast.Subscript):
            return self.subscript(n, env, pre)
        if isinstance(n, ast.GeneratorExp) or isinstance(n, ast.ListComp):
            return self.comprehension(n, env)
        if isinstance(n, ast.Call):
            return self.call(n, env, pre)
        raise Untranslatable("expression " + ast.dump(n)[:100])

    def strlit(self, s):
        try:
            return "[" + "; ".join(str(CHARS[c]) for c in s) + "]"
        except KeyError:
            raise Untranslatable(f"string literal {s!r} outside the alphabet 0 1 -")

    def fstring(self, n, env, pre):
        # exactly  f"{value:0{width}b}"
        if len(n.values) == 1 and isinstance(n.values[0], ast.FormattedValue) and n.values[0].conversion == -1:
            fv = n.values[0]
            sp = fv.format_spec
            if isinstance(sp, ast.JoinedStr) and len(sp.values) == 3 \
                    and isinstance(sp.values[0], ast.Constant) and sp.values[0].value == "0" \
                    and isinstance(sp.values[1], ast.FormattedValue) and sp.values[1].conversion == -1 \
                    and sp.values[1].format_spec is None \
                    and isinstance(sp.values[2], ast.Constant) and sp.values[2].value == "b":
                v = self.expr(fv.value, env, pre); w = self.expr(sp.values[1].value, env, pre)
                if v.t == "Z" and w.t == "Z":
                    return V(f"(py_format_0b {v.s} {w.s})", "str")
        raise Untranslatable("f-string other than f\"{v:0{w}b}\"")

    def tuple_display(self, n, env, pre):
        items = []
        for e in n.elts:
            if isinstance(e, ast.Starred):
                items.append(("*", self.expr(e.value, env, pre)))
            else:
                items.append(("", self.expr(e, env, pre)))
        if any(isinstance(v, Closure) for _, v in items):
            raise Untranslatable("a local function in a tuple")
        if items and all((st == "" and v.t == "name") or (st == "*" and v.t == "path") for st, v in items):
            # a path
            txt = None
            for st, v in reversed(items):
                if st == "*":
                    txt = v.s if txt is None else f"({v.s} ++ {txt})"
                else:
                    txt = f"({v.s} :: {'[]' if txt is None else txt})"
            return V(txt, "path")
        if any(st for st, _ in items) or not items:
            raise Untranslatable("tuple display with * outside a path, or empty")
        r = V("(" + ", ".join(v.s for _, v in items) + ")", ("tuple", tuple(v.t for _, v in items)))
        r.parts = [v for _, v in items]
        return r

    def none_test(self, test, env):
        """(name, is_positive) when test is `NAME is None` / `NAME is not None` on an optional value"""
        if isinstance(test, ast.Compare) and len(test.ops) == 1 and isinstance(test.ops[0], (ast.Is, ast.IsNot)) \
                and isinstance(test.comparators[0], ast.Constant) and test.comparators[0].value is None \
                and isinstance(test.left, ast.Name) and test.left.id in env and not isinstance(env[test.left.id], Closure):
            v = env[test.left.id]
            if v.t == "oname" or (isinstance(v.t, tuple) and v.t[0] == "option"):
                return test.left.id, isinstance(test.ops[0], ast.Is)
            raise Untranslatable(f"`is None` on {test.left.id}, which is never None")
        return None

    @staticmethod
    def some_type(t):
        return "name" if t == "oname" else t[1]

    def ifexp(self, n, env, pre):
        nt = self.none_test(n.test, env)
        p1, p2 = [], []
        if nt:
            nm, is_none = nt
            v = env[nm]
            x = self.fresh(nm)
            env_some = dict(env); env_some[nm] = V(x, self.some_type(v.t))
            on_none, on_some = (n.body, n.orelse) if is_none else (n.orelse, n.body)
            a = self.expr(on_none, dict(env), p1); b = self.expr(on_some, env_some, p2)
            if p1 or p2 or isinstance(a, Closure) or isinstance(b, Closure) or a.t != b.t:
                raise Untranslatable("if-expression: arms of different types, or a call that may raise in an arm")
            return V(f"(match {v.s} with None => {a.s} | Some {x} => {b.s} end)", a.t)
        c = self.cond(n.test, env, pre)
        a = self.expr(n.body, dict(env), p1); b = self.expr(n.orelse, dict(env), p2)
        if p1 or p2 or isinstance(a, Closure) or isinstance(b, Closure) or a.t != b.t:
            raise Untranslatable("if-expression: arms of different types, or a call that may raise in an arm")
        return V(f"(if {c} then {a.s} else {b.s})", a.t)

    def id_of(self, n, env):
        """the object x in the expression id(x)"""
        if isinstance(n, ast.Call) and isinstance(n.func, ast.Name) and n.func.id == "id" and len(n.args) == 1 \
                and not n.keywords and "id" not in env:
            v = self.expr(n.args[0], env, [])
            if not isinstance(v, Closure) and v.t == "obj":
                return v
            raise Untranslatable("id() of something that is not an object kept in the map")
        return None

    def subscript(self, n, env, pre):
        base = self.expr(n.value, env, pre)
        if not isinstance(base, Closure) and base.t == "rmvalues":
            k = self.expr(n.slice, env, pre)
            if not isinstance(k, Closure) and k.t == "rmkey":
                return V(f"(e_asg {k.s})", "obj")          # self._values[key]: the key carries its value
            raise Untranslatable("self._values indexed by something else than a key")
        if not isinstance(base, Closure) and base.t in DICTS:
            x = self.id_of(n.slice, env)
            if x is None:
                raise Untranslatable("dictionary indexed by something else than id(object)")
            fn, rec = DICTS[base.t]
            if x.known and base.t == "windict":
                return V(x.known, rec)
            k = "@entry:" + base.t + ":" + x.s
            if k in env:
                return env[k]
            nm = self.fresh("entry_of_" + x.s)
            pre.append((nm, f"dict_get ({fn} {base.s} {x.s})"))
            return V(nm, rec)
        raise Untranslatable("subscript " + ast.dump(n)[:80])

    def comprehension(self, n, env):
        if len(n.generators) != 1 or n.generators[0].ifs or n.generators[0].is_async:
            raise Untranslatable("comprehension form")
        g = n.generators[0]
        p = []
        src = self.expr(g.iter, env, p)
        if p or isinstance(src, Closure):
            raise Untranslatable("comprehension over a call that may raise")
        et = self.elem_type(src.t)
        x = self.fresh("x")
        env2 = dict(env)
        binds = self.bind_target(g.target, V(x, et), env2)
        body = self.expr(n.elt, env2, p)
        if p or isinstance(body, Closure):
            raise Untranslatable("comprehension element may raise")
        rt = "path" if body.t == "name" else ("list", body.t)
        return V(f"(map (fun {x} => {binds}{body.s}) {src.s})", rt)

    @staticmethod
    def elem_type(t):
        if t == "path":
            return "name"
        if isinstance(t, tuple) and t[0] == "list":
            return t[1]
        raise Untranslatable(f"iteration over a value of type {t}")

    def call(self, n, env, pre):
        f = n.func
        if n.keywords or any(isinstance(a, ast.Starred) for a in n.args):
            raise Untranslatable("call with keywords or *args: " + ast.unparse(n)[:80])
        if isinstance(f, ast.Name) and f.id not in env:
            nm = f.id
            if nm in ("max", "min") and len(n.args) == 2:
                a = self.coerce(self.expr(n.args[0], env, pre), "Z", env, pre)
                b = self.coerce(self.expr(n.args[1], env, pre), "Z", env, pre)
                return V(f"(Z.{nm} {a.s} {b.s})", "Z")
            if nm == "len" and len(n.args) == 1:
                a = self.expr(n.args[0], env, pre)
                if not isinstance(a, Closure) and (a.t in ("path", "str") or (isinstance(a.t, tuple) and a.t[0] == "list")):
                    return V(f"(Z.of_nat (length {a.s}))", "Z")
                raise Untranslatable("len() of a value that is not a sequence")
            if nm == "tuple" and len(n.args) == 1:
                a = self.expr(n.args[0], env, pre)
                if not isinstance(a, Closure) and (a.t == "path" or (isinstance(a.t, tuple) and a.t[0] == "list")):
                    return a
                raise Untranslatable("tuple() of a value that is not a sequence")
            if nm == "filter" and len(n.args) == 2:
                fn = self.expr(n.args[0], env, pre)
                l = self.expr(n.args[1], env, pre)
                if not isinstance(fn, Closure) or isinstance(l, Closure):
                    raise Untranslatable("filter() needs a local function and a sequence")
                et = self.elem_type(l.t)
                return V(f"(filter {self.closure(fn, et, env)} {l.s})", ("list", et))
            if nm == "ResourceInfo":
                return self.known_call("ResourceInfo", n.args, env, pre)
            raise Untranslatable(f"call of {nm}")
        if isinstance(f, ast.Attribute):
            # MemoryMap.Name(x) on a name
            try:
                p = attr_path(f)
            except Untranslatable:
                p = None
            if p == "MemoryMap.Name" and len(n.args) == 1 and "MemoryMap" not in env:
                a = self.expr(n.args[0], env, pre)
                if not isinstance(a, Closure) and a.t == "name":
                    return a
                raise Untranslatable("MemoryMap.Name() of a value that is not already a name")
            meth = f.attr
            # static method through the class or through self
            if meth in FUNCS and FUNCS[meth]["kind"] == "static" and isinstance(f.value, ast.Name) \
                    and ((f.value.id == "MemoryMap" and "MemoryMap" not in env) or f.value.id == "self"):
                return self.known_call(meth, n.args, env, pre)
            recv = self.expr(f.value, env, pre)
            if isinstance(recv, Closure):
                raise Untranslatable("method of a local function")
            if recv.t == "rangemap":
                if meth == "items" and not n.args:
                    return V(recv.s, ("list", "entry"))
                if meth == "get" and len(n.args) == 1:
                    a = self.coerce(self.expr(n.args[0], env, pre), "Z", env, pre)
                    return V(f"(option_map e_asg (rm_get {recv.s} {a.s}))", ("option", "obj"))
                raise Untranslatable(f"_RangeMap.{meth}")
            if recv.t in DICTS:
                if meth == "values" and not n.args:
                    return V(recv.s, ("list", DICTS[recv.t][1]))
                raise Untranslatable(f"dict method {meth}")
            if recv.t == "obj":
                recv = self.coerce(recv, "mmap", env, pre)
            if meth in FUNCS and FUNCS[meth]["kind"] in ("gen", "fun") and recv.t == FUNCS[meth].get("self", "mmap"):
                return self.known_call(meth, n.args, env, pre, recv)
            raise Untranslatable(f"method .{meth} of a value of type {recv.t}")
        raise Untranslatable("call " + ast.unparse(n)[:80])

    def known_call(self, key, args, env, pre, recv=None):
        spec = FUNCS[key]
        if len(args) != len(spec["params"]):
            raise Untranslatable(f"{key}: {len(args)} arguments for {len(spec['params'])} parameters")
        vals = [self.coerce(self.expr(a, env, pre), t, env, pre) for a, (_, t) in zip(args, spec["params"])]
        if recv is None:
            head = spec["coq"]
        elif key == self.key:
            if "self" in env and recv.s == env["self"].s:
                raise Untranslatable(f"{key} calls itself on self")
            head = f"rec {recv.s}"
        elif spec.get("rec"):
            raise Untranslatable(f"{self.key} calls the recursive method {key}")
        else:
            head = f"{spec['coq']} {recv.s}"
        nm = self.fresh(key.strip("_") + "_result")
        pre.append((nm, " ".join([head] + [v.s for v in vals])))
        return V(nm, spec["ret"])

    def closure(self, c, argt, env):
        """a nested `def f(item): ...; return <bool>` as a Coq function on values of type argt"""
        fn = c.fn
        a = fn.args
        if len(a.args) != 1 or a.vararg or a.kwarg or a.kwonlyargs or a.posonlyargs or a.defaults or fn.decorator_list:
            raise Untranslatable(f"local function {fn.name}: signature")
        x = self.ident(a.args[0].arg)
        env2 = {"self": env["self"]} if "self" in env else {}
        env2[a.args[0].arg] = V(x, argt)
        sub = T(self.key); sub.n = self.n + 100
        sub.ret_override = "bool"
        body = sub.block(fn.body, env2, lambda e: (_ for _ in ()).throw(Untranslatable("local function without return")),
                         {"mode": "pure"})
        return f"(fun {x} : {cq(argt)} => {body})"

    # ------------------------------------------------------------------ conditions
    def cond(self, n, env, pre):
        if isinstance(n, ast.Constant) and isinstance(n.value, bool):
            return "true" if n.value else "false"
        if isinstance(n, ast.BoolOp):
            op = "&&" if isinstance(n.op, ast.And) else "||"
            parts = []
            for i, v in enumerate(n.values):
                p = pre if i == 0 else []
                parts.append(self.cond(v, env, p))
                if i and p:
                    raise Untranslatable("a call that may raise under and/or")
            return "(" + f" {op} ".join(parts) + ")"
        if isinstance(n, ast.UnaryOp) and isinstance(n.op, ast.Not):
            return f"(negb {self.cond(n.operand, env, pre)})"
        if isinstance(n, ast.Compare) and len(n.ops) == 1:
            op = type(n.ops[0]); l, r = n.left, n.comparators[0]
            nt = self.none_test(n, env)
            if nt:
                nm, pos = nt
                return f"(match {env[nm].s} with None => {'true' if pos else 'false'} | Some _ => {'false' if pos else 'true'} end)"
            if op in (ast.In, ast.NotIn):
                x = self.id_of(l, env)
                d = self.expr(r, env, pre)
                if x is None or isinstance(d, Closure) or d.t not in DICTS:
                    raise Untranslatable("`in` other than id(object) in self._resources / self._windows")
                t = f"(is_some ({DICTS[d.t][0]} {d.s} {x.s}))"
                return t if op is ast.In else f"(negb {t})"
            a = self.expr(l, env, pre); b = self.expr(r, env, pre)
            if isinstance(a, Closure) or isinstance(b, Closure):
                raise Untranslatable("comparison of a local function")
            ta = "Z" if a.t == "rid" else a.t; tb = "Z" if b.t == "rid" else b.t
            if ta == tb == "Z":
                tab = {ast.Eq: "Z.eqb", ast.Lt: "Z.ltb", ast.LtE: "Z.leb", ast.Gt: "Z.gtb", ast.GtE: "Z.geb"}
                if op is ast.NotEq:
                    return f"(negb (Z.eqb {a.s} {b.s}))"
                if op in tab:
                    return f"({tab[op]} {a.s} {b.s})"
            raise Untranslatable(f"comparison {op.__name__} on {ta}, {tb}")
        if isinstance(n, ast.Call) and isinstance(n.func, ast.Name) and n.func.id == "isinstance" and len(n.args) == 2 \
                and isinstance(n.args[1], ast.Name) and "isinstance" not in env and not n.keywords:
            v = self.expr(n.args[0], env, pre)
            cls = n.args[1].id
            if not isinstance(v, Closure):
                if cls == "int" and v.t in ("Z", "rid"):
                    return "true"
                if cls == "tuple" and (v.t in ("path", "name") or (isinstance(v.t, tuple) and v.t[0] == "tuple")):
                    return "true"
            raise Untranslatable(f"isinstance(.., {cls}) on a value of type {getattr(v, 't', '?')}")
        v = self.expr(n, env, pre)
        if not isinstance(v, Closure) and v.t == "bool":
            return v.s
        if not isinstance(v, Closure) and (v.t in ("path", "str") or (isinstance(v.t, tuple) and v.t[0] == "list")):
            return f"(negb (Z.eqb (Z.of_nat (length {v.s})) (0)))"          # truth value of a sequence
        raise Untranslatable("condition " + ast.dump(n)[:100])

    # ------------------------------------------------------------------ statements
    @staticmethod
    def wrap(pre, body):
        for nm, txt in reversed(pre):
            body = f"(let! {nm} := {txt} in\n  {body})"
        return body

    def bind_target(self, target, v, env):
        """text of the `let`s that bind an assignment target to v; updates env"""
        if isinstance(target, ast.Name):
            if target.id == "_":
                return ""
            nm = self.ident(target.id)
            for k in [k for k in env if k.startswith("@") and k.split(":")[-1] == nm]:
                del env[k]
            env[target.id] = V(nm, v.t, v.known)
            return "" if v.s == nm else f"let {nm} := {v.s} in "
        if isinstance(target, (ast.Tuple, ast.List)):
            if any(isinstance(e, ast.Starred) for e in target.elts):
                raise Untranslatable("starred assignment target")
            if v.t in POSITIONAL:
                comps = POSITIONAL[v.t]
                if len(comps) != len(target.elts):
                    raise Untranslatable(f"unpacking a {v.t} into {len(target.elts)} names")
                return "".join(self.bind_target(e, V(tmpl.format(v.s), t), env) for e, (t, tmpl) in zip(target.elts, comps))
            if isinstance(v.t, tuple) and v.t[0] == "tuple":
                if len(v.t[1]) != len(target.elts):
                    raise Untranslatable("unpacking a tuple of another length")
                pat = self.pattern(target, v.t, env)
                return f"let '{pat} := {v.s} in "
            raise Untranslatable(f"unpacking a value of type {v.t}")
        raise Untranslatable("assignment target " + ast.dump(target)[:80])

    def pattern(self, target, t, env):
        if isinstance(target, ast.Name):
            if target.id == "_":
                return "_"
            nm = self.ident(target.id)
            env[target.id] = V(nm, t)
            return nm
        if isinstance(target, (ast.Tuple, ast.List)) and isinstance(t, tuple) and t[0] == "tuple" \
                and len(t[1]) == len(target.elts):
            return "(" + ", ".join(self.pattern(e, x, env) for e, x in zip(target.elts, t[1])) + ")"
        raise Untranslatable("assignment pattern")

    def ret_type(self):
        return getattr(self, "ret_override", None) or self.fn["ret"]

    def block(self, body, env, k, ctx):
        """Coq text for `body` followed by the continuation k(env).
        ctx["mode"]: "gen" (value: res (list T)), "fun" (res T), "pure" (local predicate: bool)."""
        if not body:
            return k(env)
        st, rest = body[0], body[1:]
        mode = ctx["mode"]
        nxt = lambda e: self.block(rest, e, k, ctx)
        if is_doc(st) or isinstance(st, ast.Pass):
            return nxt(env)
        pre = []
        if isinstance(st, ast.FunctionDef):
            if mode == "pure" or st.name in env:
                raise Untranslatable("nested function " + st.name)
            env2 = dict(env); env2[st.name] = Closure(st)
            return nxt(env2)
        if isinstance(st, ast.Assert):
            if mode == "pure" or st.msg is not None:
                raise Untranslatable("assert in a local function / with a message")
            c = self.cond(st.test, env, pre)
            return self.wrap(pre, f"(if {c} then\n  {nxt(env)}\n  else Err AssertionError)")
        if isinstance(st, ast.Raise):
            if mode == "pure":
                raise Untranslatable("raise in a local function")
            return f"(Err {self.exc(st)})"
        if isinstance(st, ast.Return):
            return self.ret(st, env, ctx)
        if isinstance(st, ast.Expr) and isinstance(st.value, ast.Yield):
            if mode != "gen" or st.value.value is None:
                raise Untranslatable("yield outside a generator / without value")
            v = self.coerce(self.expr(st.value.value, env, pre), self.ret_type()[1], env, pre)
            r = nxt(env)
            if r == "(Ok [])":
                return self.wrap(pre, f"(Ok [{v.s}])")
            rr = self.fresh("rest")
            return self.wrap(pre, f"(let! {rr} := {r} in Ok ({v.s} :: {rr}))")
        if isinstance(st, ast.Assign) and len(st.targets) == 1:
            t = st.targets[0]
            if isinstance(t, ast.Attribute):
                return self.field_store(t, st.value, env, nxt)
            v = self.expr(st.value, env, pre)
            if isinstance(v, Closure) or v.t == "none":
                raise Untranslatable("assignment of a function or of None")
            if mode == "pure" and pre:
                raise Untranslatable("a call that may raise inside a local function")
            env2 = dict(env)
            binds = self.bind_target(t, v, env2)
            return self.wrap(pre, f"({binds}\n  {nxt(env2)})" if binds else nxt(env2))
        if isinstance(st, ast.If):
            if mode == "pure":
                raise Untranslatable("if in a local function")
            return self.if_stmt(st, env, nxt, k, ctx)
        if isinstance(st, ast.For):
            if mode == "pure":
                raise Untranslatable("loop in a local function")
            return self.for_stmt(st, env, nxt, ctx)
        if isinstance(st, ast.Try):
            return self.try_stmt(st, env, nxt, k, ctx)
        if isinstance(st, ast.Break) and ctx.get("break") is not None and not rest:
            return ctx["break"](env)
        if isinstance(st, ast.Continue) and ctx.get("continue") is not None and not rest:
            return ctx["continue"](env)
        raise Untranslatable("statement " + ast.dump(st)[:100])

    def exc(self, st):
        e = st.exc
        if st.cause is not None or e is None:
            raise Untranslatable("raise form")
        nm = e.func.id if isinstance(e, ast.Call) and isinstance(e.func, ast.Name) else e.id if isinstance(e, ast.Name) else None
        if nm in ("ValueError", "TypeError", "KeyError", "AssertionError"):
            if isinstance(e, ast.Call):
                for a in e.args:
                    if not isinstance(a, (ast.Name, ast.Constant, ast.JoinedStr)):
                        raise Untranslatable("argument of the raised exception")
            return nm
        raise Untranslatable("raise " + ast.dump(st)[:80])

    def ret(self, st, env, ctx):
        mode = ctx["mode"]
        rt = self.ret_type()
        pre = []
        if mode == "gen":
            if st.value is not None or ctx.get("loop"):
                raise Untranslatable("return inside a generator loop / with a value")
            return "(Ok [])"
        if st.value is None or (isinstance(st.value, ast.Constant) and st.value.value is None):
            if isinstance(rt, tuple) and rt[0] == "option":
                return "(Ok None)"
            raise Untranslatable("return without a value")
        v = self.expr(st.value, env, pre)
        if isinstance(v, Closure):
            raise Untranslatable("return of a local function")
        if mode == "pure":
            if pre or v.t != "bool":
                raise Untranslatable("local function must return a boolean expression")
            return v.s
        v = self.coerce(v, rt, env, pre)
        if pre and pre[-1][0] == v.s:
            return self.wrap(pre[:-1], f"({pre[-1][1]})")
        return self.wrap(pre, f"(Ok {v.s})")

    def field_store(self, t, value, env, nxt):
        if self.fn["kind"] != "ctor" or not (isinstance(t.value, ast.Name) and t.value.id == "self"):
            raise Untranslatable("store into an attribute: " + ast.unparse(t))
        for (attr, _, ty) in self.fn["fields"]:
            if attr == t.attr:
                pre = []
                v = self.coerce(self.expr(value, env, pre), ty, env, pre)
                nm = self.fresh("self" + attr)
                env2 = dict(env); env2["@field:" + attr] = V(nm, ty)
                return self.wrap(pre, f"(let {nm} := {v.s} in\n  {nxt(env2)})")
        raise Untranslatable(f"store into the undeclared attribute self.{t.attr}")

    def if_stmt(self, st, env, nxt, k, ctx):
        pre = []
        test = st.test
        # `if id(x) in self._windows:` / `self._resources`: a match that remembers the entry
        if isinstance(test, ast.Compare) and len(test.ops) == 1 and isinstance(test.ops[0], ast.In):
            x = self.id_of(test.left, dict(env))
            d = self.expr(test.comparators[0], dict(env), pre)
            if x is not None and not isinstance(d, Closure) and d.t in DICTS and isinstance(test.left.args[0], ast.Name):
                fn, rec = DICTS[d.t]
                ent = self.fresh("entry_of_" + x.s)
                env_t = dict(env)
                if d.t == "windict":
                    env_t[test.left.args[0].id] = V(x.s, "obj", known=ent)
                else:
                    env_t["@entry:" + d.t + ":" + x.s] = V(ent, rec)
                a = self.block(st.body, env_t, nxt, ctx)
                b = self.block(st.orelse, dict(env), nxt, ctx)
                return self.wrap(pre, f"(match {fn} {d.s} {x.s} with\n  | Some {ent} =>\n  {a}\n  | None =>\n  {b}\n  end)")
            pre = []
        nt = self.none_test(test, env)
        if nt:
            nm, is_none = nt
            v = env[nm]
            x = self.fresh(nm)
            env_some = dict(env); env_some[nm] = V(x, self.some_type(v.t))
            body_none, body_some = (st.body, st.orelse) if is_none else (st.orelse, st.body)
            a = self.block(body_none, dict(env), nxt, ctx)
            b = self.block(body_some, env_some, nxt, ctx)
            return f"(match {v.s} with\n  | None =>\n  {a}\n  | Some {x} =>\n  {b}\n  end)"
        c = self.cond(test, env, pre)
        a = self.block(st.body, dict(env), nxt, ctx)
        b = self.block(st.orelse, dict(env), nxt, ctx)
        return self.wrap(pre, f"(if {c} then\n  {a}\n  else\n  {b})")

    def for_stmt(self, st, env, nxt, ctx):
        if st.orelse:
            raise Untranslatable("for-else")
        pre = []
        it = self.expr(st.iter, env, pre)
        if isinstance(it, Closure):
            raise Untranslatable("iteration over a function")
        et = self.elem_type(it.t)
        for nm in stores(st.body) + stores([ast.Expr(value=st.target)]):
            if nm in env:
                raise Untranslatable(f"the loop assigns {nm}, which exists before the loop")
        x = self.fresh("item")
        env_b = dict(env)
        binds = self.bind_target(st.target, V(x, et), env_b)
        if ctx["mode"] == "gen":
            if contains(st.body, (ast.Break, ast.Continue, ast.Return)):
                raise Untranslatable("break / continue / return inside a generator loop")
            ctx_b = dict(ctx); ctx_b["loop"] = True; ctx_b["break"] = ctx_b["continue"] = None
            body = self.block(st.body, env_b, lambda e: "(Ok [])", ctx_b)
            loop = f"(concatR (map (fun {x} : {cq(et)} => {binds}\n  {body})\n  {it.s}))"
            r = nxt(dict(env))
            if r == "(Ok [])":
                return self.wrap(pre, loop)
            a, b = self.fresh("part"), self.fresh("rest")
            return self.wrap(pre, f"(let! {a} := {loop} in\n  let! {b} := {r} in Ok ({a} ++ {b}))")
        lp, tl = self.fresh("loop"), self.fresh("tail")
        after = lambda e: nxt(dict(env))
        ctx_b = dict(ctx); ctx_b["loop"] = True
        ctx_b["break"] = after
        ctx_b["continue"] = lambda e: f"({lp} {tl})"
        body = self.block(st.body, env_b, lambda e: f"({lp} {tl})", ctx_b)
        rt = cq(self.ret_type())
        return self.wrap(pre, f"((fix {lp} (items : list {cq(et)}) {{struct items}} : res {rt} :=\n"
                              f"  match items with\n  | [] =>\n  {after(env)}\n  | {x} :: {tl} => {binds}\n  {body}\n  end)\n  {it.s})")

    def try_stmt(self, st, env, nxt, k, ctx):
        if ctx["mode"] != "fun" or st.orelse or st.finalbody or len(st.handlers) != 1:
            raise Untranslatable("try form")
        h = st.handlers[0]
        if h.name is not None or not isinstance(h.type, ast.Name) or h.type.id not in ("KeyError", "ValueError", "TypeError"):
            raise Untranslatable("except clause")
        if not st.body or contains(st.body, (ast.Break, ast.Continue)):
            raise Untranslatable("break / continue inside the body of try")
        for nm in stores(st.body):
            if nm in env:
                raise Untranslatable(f"try assigns {nm}, which exists before it")
        ctx_t = dict(ctx); ctx_t["break"] = ctx_t["continue"] = None
        hb = self.block(h.body, dict(env), nxt, ctx)
        other = self.fresh("outcome")
        if isinstance(st.body[-1], (ast.Return, ast.Raise)):
            # the body never falls through: its outcome is the outcome of the function unless it is the caught exception
            body = self.block(st.body, dict(env), lambda e: (_ for _ in ()).throw(Untranslatable("try body falls through")), ctx_t)
            return f"(match {body} with\n  | Err {h.type.id} =>\n  {hb}\n  | {other} => {other}\n  end)"
        # the body only falls through: its outcome is the tuple of the variables it defines
        if contains(st.body, (ast.Return,)):
            raise Untranslatable("a try body that both returns and falls through")
        names = stores(st.body)
        seen = {}

        def fall(e):
            for nm in names:
                if nm not in e or isinstance(e[nm], Closure):
                    raise Untranslatable(f"{nm} is not defined on every path through the try body")
                if seen.setdefault(nm, e[nm].t) != e[nm].t:
                    raise Untranslatable(f"{nm} has two types")
            return "(Ok (" + ", ".join(e[nm].s for nm in names) + "))" if names else "(Ok tt)"
        body = self.block(st.body, dict(env), fall, ctx_t)
        env2 = dict(env)
        pats = []
        for nm in names:
            x = self.fresh(nm)
            env2[nm] = V(x, seen[nm]); pats.append(x)
        pat = ("(" + ", ".join(pats) + ")") if names else "_"
        return (f"(match {body} with\n  | Err {h.type.id} =>\n  {hb}\n  | Err {other} => Err {other}\n"
                f"  | Ok {pat} =>\n  {nxt(env2)}\n  end)")


def translate_function(tree, key):
    spec = FUNCS[key]
    fn = find_func(tree, spec["path"])
    if not isinstance(fn, ast.FunctionDef):
        raise Untranslatable(f"{key} is not a function")
    a = fn.args
    if a.vararg or a.kwarg or a.kwonlyargs or a.posonlyargs or a.defaults:
        raise Untranslatable(f"{key}: signature")
    names = [x.arg for x in a.args]
    decos = [ast.unparse(d) for d in fn.decorator_list]
    if spec["kind"] == "static":
        if decos != ["staticmethod"]:
            raise Untranslatable(f"{key}: expected a staticmethod")
    elif spec["kind"] == "prop":
        if decos != ["property"] or names != ["self"]:
            raise Untranslatable(f"{key}: expected a property")
        names = []
    else:
        if decos or not names or names[0] != "self":
            raise Untranslatable(f"{key}: expected a plain method")
        names = names[1:]
    if names != [p for p, _ in spec["params"]]:
        raise Untranslatable(f"{key}: parameters are {names}, expected {[p for p, _ in spec['params']]}")
    is_gen = any(isinstance(x, (ast.Yield, ast.YieldFrom)) for st in fn.body for x in ast.walk(st)
                 if not isinstance(st, ast.FunctionDef))
    if is_gen != (spec["kind"] == "gen"):
        raise Untranslatable(f"{key}: {'became' if is_gen else 'is no longer'} a generator")
    t = T(key)
    env = {}
    params = []
    if spec["kind"] in ("gen", "fun", "prop"):
        env["self"] = V("self", spec.get("self", "mmap"))
        params.append(f"(self : {cq(spec.get('self', 'mmap'))})")
    for p, ty in spec["params"]:
        nm = t.ident(p)
        env[p] = V(nm, ty)
        params.append(f"({nm} : {cq(ty)})")
    rt = cq(spec["ret"])
    if spec.get("rec"):
        sig = " -> ".join(["mmap"] + [cq(ty) for _, ty in spec["params"]] + [f"res {rt}"])
        params.insert(0, f"(rec : {sig})")
    if spec["kind"] == "gen":
        body = t.block(fn.body, env, lambda e: "(Ok [])", {"mode": "gen"})
    elif spec["kind"] == "ctor":
        def done(e):
            vals = []
            for attr, proj, _ in spec["fields"]:
                if "@field:" + attr not in e:
                    raise Untranslatable(f"{key}: self.{attr} is not assigned on every path")
                vals.append(f"{proj} := {e['@field:' + attr].s}")
            return "(Ok {| " + "; ".join(vals) + " |})"
        body = t.block(fn.body, env, done, {"mode": "fun"})
    else:
        def off_end(e):
            if isinstance(spec["ret"], tuple) and spec["ret"][0] == "option":
                return "(Ok None)"
            raise Untranslatable(f"{key}: control reaches the end without return")
        body = t.block(fn.body, env, off_end, {"mode": "fun"})
    return (f"(* amaranth_soc/memory.py: {'.'.join(spec['path'])} *)\n"
            f"Definition {spec['coq']} {' '.join(params)} : res {rt} :=\n  {body}.\n")


def generate(repo):
    src = open(os.path.join(repo, "amaranth_soc/memory.py")).read()
    tree = ast.parse(src)
    out = ["(* GENERATED on every run by harness/translate5.py from /repo's current source. Do not edit. *)",
           "From Coq Require Import ZArith List Bool.",
           "From Soc Require Import Lib.Res Lib.PyList Model.MemoryMap Lib.LookupRep.",
           "Import ListNotations.", "Open Scope Z_scope.", ""]
    for key in ORDER:
        out.append(translate_function(tree, key))
    return "\n".join(out)


# what runner.check_kernels runs for a property whose propdef sets the flag
STAGES = [("lookup", "LookupGen.v", generate, "TieLookup.v")]

if __name__ == "__main__":
    import sys
    print(generate(sys.argv[1] if len(sys.argv) > 1 else "/repo"))
