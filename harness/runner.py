"""Per-property check: re-check theorems, run the correspondence, search for failing inputs, write evidence."""
import os, sys, json, time, shutil, subprocess, re, importlib, fcntl, glob, traceback
from . import common as C
from .props import PROPS

FORBIDDEN = re.compile(r"\b(Admitted|admit|Axiom|Axioms|Parameter|Parameters|Conjecture|Conjectures|"
                       r"Hypothesis|Hypotheses|Variable|Variables|Unset\s+Guard|bypass_check|"
                       r"Admit\s+Obligations|native_compute|-type-in-type|Unset\s+Positivity|"
                       r"Unset\s+Universe)\b")


def strip_comments(src):
    out = []; depth = 0; i = 0; n = len(src)
    while i < n:
        if src.startswith("(*", i):
            depth += 1; i += 2
        elif src.startswith("*)", i) and depth:
            depth -= 1; i += 2
        else:
            if not depth:
                out.append(src[i])
            i += 1
    return "".join(out)


def scan_forbidden():
    """No Admitted/admit/Axiom/Parameter/... anywhere; Variable/Hypothesis only inside a Section."""
    bad = []
    for path in sorted(glob.glob(os.path.join(C.COQ, "**", "*.v"), recursive=True)):
        src = strip_comments(open(path).read())
        depth = 0
        for ln, line in enumerate(src.splitlines(), 1):
            if re.match(r"\s*Section\b", line):
                depth += 1
            for m in FORBIDDEN.finditer(line):
                w = m.group(1)
                if w.startswith(("Variable", "Hypothes")) and depth > 0:
                    continue
                bad.append(f"{os.path.relpath(path, C.COQ)}:{ln}: {w}")
            if re.match(r"\s*End\b", line) and depth:
                depth -= 1
    return bad


def coq_env():
    e = dict(os.environ)
    e["LC_ALL"] = "C"
    return e


def build_coq(log):
    """Full .vo build, serialised across concurrently running checks."""
    C.ensure_dir(C.WORK)
    C.ensure_dir(C.LOCKDIR)
    with open(os.path.join(C.LOCKDIR, "build.lock"), "w") as lk:
        fcntl.flock(lk, fcntl.LOCK_EX)
        p = subprocess.run(["sh", os.path.join(C.VERIF, "setup.sh")], stdout=subprocess.PIPE,
                           stderr=subprocess.STDOUT, timeout=3400, env=coq_env())
        log.append(p.stdout.decode()[-4000:])
        return p.returncode == 0 and b"setup-ok" in p.stdout


def check_theorems(pid, work, log):
    """Fresh coqc of the property file; every `Print Assumptions` must be closed (or list only
    allowed stdlib axioms).  Returns dict."""
    spec = PROPS[pid]
    res = {"obligations": 0, "discharged": 0, "failed": [], "axioms": [], "theorems": []}
    files = spec.get("prop_files", [f"Properties/{pid}.v"])
    for rel in files:
        src = os.path.join(C.COQ, rel)
        text = open(src).read()
        names = re.findall(r"Print Assumptions\s+([A-Za-z0-9_'.]+)\s*\.", strip_comments(text))
        res["obligations"] += len(names)
        res["theorems"] += names
        dst = os.path.join(work, "thm_" + os.path.basename(rel))
        shutil.copy(src, dst)
        p = subprocess.run(["coqc", "-Q", C.COQ, "Soc", "-w", "-notation-overridden", dst],
                           stdout=subprocess.PIPE, stderr=subprocess.STDOUT, timeout=1200,
                           cwd=work, env=coq_env())
        out = p.stdout.decode()
        if p.returncode != 0:
            log.append(out[-3000:])
            res["failed"].append(f"{rel}: coqc failed: {out.strip().splitlines()[-1] if out.strip() else ''}")
            continue
        closed = out.count("Closed under the global context")
        axioms = re.findall(r"^Axioms:\n((?:.+\n)+?)(?=\S|\Z)", out, flags=re.M)
        if axioms:
            res["axioms"] += [a.strip() for a in axioms]
            res["failed"].append(f"{rel}: depends on axioms: {axioms[0].strip()[:300]}")
        res["discharged"] += closed
        if closed != len(names) and not axioms:
            res["failed"].append(f"{rel}: {closed} closed of {len(names)} theorems")
    return res


def check_kernels(pid, work, log):
    """Regenerate Gen/Kernels.v from /repo's current source and re-prove the tie lemmas."""
    spec = PROPS[pid]
    res = {"obligations": 0, "discharged": 0, "failed": []}
    gen = C.ensure_dir(os.path.join(work, "Gen"))
    # every harness/translate*.py lists its stages: (propdef flag, generated file, generator, tie-lemma file)
    stages = []
    for path in sorted(glob.glob(os.path.join(os.path.dirname(os.path.abspath(__file__)), "translate*.py"))):
        mod = importlib.import_module("harness." + os.path.basename(path)[:-3])
        for (flag, gfile, genfn, tie) in getattr(mod, "STAGES", []):
            if spec.get(flag):
                stages.append((gfile, genfn, tie))
    if not stages:
        return res
    from . import pynorm

    def coqc(f):
        p = subprocess.run(["coqc", "-Q", C.COQ, "Soc", "-Q", gen, "SocGen", "-w", "-notation-overridden",
                            os.path.join(gen, f)],
                           stdout=subprocess.PIPE, stderr=subprocess.STDOUT, timeout=600, cwd=gen, env=coq_env())
        return p.returncode, p.stdout.decode()

    # Every stage gets up to two readings of the source.  The first is the text as written.  If the translator
    # refuses it, or the tie lemmas do not re-prove on what it produced, the stage is run once more on the source
    # with local aliases, extracted private helpers, named constants and `continue` guards undone
    # (harness/pynorm.py); the same tie lemmas have to close on that text.  Only if both fail is the stage broken.
    names = []
    closed = 0
    for (gfile, genfn, tie) in stages:
        tnames = re.findall(r"Print Assumptions\s+([A-Za-z0-9_'.]+)\s*\.",
                            strip_comments(open(os.path.join(C.COQ, "Gen", tie)).read()))
        why, first_text, done = [], None, False
        seen = set()
        for reading in range(0, pynorm.LEVELS + 1):
            try:
                if reading == 0:
                    text = genfn(C.REPO)
                else:
                    with pynorm.second_reading(reading):
                        text = genfn(C.REPO)
            except Exception as e:  # fail closed
                why.append(f"translator ({gfile}): {type(e).__name__}: {e}")
                continue
            if text in seen or (reading > 0 and len(seen) > pynorm.MAX_COMPILED):
                continue
            seen.add(text)
            open(os.path.join(gen, gfile), "w").write(text)
            shutil.copy(os.path.join(C.COQ, "Gen", tie), os.path.join(gen, tie))
            rc, out = coqc(gfile)
            if rc == 0:
                rc, out = coqc(tie)
                n = out.count("Closed under the global context")
                if rc == 0 and n == len(tnames):
                    closed += n
                    done = True
                    if reading > 0:
                        res.setdefault("second_reading", []).append(f"{gfile}: " + "; ".join(w[:160] for w in why))
                    break
                f = tie
            else:
                f = gfile
            log.append(out[-3000:])
            why.append(f"Gen/{f}: {out.strip().splitlines()[-1] if out.strip() else 'failed'}")
        if done:
            names += tnames
            res["obligations"] += len(tnames)
        elif any(w.startswith("translator") for w in why[:1]):
            res["obligations"] += 1
            res["failed"].append(why[0])
        else:
            names += tnames
            res["obligations"] += len(tnames)
            res["failed"].append(why[0] if why else f"Gen/{tie}: failed")
    res["theorems"] = names
    res["discharged"] = closed
    if res["discharged"] != res["obligations"]:
        res["failed"].append(f"Gen tie lemmas: {res['discharged']} closed of {res['obligations']}")
    return res


def coqchk(pid, work, log):
    spec = PROPS[pid]
    mods = [("Soc." + f[:-2].replace("/", ".")) for f in spec.get("prop_files", [f"Properties/{pid}.v"])]
    p = subprocess.run(["coqchk", "-silent", "-o", "-Q", C.COQ, "Soc"] + mods, stdout=subprocess.PIPE,
                       stderr=subprocess.STDOUT, timeout=3000, env=coq_env())
    out = p.stdout.decode()
    ok = p.returncode == 0
    m = re.search(r"\* Axioms:\s*(.*?)\n\s*\n", out + "\n\n", flags=re.S)
    ax = m.group(1).strip() if m else "?"
    return ok, ax, out[-1500:]


def _impl_worker(args):
    """Runs in a pool process: implementation run, oracle, non-triviality, per-case statistics."""
    modname, case = args
    mod = importlib.import_module("harness.engines." + modname)
    try:
        o = mod.run_impl(case)
    except Exception as e:
        return {"exc": [type(e).__name__, str(e)[:300], traceback.format_exc()[-1500:]]}
    r = {}
    try:
        r["breaches"] = [list(b) for b in mod.oracle(case, o)][:20]
    except Exception as e:
        r["breaches"] = []
        r["oracle_exc"] = traceback.format_exc()[-1500:]
    try:
        r["nt"] = bool(mod.nontrivial(case, o))
    except Exception:
        r["nt"] = False
    if hasattr(mod, "stats"):
        try:
            r["stats"] = mod.stats(case, o)
        except Exception:
            r["stats"] = {}
    co = mod.canon(o) if hasattr(mod, "canon") else o
    if getattr(mod, "RAW_COMPARE", False):
        r["dump"] = C.sx_dump(co)
    else:
        r["obs"] = co
    return r


def load_known():
    p = os.path.join(C.VERIF, "known_findings.json")
    if not os.path.exists(p):
        return []
    return json.load(open(p)).get("findings", [])


def run_engine(pid, engname, tier, seed, work, pool, log, stats):
    """Returns (mismatches, breaches) lists."""
    mod = importlib.import_module("harness.engines." + engname)
    spec = PROPS[pid]
    n = spec.get("n", {}).get(engname, {}).get(tier) or getattr(mod, "N", {}).get(tier, 40)
    cases = []
    cdir = os.path.join(C.VERIF, "corpus", engname)
    for f in sorted(glob.glob(os.path.join(cdir, "*.json"))):
        try:
            cases.append(json.load(open(f))["case"])
        except Exception:
            pass
    ncorpus = len(cases)
    gen = getattr(mod, "gen_case_for", None)
    for idx in range(n):
        cases.append(gen(pid, seed, tier, idx) if gen else mod.gen_case(seed, tier, idx))
    t0 = time.time()
    results = pool.map(_impl_worker, [(engname, c) for c in cases], chunksize=1)
    t1 = time.time()
    raw = getattr(mod, "RAW_COMPARE", False)
    if hasattr(mod, "model_cases"):
        # a case with mid-run resets is several model runs (each from the reset state) joined by the engine
        groups = [mod.model_cases(c) for c in cases]
        flat = C.model_run_parallel(mod.ENGINE_ID, [x for g in groups for x in g], raw=False)
        mres, k = [], 0
        for c, g in zip(cases, groups):
            j = mod.model_join(c, flat[k:k + len(g)])
            k += len(g)
            mres.append(C.sx_dump(j) if raw else j)
    else:
        mres = C.model_run_parallel(mod.ENGINE_ID, [mod.to_model(c) for c in cases], raw=raw)
    t2 = time.time()
    mismatches, breaches = [], []
    seen = set()
    dist = {}
    agg = {}
    for k, (c, r, m) in enumerate(zip(cases, results, mres)):
        if "exc" in r:
            mismatches.append({"engine": engname, "case": c, "diff": ["impl raised", r["exc"][0], r["exc"][1]],
                               "trace": r["exc"][2]})
            continue
        if "oracle_exc" in r:
            mismatches.append({"engine": engname, "case": c, "diff": ["oracle raised"], "trace": r["oracle_exc"]})
        if raw:
            if r["dump"] != m:
                d = C.first_diff(C.sx_load(r["dump"]), mod.from_model(C.sx_load(m)))
                mismatches.append({"engine": engname, "case": c, "diff": list(d) if d else ["text differs"]})
        else:
            d = C.first_diff(r["obs"], mod.from_model(m))
            if d is not None:
                mismatches.append({"engine": engname, "case": c, "diff": list(d)})
        for b in r["breaches"]:
            breaches.append({"engine": engname, "case": c, "pid": b[0], "at": b[1], "text": b[2],
                             "key": b[3] if len(b) > 3 else None})
        if r["nt"]:
            seen.add(C.case_hash(c))
        kd = c.get("kind", "?") if isinstance(c, dict) else "?"
        dist[kd] = dist.get(kd, 0) + 1
        for kk, vv in r.get("stats", {}).items():
            agg[kk] = agg.get(kk, 0) + vv
    st = stats.setdefault(engname, {})
    st.update({"cases": len(cases), "corpus_cases": ncorpus, "distinct_nontrivial": len(seen),
               "impl_s": round(t1 - t0, 2), "model_s": round(t2 - t1, 2), "kinds": dist,
               "rule": getattr(mod, "RULE", mod.nontrivial.__doc__ or ""),
               "samples": [mod.describe(c) for c in cases[ncorpus:ncorpus + 2]]})
    if agg:
        st["distribution"] = agg
    if raw:
        mres = [C.sx_load(m) for m in mres[:200]] + [None] * max(0, len(mres) - 200)
    # in-Coq replay of a sample: the same run_<engine> on the same literal must give the OCaml answer
    st["coq_replayed"] = coq_replay(mod, cases, mres, work, log, engname)
    return mismatches, breaches, mod


def coq_replay(mod, cases, mres, work, log, engname, limit=3, maxlen=6000):
    picks = []
    multi = (lambda c: len(mod.model_cases(c)) > 1) if hasattr(mod, "model_cases") else (lambda c: False)
    cand = [i for i in range(len(cases)) if mres[i] is not None and not multi(cases[i])][:200]
    order = sorted(cand, key=lambda i: len(C.sx_dump(mod.to_model(cases[i]))))
    for i in order:
        s = C.sx_dump(mod.to_model(cases[i]))
        if len(s) <= maxlen and len(C.sx_dump(mres[i])) <= maxlen:
            picks.append(i)
        if len(picks) >= limit:
            break
    if not picks:
        return 0
    lines = ["From Coq Require Import ZArith List.", "From Soc Require Import Lib.Sx Engine.Dispatch.",
             "Import ListNotations.", "Open Scope Z_scope."]
    for k, i in enumerate(picks):
        lines.append(f"Goal run_engine {mod.ENGINE_ID} ({C.coq_sx(mod.to_model(cases[i]))}) = "
                     f"{C.coq_sx(mres[i])}.\nProof. vm_compute. reflexivity. Qed.")
    f = os.path.join(work, f"replay_{engname}.v")
    open(f, "w").write("\n".join(lines) + "\n")
    p = subprocess.run(["coqc", "-Q", C.COQ, "Soc", "-w", "-notation-overridden", f], stdout=subprocess.PIPE,
                       stderr=subprocess.STDOUT, timeout=600, cwd=work, env=coq_env())
    if p.returncode != 0:
        log.append("in-Coq replay disagreed with the extracted model:\n" + p.stdout.decode()[-2000:])
        return -1
    return len(picks)


def write_replay(work, pid, kind, payload):
    rdir = C.ensure_dir(os.path.join(C.WORK, "replay"))
    k = len(glob.glob(os.path.join(rdir, f"{pid}-*.json")))
    path = os.path.join(rdir, f"{pid}-{kind}-{k}.json")
    json.dump(payload, open(path, "w"), indent=1, default=str)
    return path


def main(argv):
    if len(argv) < 2:
        print("usage: check <Cnn> quick|thorough | check <Cnn> --replay <file>")
        return 2
    pid = argv[0]
    if pid not in PROPS:
        print(f"unknown or unclaimed property {pid}")
        return 2
    if argv[1] == "--replay":
        return replay(pid, argv[2])
    tier = os.environ.get("VERIF_TIER") or argv[1]
    if tier not in ("quick", "thorough"):
        tier = "quick"
    seed = int(os.environ.get("VERIF_SEED", "0"))
    t0 = time.time()
    spec = PROPS[pid]
    work = os.path.join(C.WORK, pid)
    shutil.rmtree(work, ignore_errors=True)
    C.ensure_dir(work)
    log = []
    problems = []      # broken obligations / ties (strings)
    violations = []    # (replay path, suffix)
    known_lines = []

    # 1-2. theorems
    built = build_coq(log)
    if not built:
        problems.append("coq build (make) failed")
    forb = scan_forbidden()
    if forb:
        problems.append("forbidden constructs: " + "; ".join(forb[:5]))
    thm = {"obligations": 0, "discharged": 0, "failed": [], "axioms": [], "theorems": []}
    ker = {"obligations": 0, "discharged": 0, "failed": []}
    if built:
        thm = check_theorems(pid, work, log)
        ker = check_kernels(pid, work, log)
        problems += thm["failed"] + ker["failed"]
    chk = None
    if tier == "thorough" and built and not os.environ.get("VERIF_NO_COQCHK"):
        ok, ax, tail = coqchk(pid, work, log)
        chk = {"ok": ok, "axioms": ax}
        if not ok:
            problems.append("coqchk failed: " + tail[-300:])

    # 3. correspondence + oracles
    import multiprocessing as mp
    stats = {}
    all_mis, all_br = [], []
    mods = {}
    jobs = int(os.environ.get("VERIF_JOBS", "16"))
    with mp.get_context("fork").Pool(jobs) as pool:
        for eng in spec["engines"]:
            try:
                mis, br, mod = run_engine(pid, eng, tier, seed, work, pool, log, stats)
            except Exception as e:
                problems.append(f"engine {eng} failed to run: {type(e).__name__}: {e}")
                log.append(traceback.format_exc())
                continue
            mods[eng] = mod
            all_mis += mis
            all_br += br
            if stats[eng].get("coq_replayed") == -1:
                problems.append(f"engine {eng}: in-Coq evaluation disagrees with the extracted model")

    known = [k for k in load_known() if k.get("status") == "known" and k.get("property") == pid]

    def is_known(key):
        for k in known:
            if key is not None and k.get("key") == key:
                return k
        return None

    # 4. classify
    mine = [b for b in all_br if b["pid"] == pid]
    reported_known = set()
    real = []
    for b in mine:
        k = is_known(b.get("key"))
        if k:
            if k["key"] not in reported_known:
                reported_known.add(k["key"])
                known_lines.append(f"KNOWN-FINDING: property={pid} {k['what']}")
        else:
            real.append(b)
    if real:
        b = real[0]
        mod = mods[b["engine"]]
        case = b["case"]
        if hasattr(mod, "shrink"):
            def fails(c):
                try:
                    o = mod.run_impl(c)
                    return any(x[0] == pid for x in mod.oracle(c, o))
                except Exception:
                    return False
            try:
                case = mod.shrink(case, fails)
            except Exception:
                pass
        o = mod.run_impl(case)
        br = [x for x in mod.oracle(case, o) if x[0] == pid] or [(pid, b["at"], b["text"])]
        path = write_replay(work, pid, "breach", {"property": pid, "engine": b["engine"], "kind": "oracle-breach",
                                                  "at": br[0][1], "what": br[0][2], "case": case})
        violations.append((path, ""))
    else:
        mis = [m for m in all_mis if not is_known(m.get("key"))]
        if mis or problems:
            # no oracle breach on anything explored: bounded extra search with the oracle only
            found = None
            budget = 30 if tier == "quick" else 300
            tend = time.time() + budget
            idx = 1000000
            with mp.get_context("fork").Pool(jobs) as pool:
                while time.time() < tend and found is None and mods:
                    for eng, mod in mods.items():
                        gen = getattr(mod, "gen_case_for", None)
                        batch = [(gen(pid, seed, tier, idx + i) if gen else mod.gen_case(seed, tier, idx + i))
                                 for i in range(jobs * 2)]
                        idx += jobs * 2
                        rs = pool.map(_impl_worker, [(eng, c) for c in batch], chunksize=1)
                        for c, r in zip(batch, rs):
                            if "exc" in r:
                                continue
                            br = [x for x in r["breaches"] if x[0] == pid and not is_known(x[3] if len(x) > 3 else None)]
                            if br:
                                found = (eng, c, br[0]); break
                        if found:
                            break
            if found:
                eng, c, b = found
                path = write_replay(work, pid, "breach", {"property": pid, "engine": eng, "kind": "oracle-breach",
                                                          "at": b[1], "what": b[2], "case": c})
                violations.append((path, ""))
            else:
                payload = {"property": pid, "kind": "unchecked-obligation",
                           "broken": problems + [f"correspondence {m['engine']}: first difference at {m['diff']}" for m in mis[:5]],
                           "note": "no input was found on which the implementation itself breaks the property; "
                                   "the theorem/tie named here no longer checks"}
                if mis:
                    payload["engine"] = mis[0]["engine"]; payload["case"] = mis[0]["case"]; payload["diff"] = mis[0]["diff"]
                    if "trace" in mis[0]:
                        payload["trace"] = mis[0]["trace"]
                path = write_replay(work, pid, "tie", payload)
                violations.append((path, " no-failing-input-found"))

    # 5. evidence
    wall = time.time() - t0
    evals = sum(s["cases"] for s in stats.values())
    dn = sum(s["distinct_nontrivial"] for s in stats.values())
    obligations = thm["obligations"] + ker["obligations"]
    discharged = thm["discharged"] + ker["discharged"]
    ev = {
        "property_id": pid, "tier": tier, "seed": seed, "level": "proof",
        "coverage": {
            "obligations": obligations, "discharged": discharged,
            "theorems": thm["theorems"] + ker.get("theorems", []),
            "checker_cmd": f"make -C coq (full .vo build) && coqc -Q coq Soc coq/Properties/{pid}.v  [Print Assumptions under every theorem]"
                           + (" && coqchk -o" if chk else ""),
            "trusted_base": spec.get("trusted_base", []) + [
                "Coq 8.16.1 kernel (coqc; vm_compute in Examples and the in-Coq replay; no native_compute)",
                "axioms reported by Print Assumptions: " + ("none (closed under the global context)" if not thm["axioms"] else "; ".join(thm["axioms"])),
                "extraction: ExtrOcamlBasic only (Extract Inductive bool/option/unit/prod/list/sumbool/sumor), no Extract Constant; OCaml 4.13; ocaml/driver.ml",
                "correspondence harness (generators, Amaranth 0.5.10 simulator / real API objects, comparators)",
            ],
            "coqchk": chk,
            "tie_second_reading": ker.get("second_reading", []),
            "evaluations": evals, "distinct_nontrivial": dn,
            "rule": " | ".join(f"{e}: {s['rule'].strip()}" for e, s in stats.items()),
            "samples": [x for s in stats.values() for x in s["samples"]][:4],
            "engines": stats,
            "correspondence_mismatches": len(all_mis),
            "oracle_breaches": len(all_br),
            "known_findings_seen": sorted(reported_known),
            "exhaustive": False,
        },
        "assumptions": spec.get("assumptions", []),
        "wall_s": round(wall, 2),
        "violations": len(violations),
    }
    C.ensure_dir(C.EVIDENCE)
    json.dump(ev, open(os.path.join(C.EVIDENCE, f"{pid}.json"), "w"), indent=1, default=str)
    if log and (violations or os.environ.get("VERIF_VERBOSE")):
        sys.stderr.write("\n".join(log)[-6000:] + "\n")
    for l in known_lines:
        print(l)
    for w in ker.get("second_reading", []):
        print(f"note: translator stage re-read with aliases / helpers / constants undone (harness/pynorm.py): {w[:200]}")
    print(f"{pid} {tier}: theorems {discharged}/{obligations} closed; "
          f"{evals} cases ({dn} distinct non-trivial), {len(all_mis)} mismatches, {len(all_br)} oracle breaches; {wall:.1f}s")
    for path, suffix in violations:
        print(f"VIOLATION property={pid} replay={path}{suffix}")
    return 1 if violations else 0


def replay(pid, path):
    r = json.load(open(path))
    print(f"replay {path}: kind={r.get('kind')}")
    if "case" not in r:
        print("broken obligations:", *r.get("broken", []), sep="\n  ")
        log = []
        work = C.ensure_dir(os.path.join(C.WORK, pid + "-replay"))
        ok = build_coq(log)
        thm = check_theorems(pid, work, log) if ok else {"failed": ["build"]}
        ker = check_kernels(pid, work, log) if ok else {"failed": []}
        bad = thm["failed"] + ker["failed"]
        print("now:", bad or "all obligations check")
        return 1 if bad else 0
    mod = importlib.import_module("harness.engines." + r["engine"])
    case = r["case"]
    o = mod.run_impl(case)
    if hasattr(mod, "model_cases"):
        m = mod.from_model(mod.model_join(case, C.model_run(mod.ENGINE_ID, mod.model_cases(case))))
    else:
        m = mod.from_model(C.model_run(mod.ENGINE_ID, [mod.to_model(case)])[0])
    cmp_obs = mod.canon(o) if hasattr(mod, "canon") else o
    d = C.first_diff(cmp_obs, m)
    br = [x for x in mod.oracle(case, o) if x[0] == pid]
    print("case:", json.dumps(mod.describe(case), default=str)[:600])
    print("model vs implementation first difference:", d)
    for b in br[:5]:
        print(f"property breach at {b[1]}: {b[2]}")
    if br:
        print(f"VIOLATION property={pid} replay={path}")
        return 1
    if d is not None:
        print(f"VIOLATION property={pid} replay={path} no-failing-input-found")
        return 1
    print("no breach and no disagreement on this case now")
    return 0
