"""Fail-closed statement-level translator (DESIGN §4.2, second stage): whole methods of /repo's memory.py whose
bodies are validation + integer arithmetic are regenerated as monadic Gallina (`res`), in the code's statement
order, on every run.  Gen/TieMethods.v then proves them equal to the hand-written model for ALL arguments.

Python subset: `if c: ... raise E(...)` (statements before the raise inside such a block may only build the
message: no return, no store to an attribute or subscript), `if c: ... else: ...` with assignments to locals,
assignments, `self.<attr> = e` for declared state attributes, `return e` / `return a, b, c`, expressions over
`+ - * // % << >> & | ~`, comparisons, `and/or/not`, `is None / is not None`, `isinstance(x, int)`, `max/min`,
`range(a, b, c)` with `.start/.stop/.step`, and the calls listed per method in METHODS (everything else aborts).
Arguments declared `pyint` may be None or a non-integer; they are read through `zof` in arithmetic, exactly as
the model does (the tie lemma quantifies over VInt / VNone / VBad)."""
import ast, os

from .translate import Untranslatable, BINOPS, find_func, attr_path


class V:
    """typed Coq expression"""
    def __init__(self, s, t):
        self.s, self.t = s, t      # t in {"Z", "pyint", "bool", "range", "tuple"}


def asZ(v):
    if v.t == "Z":
        return v.s
    if v.t == "pyint":
        return f"(zof {v.s})"
    raise Untranslatable(f"integer expected, got {v.t}: {v.s}")


class M:
    def __init__(self, spec):
        self.spec = spec
        self.n = 0

    def fresh(self, base):
        self.n += 1
        return f"{base}_{self.n}"

    # ---- expressions
    def expr(self, n, env):
        if isinstance(n, ast.Constant) and isinstance(n.value, int) and not isinstance(n.value, bool):
            return V(f"({n.value})", "Z")
        if isinstance(n, ast.Name):
            if n.id in env:
                return env[n.id]
            raise Untranslatable(f"unknown name {n.id}")
        if isinstance(n, ast.Attribute):
            p = attr_path(n)
            if p in env:
                return env[p]
            if isinstance(n.value, ast.Name) and n.value.id in env and env[n.value.id].t == "range":
                a, b, c = env[n.value.id].parts
                return {"start": a, "stop": b, "step": c}[n.attr]
            raise Untranslatable(f"unmapped attribute {p}")
        if isinstance(n, ast.BinOp) and type(n.op) in BINOPS:
            return V(f"({BINOPS[type(n.op)]} {asZ(self.expr(n.left, env))} {asZ(self.expr(n.right, env))})", "Z")
        if isinstance(n, ast.UnaryOp) and isinstance(n.op, ast.Invert):
            return V(f"(Z.lnot {asZ(self.expr(n.operand, env))})", "Z")
        if isinstance(n, ast.UnaryOp) and isinstance(n.op, ast.USub):
            return V(f"(Z.opp {asZ(self.expr(n.operand, env))})", "Z")
        if isinstance(n, ast.Call):
            return self.call(n, env)
        if isinstance(n, ast.Tuple):
            vs = [self.expr(e, env) for e in n.elts]
            v = V("(" + ", ".join(asZ(x) for x in vs) + ")", "tuple")
            return v
        raise Untranslatable("expression " + ast.dump(n)[:100])

    def call(self, n, env):
        if n.keywords and not all(k.arg in self.spec.get("kwargs", ()) for k in n.keywords):
            raise Untranslatable("keyword call " + ast.dump(n)[:100])
        if isinstance(n.func, ast.Name):
            f = n.func.id
            if f in ("max", "min") and len(n.args) == 2:
                return V(f"(Z.{f} {asZ(self.expr(n.args[0], env))} {asZ(self.expr(n.args[1], env))})", "Z")
            if f == "range" and len(n.args) in (2, 3):
                parts = [V(asZ(self.expr(a, env)), "Z") for a in n.args]
                if len(parts) == 2:
                    parts.append(V("1", "Z"))
                v = V("?range", "range"); v.parts = parts
                return v
            if f == "ceil_log2" and len(n.args) == 1:
                return V(f"(ceil_log2 {asZ(self.expr(n.args[0], env))})", "Z")
        else:
            p = attr_path(n.func)
            if p in self.spec["calls"]:
                name, kind = self.spec["calls"][p]
                args = [self.expr(a, env) for a in n.args] + [self.expr(k.value, env) for k in n.keywords]
                if kind == "Z":
                    return V(f"({name} " + " ".join(asZ(a) for a in args) + ")", "Z")
                if kind == "range->bool":      # truthiness of the returned list
                    (r,) = args
                    if r.t != "range":
                        raise Untranslatable("range argument expected")
                    return V(f"({name} " + " ".join(x.s for x in r.parts) + ")", "bool")
        raise Untranslatable("call " + ast.dump(n)[:100])

    def cond(self, n, env):
        atoms = self.spec.get("atoms", {})
        u = ast.unparse(n)
        if u in atoms:                      # an opaque boolean fact about non-integer objects, by its exact text
            return atoms[u]
        if isinstance(n, ast.BoolOp):
            op = "&&" if isinstance(n.op, ast.And) else "||"
            return "(" + f" {op} ".join(self.cond(v, env) for v in n.values) + ")"
        if isinstance(n, ast.UnaryOp) and isinstance(n.op, ast.Not):
            return f"(negb {self.cond(n.operand, env)})"
        if isinstance(n, ast.Compare) and len(n.ops) == 1:
            op = type(n.ops[0]); l, r = n.left, n.comparators[0]
            if op in (ast.Is, ast.IsNot) and isinstance(r, ast.Constant) and r.value is None:
                v = self.expr(l, env)
                if v.t != "pyint":
                    raise Untranslatable("`is None` on a non-optional value")
                return f"(is_none {v.s})" if op is ast.Is else f"(negb (is_none {v.s}))"
            a, b = asZ(self.expr(l, env)), asZ(self.expr(r, env))
            tab = {ast.Eq: "Z.eqb", ast.Lt: "Z.ltb", ast.LtE: "Z.leb", ast.Gt: "Z.gtb", ast.GtE: "Z.geb"}
            if op is ast.NotEq:
                return f"(negb (Z.eqb {a} {b}))"
            if op in tab:
                return f"({tab[op]} {a} {b})"
        if isinstance(n, ast.Call) and isinstance(n.func, ast.Name) and n.func.id == "isinstance" and len(n.args) == 2 \
                and isinstance(n.args[1], ast.Name) and n.args[1].id == "int":
            v = self.expr(n.args[0], env)
            if v.t == "pyint":
                return f"(is_int {v.s})"
            if v.t == "Z":
                return "true"
        if isinstance(n, (ast.Name, ast.Call, ast.Attribute)):
            v = self.expr(n, env)
            if v.t == "bool":
                return v.s
        raise Untranslatable("condition " + ast.dump(n)[:120])

    # ---- statements
    @staticmethod
    def harmless(st):
        """statement allowed in front of a `raise` inside an if-block: builds the message only"""
        for x in ast.walk(st):
            if isinstance(x, (ast.Return, ast.Raise, ast.Global, ast.Nonlocal, ast.Delete, ast.With, ast.While)):
                return False
            if isinstance(x, (ast.Assign, ast.AugAssign, ast.AnnAssign)):
                tg = x.targets if isinstance(x, ast.Assign) else [x.target]
                for t in tg:
                    for y in ast.walk(t):
                        if isinstance(y, (ast.Attribute, ast.Subscript)):
                            return False
            if isinstance(x, ast.Call) and isinstance(x.func, ast.Attribute):
                base = x.func.value
                while isinstance(base, ast.Attribute):
                    base = base.value
                if isinstance(base, ast.Name) and base.id == "self":
                    return False
        return True

    def exc(self, st):
        e = st.exc
        if isinstance(e, ast.Call) and isinstance(e.func, ast.Name) and e.func.id in ("ValueError", "TypeError", "KeyError"):
            return e.func.id
        raise Untranslatable("raise " + ast.dump(st)[:80])

    def assigned(self, body):
        out = []
        for st in body:
            for x in ast.walk(st):
                if isinstance(x, ast.Assign) and len(x.targets) == 1:
                    t = x.targets[0]
                    k = t.id if isinstance(t, ast.Name) else (attr_path(t) if isinstance(t, ast.Attribute) else None)
                    if k and k not in out:
                        out.append(k)
        return out

    def block(self, body, env, k):
        """Translate `body` followed by continuation k(env) -> coq text of type res T."""
        if not body:
            return k(env)
        st, rest = body[0], body[1:]
        if isinstance(st, ast.Expr) and isinstance(st.value, ast.Constant) and isinstance(st.value.value, str):
            return self.block(rest, env, k)
        if isinstance(st, ast.Raise):
            return f"(Err {self.exc(st)})"
        if isinstance(st, ast.Return):
            v = self.expr(st.value, env)
            return self.spec["ret"](self, v, env)
        if isinstance(st, ast.Assign) and len(st.targets) == 1:
            t = st.targets[0]
            key = t.id if isinstance(t, ast.Name) else attr_path(t) if isinstance(t, ast.Attribute) else None
            if key is None or (isinstance(t, ast.Attribute) and key not in self.spec["state"]):
                raise Untranslatable("assignment target " + ast.dump(t)[:80])
            v = self.expr(st.value, env)
            env2 = dict(env)
            if v.t == "range":
                env2[key] = v
                return self.block(rest, env2, k)
            nm = self.fresh(key.replace(".", "_"))
            env2[key] = V(nm, v.t)
            return f"(let {nm} := {v.s} in\n  {self.block(rest, env2, k)})"
        if isinstance(st, ast.If):
            c = self.cond(st.test, env)
            ends_raise = lambda b: bool(b) and isinstance(b[-1], ast.Raise) and all(self.harmless(s) for s in b[:-1])
            if ends_raise(st.body) and not st.orelse:
                return f"(if {c} then Err {self.exc(st.body[-1])} else\n  {self.block(rest, env, k)})"
            # general two-armed form: join the variables assigned in either arm
            names = [x for x in self.assigned(st.body) + self.assigned(st.orelse)]
            names = [x for i, x in enumerate(names) if x not in names[:i]]
            # only what is read afterwards needs joining (a local used inside one arm only is dropped)
            later = set()
            for r in rest:
                for y in ast.walk(r):
                    if isinstance(y, ast.Name):
                        later.add(y.id)
                    elif isinstance(y, ast.Attribute):
                        try:
                            later.add(attr_path(y))
                        except Untranslatable:
                            pass
            names = [x for x in names if x in later or x in self.spec.get("state", []) or x in self.spec.get("keep", [])]
            if not names:
                # arms only validate
                unit = lambda e: "(Ok tt)"
                a = self.block(st.body, env, unit); b = self.block(st.orelse, env, unit)
                return f"(let! _ := (if {c} then {a} else {b}) in\n  {self.block(rest, env, k)})"

            def arm(e2):
                vals = []
                for x in names:
                    if x not in e2:
                        raise Untranslatable(f"{x} undefined on one path")
                    vals.append(asZ(e2[x]))
                return "(Ok (" + ", ".join(vals) + "))" if len(vals) > 1 else f"(Ok {vals[0]})"
            a = self.block(st.body, env, arm); b = self.block(st.orelse, env, arm)
            env2 = dict(env)
            fresh = []
            for x in names:
                nm = self.fresh(x.replace(".", "_"))
                env2[x] = V(nm, "Z"); fresh.append(nm)
            pat = fresh[0] if len(fresh) == 1 else "'(" + ", ".join(fresh) + ")"
            return f"(let! {pat} := (if {c} then {a} else {b}) in\n  {self.block(rest, env2, k)})"
        raise Untranslatable("statement " + ast.dump(st)[:120])


def _ret_align_to(m, v, env):
    return f"(Ok ({asZ(env['self._next_addr'])}, {asZ(v)}))"


def _ret_range(m, v, env):
    if v.t != "range":
        raise Untranslatable("range expected as the result")
    a, b, c = v.parts
    return f"(Ok ({a.s}, {b.s}, {c.s}))"


METHODS = [
    {"file": "amaranth_soc/memory.py", "path": ["MemoryMap", "align_to"], "name": "gen_align_to",
     "params": [("self_alignment", "Z"), ("self_next_addr", "Z"), ("alignment", "pyint")],
     "env": {"self.alignment": ("self_alignment", "Z"), "self._next_addr": ("self_next_addr", "Z"),
             "alignment": ("alignment", "pyint")},
     "state": ["self._next_addr"], "calls": {"self._align_up": ("gen_align_up", "Z")},
     "rtype": "res (Z * Z)", "ret": _ret_align_to},
    {"file": "amaranth_soc/memory.py", "path": ["MemoryMap", "_compute_addr_range"], "name": "gen_compute_addr_range",
     "params": [("self_alignment", "Z"), ("self_addr_width", "Z"), ("self_next_addr", "Z"),
                ("overlaps", "Z -> Z -> Z -> bool"), ("addr", "pyint"), ("size", "pyint"), ("step", "Z"),
                ("alignment", "Z")],
     "env": {"self.alignment": ("self_alignment", "Z"), "self.addr_width": ("self_addr_width", "Z"),
             "self._next_addr": ("self_next_addr", "Z"), "addr": ("addr", "pyint"), "size": ("size", "pyint"),
             "step": ("step", "Z"), "alignment": ("alignment", "Z")},
     "state": [], "calls": {"self._align_up": ("gen_align_up", "Z"), "self._ranges.overlaps": ("overlaps", "range->bool")},
     "rtype": "res (Z * Z * Z)", "ret": _ret_range},
]

# straight-line arithmetic of add_window between the namespace check and _compute_addr_range
WINDOW_LINES = {"file": "amaranth_soc/memory.py", "path": ["MemoryMap", "add_window"]}


def gen_method(repo, spec):
    src = open(os.path.join(repo, spec["file"])).read()
    fn = find_func(ast.parse(src), spec["path"])
    m = M(spec)
    env = {k: V(n, t) for k, (n, t) in spec["env"].items()}
    body = m.block(fn.body, env, lambda e: (_ for _ in ()).throw(Untranslatable("fell off the end without return")))
    ps = " ".join(f"({n} : {t})" for n, t in spec["params"])
    return f"(* {spec['file']}: {'.'.join(spec['path'])} *)\nDefinition {spec['name']} {ps} : {spec['rtype']} :=\n  {body}.\n"


def gen_window_arith(repo):
    """add_window: the statements from `if not sparse:` down to the `alignment = max(...)` line, as a function of
    (self.data_width, self.alignment, window.data_width, window.addr_width, window.alignment, sparse) returning
    res (ratio, size, alignment).  Everything before (type/frozen/duplicate/width/name checks) and after
    (_compute_addr_range, the mutation) is located by shape and must be present in this order."""
    src = open(os.path.join(repo, WINDOW_LINES["file"])).read()
    fn = find_func(ast.parse(src), WINDOW_LINES["path"])
    body = [s for s in fn.body if not (isinstance(s, ast.Expr) and isinstance(s.value, ast.Constant))]
    # locate the slice
    start = None; end = None
    for i, st in enumerate(body):
        if isinstance(st, ast.If) and isinstance(st.test, ast.UnaryOp) and isinstance(st.test.op, ast.Not) \
                and isinstance(st.test.operand, ast.Name) and st.test.operand.id == "sparse" and st.orelse:
            start = i
        if isinstance(st, ast.Assign) and isinstance(st.targets[0], ast.Name) and st.targets[0].id == "addr_range":
            end = i
    if start is None or end is None or not start < end:
        raise Untranslatable("add_window: cannot locate the ratio/size/alignment statements")
    call = body[end].value
    ok = (isinstance(call, ast.Call) and attr_path(call.func) == "self._compute_addr_range"
          and [a.id for a in call.args if isinstance(a, ast.Name)] == ["addr", "size", "ratio"]
          and len(call.args) == 3 and [k.arg for k in call.keywords] == ["alignment"]
          and isinstance(call.keywords[0].value, ast.Name) and call.keywords[0].value.id == "alignment")
    if not ok:
        raise Untranslatable("add_window: _compute_addr_range is not called as (addr, size, ratio, alignment=alignment)")
    # what follows must be exactly: freeze, insert, record, namespace update, cursor, return — in this order
    tail = [ast.unparse(s).split("\n")[0] for s in body[end + 1:]]
    expect = ["window.freeze()", "self._ranges.insert(addr_range, window)",
              "self._windows[id(window)] = (window, name, addr_range)", "if name is None:",
              "self._next_addr = addr_range.stop", "return (addr_range.start, addr_range.stop, addr_range.step)"]
    if tail != expect:
        raise Untranslatable(f"add_window: the statements after _compute_addr_range changed: {tail}")
    spec = {"calls": {}, "state": [], "ret": None, "keep": ["ratio", "size", "alignment"]}
    m = M(spec)
    env = {"self.data_width": V("self_data_width", "Z"), "self.alignment": V("self_alignment", "Z"),
           "window.data_width": V("window_data_width", "Z"), "window.addr_width": V("window_addr_width", "Z"),
           "window.alignment": V("window_alignment", "Z"), "sparse": V("sparse", "bool")}

    def k(e):
        return f"(Ok ({asZ(e['ratio'])}, {asZ(e['size'])}, {asZ(e['alignment'])}))"
    txt = m.block(body[start:end], env, k)
    return ("(* amaranth_soc/memory.py: MemoryMap.add_window, ratio / size / alignment *)\n"
            "Definition gen_window_arith (self_data_width self_alignment window_data_width window_addr_width "
            f"window_alignment : Z) (sparse : bool) : res (Z * Z * Z) :=\n  {txt}.\n")


def gen_resource_tail(repo):
    """add_resource: after the namespace check the code must be exactly the alignment defaulting, the call of
    _compute_addr_range(addr, size, alignment=alignment) and the five mutation statements."""
    src = open(os.path.join(repo, "amaranth_soc/memory.py")).read()
    fn = find_func(ast.parse(src), ["MemoryMap", "add_resource"])
    body = [s for s in fn.body if not (isinstance(s, ast.Expr) and isinstance(s.value, ast.Constant))]
    idx = None
    for i, st in enumerate(body):
        if isinstance(st, ast.If) and ast.unparse(st.test) == "alignment is not None":
            idx = i
    if idx is None:
        raise Untranslatable("add_resource: cannot locate the alignment defaulting")
    tail = [ast.unparse(s).split("\n")[0] for s in body[idx + 1:]]
    expect = ["addr_range = self._compute_addr_range(addr, size, alignment=alignment)",
              "self._ranges.insert(addr_range, resource)",
              "self._resources[id(resource)] = (resource, name, addr_range)",
              "self._namespace.assign(name, resource)",
              "self._next_addr = addr_range.stop",
              "return (addr_range.start, addr_range.stop)"]
    if tail != expect:
        raise Untranslatable(f"add_resource: the statements after the alignment defaulting changed: {tail}")
    spec = {"calls": {}, "state": [], "ret": None, "keep": ["alignment"]}
    m = M(spec)
    env = {"self.alignment": V("self_alignment", "Z"), "alignment": V("alignment", "pyint")}
    txt = m.block([body[idx]], env, lambda e: f"(Ok {asZ(e['alignment'])})")
    return ("(* amaranth_soc/memory.py: MemoryMap.add_resource, effective alignment *)\n"
            f"Definition gen_resource_alignment (self_alignment : Z) (alignment : pyint) : res Z :=\n  {txt}.\n")


# ------------------------------------------------------------------------------------------------ csr.Builder

def _ret_builder_add(m, v, env):
    raise Untranslatable("unexpected return")


BUILDER_ADD = {
    "file": "amaranth_soc/csr/reg.py", "path": ["Builder", "add"], "name": "gen_builder_add",
    "params": [("is_reg", "bool"), ("frozen", "bool"), ("name_ok", "bool"), ("dup", "bool"),
               ("self_data_width", "Z"), ("self_granularity", "Z"), ("offset", "pyint")],
    "env": {"self.data_width": ("self_data_width", "Z"), "self.granularity": ("self_granularity", "Z"),
            "offset": ("offset", "pyint")},
    "atoms": {"isinstance(reg, Register)": "is_reg", "self._frozen": "frozen",
              "name is None or not (isinstance(name, str) and name)": "(negb name_ok)",
              "id(reg) in self._registers": "dup"},
    "state": [], "calls": {}, "rtype": "res pyint", "ret": _ret_builder_add}


def gen_builder(repo):
    """csr.Builder.add as a function of opaque boolean facts (is a Register / frozen / name valid / already added)
    and the integer arguments; and the three arithmetic expressions of the as_memory_map loop."""
    src = open(os.path.join(repo, "amaranth_soc/csr/reg.py")).read()
    tree = ast.parse(src)
    fn = find_func(tree, BUILDER_ADD["path"])
    body = [s for s in fn.body if not (isinstance(s, ast.Expr) and isinstance(s.value, ast.Constant))]
    tail = [ast.unparse(s).split("\n")[0] for s in body[-2:]]
    if tail != ["self._registers[id(reg)] = (reg, (*self._scope_stack, name), offset)", "return reg"]:
        raise Untranslatable(f"Builder.add: the recording statements changed: {tail}")
    m = M(BUILDER_ADD)
    env = {k: V(n, t) for k, (n, t) in BUILDER_ADD["env"].items()}
    txt = m.block(body[:-2], env, lambda e: "(Ok offset)")
    ps = " ".join(f"({n} : {t})" for n, t in BUILDER_ADD["params"])
    out = [f"(* amaranth_soc/csr/reg.py: Builder.add (the offset it records, or the refusal) *)\n"
           f"Definition gen_builder_add {ps} : res pyint :=\n  {txt}.\n"]
    # as_memory_map
    fn = find_func(tree, ["Builder", "as_memory_map"])
    body = [s for s in fn.body if not (isinstance(s, ast.Expr) and isinstance(s.value, ast.Constant))]
    shape = [ast.unparse(s).split("\n")[0] for s in body]
    expect = ["self.freeze()", "memory_map = MemoryMap(addr_width=self.addr_width, data_width=self.data_width)",
              "for reg, reg_name, reg_offset in self._registers.values():", "memory_map.freeze()", "return memory_map"]
    if shape != expect:
        raise Untranslatable(f"Builder.as_memory_map: statements changed: {shape}")
    loop = body[2].body
    if len(loop) != 3 or not isinstance(loop[0], ast.If) or ast.unparse(loop[0].test) != "reg_offset is not None" \
            or len(loop[0].body) != 1 or len(loop[0].orelse) != 1 or ast.unparse(loop[0].orelse[0]) != "reg_addr = None":
        raise Untranslatable("Builder.as_memory_map: the address defaulting changed")
    call = loop[2]
    if not (isinstance(call, ast.Expr) and isinstance(call.value, ast.Call)
            and ast.unparse(call.value.func) == "memory_map.add_resource"
            and [ast.unparse(a) for a in call.value.args] == ["reg"]
            and [(k.arg, ast.unparse(k.value)) for k in call.value.keywords[:3]] ==
            [("name", "reg_name"), ("addr", "reg_addr"), ("size", "reg_size")]
            and call.value.keywords[3].arg == "alignment" and len(call.value.keywords) == 4):
        raise Untranslatable("Builder.as_memory_map: add_resource is not called as (reg, name=reg_name, addr=reg_addr, "
                             "size=reg_size, alignment=...)")
    spec = {"calls": {}, "state": [], "ret": None}
    m = M(spec)
    env = {"self.granularity": V("self_granularity", "Z"), "self.data_width": V("self_data_width", "Z"),
           "reg_offset": V("reg_offset", "Z"), "reg.element.width": V("width", "Z")}
    a = loop[0].body[0]
    if not (isinstance(a, ast.Assign) and ast.unparse(a.targets[0]) == "reg_addr"):
        raise Untranslatable("reg_addr assignment")
    addr = asZ(m.expr(a.value, env))
    sz = loop[1]
    if not (isinstance(sz, ast.Assign) and ast.unparse(sz.targets[0]) == "reg_size"):
        raise Untranslatable("reg_size assignment")
    size = asZ(m.expr(sz.value, env))
    env["reg_size"] = V("reg_size", "Z")
    al = asZ(m.expr(call.value.keywords[3].value, env))
    out.append("(* amaranth_soc/csr/reg.py: Builder.as_memory_map, per register *)\n"
               f"Definition gen_builder_addr (self_granularity self_data_width reg_offset : Z) : Z := {addr}.\n"
               f"Definition gen_builder_size (self_data_width width : Z) : Z := {size}.\n"
               f"Definition gen_builder_alignment (reg_size : Z) : Z := {al}.\n")
    return "\n".join(out)


def generate_builder(repo):
    out = ["(* GENERATED on every run by harness/translate2.py from /repo's current source. Do not edit. *)",
           "From Coq Require Import ZArith Bool.", "From Soc Require Import Lib.Bits Lib.Res.",
           "Open Scope Z_scope.", "",
           "Definition is_none (v : pyint) : bool := match v with VNone => true | _ => false end.",
           "Definition is_int (v : pyint) : bool := match v with VInt _ => true | _ => false end.",
           "Definition zof (v : pyint) : Z := match v with VInt z => z | _ => 0 end.", "",
           gen_builder(repo)]
    return "\n".join(out)


# ------------------------------------------------------------------------------------------------ constructors

def _find_assign(fn, name):
    for st in ast.walk(fn):
        if isinstance(st, ast.Assign) and len(st.targets) == 1 and ast.unparse(st.targets[0]) == name:
            return st
    raise Untranslatable(f"no assignment to {name}")


def _find_call(fn, text):
    for st in ast.walk(fn):
        if isinstance(st, ast.Call) and ast.unparse(st.func) == text:
            return st
    raise Untranslatable(f"no call of {text}")


def _kw(call, name):
    for k in call.keywords:
        if k.arg == name:
            return k.value
    raise Untranslatable(f"{ast.unparse(call.func)}: no keyword {name}")


class MC(M):
    """M plus exact_log2() as the generated total function xlog2 (bit_length(n - 1))"""
    def call(self, n, env):
        if isinstance(n.func, ast.Name) and n.func.id == "exact_log2" and len(n.args) == 1 and not n.keywords:
            return V(f"(xlog2 {asZ(self.expr(n.args[0], env))})", "Z")
        return super().call(n, env)


def generate_ctors(repo):
    """The integer arithmetic of three constructors: WishboneCSRBridge (ratio, Wishbone address width, published
    map geometry) and csr.EventMonitor (reg_size, addr_width, the MemoryMap and add_resource arguments)."""
    out = ["(* GENERATED on every run by harness/translate2.py from /repo's current source. Do not edit. *)",
           "From Coq Require Import ZArith Bool.", "From Soc Require Import Lib.Bits.", "Open Scope Z_scope.", "",
           "(* amaranth.utils.exact_log2 on its domain: (n - 1).bit_length() *)",
           "Definition xlog2 (n : Z) : Z := if n - 1 <=? 0 then 0 else Z.log2 (n - 1) + 1.", ""]
    m = MC({"calls": {}, "state": [], "ret": None})
    # --- WishboneCSRBridge.__init__
    tree = ast.parse(open(os.path.join(repo, "amaranth_soc/csr/wishbone.py")).read())
    fn = find_func(tree, ["WishboneCSRBridge", "__init__"])
    env = {"data_width": V("data_width", "Z"), "csr_bus.data_width": V("csr_data_width", "Z"),
           "csr_bus.addr_width": V("csr_addr_width", "Z")}
    ratio = asZ(m.expr(_find_assign(fn, "ratio").value, env))
    sig = _find_call(fn, "wishbone.Signature")
    env2 = dict(env); env2["ratio"] = V("ratio", "Z")
    aw = asZ(m.expr(_kw(sig, "addr_width"), env2))
    if ast.unparse(_kw(sig, "data_width")) != "data_width" or ast.unparse(_kw(sig, "granularity")) != "csr_bus.data_width":
        raise Untranslatable("WishboneCSRBridge: Signature data_width / granularity arguments changed")
    mm = _find_call(fn, "MemoryMap")
    if [(k.arg, ast.unparse(k.value)) for k in mm.keywords] != [("addr_width", "csr_bus.addr_width"), ("data_width", "csr_bus.data_width")]:
        raise Untranslatable("WishboneCSRBridge: the published MemoryMap geometry changed")
    dflt = [st for st in ast.walk(fn) if isinstance(st, ast.If) and ast.unparse(st.test) == "data_width is None"]
    if len(dflt) != 1 or [ast.unparse(x) for x in dflt[0].body] != ["data_width = csr_bus.data_width"] or dflt[0].orelse:
        raise Untranslatable("WishboneCSRBridge: the data_width default changed")
    out += ["(* amaranth_soc/csr/wishbone.py: WishboneCSRBridge.__init__ *)",
            f"Definition gen_wbcsr_ratio (data_width csr_data_width : Z) : Z := {ratio}.",
            f"Definition gen_wbcsr_addr_width (csr_addr_width ratio : Z) : Z := {aw}.", ""]
    # --- csr.EventMonitor.__init__
    tree = ast.parse(open(os.path.join(repo, "amaranth_soc/csr/event.py")).read())
    fn = find_func(tree, ["EventMonitor", "__init__"])
    env = {"event_map.size": V("n", "Z"), "data_width": V("data_width", "Z"), "alignment": V("alignment", "Z")}
    rs = asZ(m.expr(_find_assign(fn, "reg_size").value, env))
    env2 = dict(env); env2["reg_size"] = V("reg_size", "Z")
    aw = asZ(m.expr(_find_assign(fn, "addr_width").value, env2))
    mm = _find_call(fn, "MemoryMap")
    if [(k.arg, ast.unparse(k.value)) for k in mm.keywords] != [("addr_width", "addr_width"), ("data_width", "data_width"), ("alignment", "alignment")]:
        raise Untranslatable("EventMonitor: the MemoryMap arguments changed")
    adds = [st for st in ast.walk(fn) if isinstance(st, ast.Call) and ast.unparse(st.func) == "memory_map.add_resource"]
    if [ast.unparse(a) for a in adds] != ["memory_map.add_resource(self._enable, size=reg_size, name=('enable',))",
                                         "memory_map.add_resource(self._pending, size=reg_size, name=('pending',))"]:
        raise Untranslatable("EventMonitor: the two add_resource calls changed: " + str([ast.unparse(a) for a in adds]))
    out += ["(* amaranth_soc/csr/event.py: EventMonitor.__init__ *)",
            f"Definition gen_evmon_reg_size (n data_width : Z) : Z := {rs}.",
            f"Definition gen_evmon_addr_width (reg_size alignment : Z) : Z := {aw}.", ""]
    return "\n".join(out)


def generate(repo):
    out = ["(* GENERATED on every run by harness/translate2.py from /repo's current source. Do not edit. *)",
           "From Coq Require Import ZArith Bool.", "From Soc Require Import Lib.Bits Lib.Res.",
           "From SocGen Require Import Kernels.", "Open Scope Z_scope.", "",
           "Definition is_none (v : pyint) : bool := match v with VNone => true | _ => false end.",
           "Definition is_int (v : pyint) : bool := match v with VInt _ => true | _ => false end.",
           "Definition zof (v : pyint) : Z := match v with VInt z => z | _ => 0 end.", ""]
    for spec in METHODS:
        out.append(gen_method(repo, spec))
    out.append(gen_window_arith(repo))
    out.append(gen_resource_tail(repo))
    return "\n".join(out)


# what runner.check_kernels runs for a property whose propdef sets the flag
STAGES = [("methods", "Methods.v", generate, "TieMethods.v"),
          ("builder", "BuilderGen.v", generate_builder, "TieBuilder.v"),
          ("ctors", "Ctors.v", generate_ctors, "TieCtors.v")]

if __name__ == "__main__":
    import sys
    print(generate(sys.argv[1] if len(sys.argv) > 1 else "/repo"))
