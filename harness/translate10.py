"""Fail-closed translator for the constructors and configuration methods of the three bus components:
csr.Decoder (`__init__`, `align_to`, `add`; csr/bus.py), wishbone.Decoder (`__init__`, `align_to`, `add`) and
wishbone.Arbiter (`__init__`, `add`; wishbone/bus.py) -> Gen/DecArbGen.v, regenerated from the CURRENT source on every
run; Gen/TieDecArb.v proves the result equal to Model/CsrDecoder.v `add_check`, Model/WbDecoder.v `add_ok` /
`add_verdicts` / `added` / `map_aw`, Model/Arbiter.v `add_ok` / `first_refused`.  The `elaborate()` methods are NOT
translated.

What is translated, by general rules over the AST (every other form raises Untranslatable):
 statements   assignment to a local; `self.<attr> = e` for the declared state attributes; `self.bus.memory_map = e`
              (set_memory_map); `d[k] = v` on the `_subs` dict (dict_store); `l.append(x)` (list_append);
              `if / elif / else`: an arm that always ends in raise / return / break / continue is continued separately
              (`if c then ARM else REST`), otherwise the arms must be free of stores and calls into other objects and
              the locals they assign that are read later are joined; `raise E(...)` (the message may only be built
              from constants, locals and attribute reads that already succeeded on this path, so building it cannot
              raise); `return e`; `for x in <display of constants>:` with a validating body (no stores, no variable
              carried out of the loop or from one iteration to the next), `break` and `continue` (loop_each of
              Lib/BusRep.v); a call into another object
              (`<map>.add_window(...)`, `<map>.align_to(...)`, `MemoryMap(...)`) as a statement, as the right-hand
              side of an assignment or as the operand of `return`; `super().__init__({"bus": In|Out(Signature(..))})`.
 expressions  ints, strings, True/False/None, + - * // % << >> & | ^ ** ~, comparisons, `is None`, `in / not in` a
              feature set, `and / or / not` (short circuit: an operand that can raise is only evaluated when Python
              evaluates it), `a if c else b`, max/min, isinstance(x, Interface | wiring.FlippedInterface),
              hasattr(x, s), flipped(x), Feature(s), Feature.<MEMBER>, exact_log2(n), attribute reads.
              Evaluation is left to right; every operation that can raise is bound with `let!` in that order
              (`//` and `%` are Z.div / Z.modulo: a zero divisor, ZeroDivisionError, is not represented).
 objects      `sub_bus`, `intr_bus`, `self.bus`: `bobj` of Lib/BusRep.v - what the code can observe of the object:
              is it a wishbone.Interface / csr.Interface / something else, is it wrapped in a FlippedInterface, its
              widths, granularity and feature list, the identity of its memory map.  An attribute read is `res`
              valued (AttributeError = OtherError); an object that is no interface has none of the attributes.
              `hasattr` is specified for port names only (any other string is Err OtherError: fail closed).
              `self.bus` is a bobj too (the tie lemmas instantiate it with what `__init__` builds).
 MemoryMap    a memory map is represented by its identity (Z); its state lives in an abstract heap `M` that is
              threaded through the code.  add_window / align_to / MemoryMap(...) enter the generated definitions
              as PARAMETERS (functions from the heap and the call's arguments to `res (M * result)`), exactly as
              `overlaps` enters translate2's gen_compute_addr_range; a call that raises is taken to leave the heap
              as it was.  The call's arguments are resolved against the callee's `def` in memory.py (positional /
              keyword / the default written there), so `sparse=sparse` dropped from the call becomes `None`.
 Signature    `Signature(kw...)` is an opaque constructor that may raise: parameter `wb_signature` /
              `csr_signature` from its four / two arguments to `res wbgeom` / `res csrgeom`.
 _subs dict   association list in insertion order keyed by the memory map's identity (MemoryMap defines neither
              __eq__ nor __hash__); `_intrs`: list.  Only stores are translated; any read aborts.
 set display  `for x in {"a", "b", ...}`: a Python set iterates in an unspecified order, so the generated definition
              takes the iteration order as a PARAMETER `order_k : list string`, the elements are emitted as
              gen_<method>_set_k, and the tie lemma holds for every permutation of them.
 state        a method is a function from (heap, mutable attributes of self) to ((heap', attributes'), res result):
              a raise returns the state reached at that point, so "a refused add leaves no trace" is a statement
              about the generated code.  `__init__` returns `res (heap * attributes)`: no object on a raise.
 parameters   typed by the table METHODS (checked against the `def`): bus arguments are bobj, `addr` / `alignment`
              / `granularity` pyint (None, int, other), `name` an opaque `option N`, `sparse` bool, widths Z.
              The defaults written in the `def` are emitted as gen_<method>_default_<param>.
 exceptions   `res`: ValueError / TypeError / KeyError / AssertionError, every other class is OtherError."""
import ast, os

from .translate import Untranslatable, BINOPS, find_func, attr_path

WB = "amaranth_soc/wishbone/bus.py"
CSR = "amaranth_soc/csr/bus.py"
MEM = "amaranth_soc/memory.py"

COQT = {"Z": "Z", "bool": "bool", "pyint": "pyint", "str": "string", "obj": "bobj", "mapref": "Z",
        "name": "option N", "feat": "feature", "featset": "list feature", "range3": "(Z * Z * Z)", "unit": "unit",
        "subs": "list (Z * bobj)", "objs": "list bobj", "optbool": "option bool", "F": "F", "heap": "M",
        "wbgeom": "wbgeom", "csrgeom": "csrgeom"}

# attribute reads on a bobj (Lib/BusRep.v)
OBJ_ATTRS = {"addr_width": "Z", "data_width": "Z", "granularity": "Z", "features": "featset", "memory_map": "mapref"}

# calls into other objects: parameter name, (callee parameter, type) in the order of the Coq parameter, result type,
# where the callee's `def` is, does it use the heap, is there a receiver (the memory map the method is called on)
EXTERNS = {
    "add_window": {"sig": [("window", "mapref"), ("name", "name"), ("addr", "pyint"), ("sparse", "optbool")],
                   "ret": "range3", "def": (MEM, ["MemoryMap", "add_window"]), "heap": True, "recv": True},
    "align_to": {"sig": [("alignment", "pyint")], "ret": "Z", "def": (MEM, ["MemoryMap", "align_to"]),
                 "heap": True, "recv": True},
    "mm_new": {"sig": [("addr_width", "pyint"), ("data_width", "pyint"), ("alignment", "pyint")], "ret": "mapref",
               "def": (MEM, ["MemoryMap", "__init__"]), "heap": True, "recv": False},
    "wb_signature": {"sig": [("addr_width", "Z"), ("data_width", "Z"), ("granularity", "pyint"), ("features", "F")],
                     "ret": "wbgeom", "def": (WB, ["Signature", "__init__"]), "heap": False, "recv": False},
    "csr_signature": {"sig": [("addr_width", "Z"), ("data_width", "Z")], "ret": "csrgeom",
                      "def": (CSR, ["Signature", "__init__"]), "heap": False, "recv": False},
}
EXTERN_ORDER = ["wb_signature", "csr_signature", "mm_new", "align_to", "add_window"]

EXC = {"ValueError", "TypeError", "KeyError", "AssertionError"}
CMP = {ast.Eq: "Z.eqb", ast.Lt: "Z.ltb", ast.LtE: "Z.leb", ast.Gt: "Z.gtb", ast.GtE: "Z.geb"}


class V:
    """typed Coq expression; pure: the term has type T, otherwise `res T`"""
    def __init__(self, s, t, pure=True):
        self.s, self.t, self.pure = s, t, pure


def extern_type(name):
    e = EXTERNS[name]
    args = (["M"] if e["heap"] else []) + (["Z"] if e["recv"] else []) + [COQT[t] for _, t in e["sig"]]
    ret = f"res (M * {COQT[e['ret']]})" if e["heap"] else f"res {COQT[e['ret']]}"
    return " -> ".join(args + [ret])


def coerce(v, target):
    if not v.pure:
        raise Untranslatable("internal: coercion of an unbound effectful value")
    if v.t == target:
        return v.s
    table = {("Z", "pyint"): "(VInt {})", ("bool", "optbool"): "(Some {})", ("none", "pyint"): "VNone",
             ("none", "name"): "None", ("none", "optbool"): "None", ("pyint", "Z"): "(bi_zof {})"}
    if (v.t, target) in table:
        return table[(v.t, target)].format(v.s)
    raise Untranslatable(f"a value of type {v.t} where {target} is expected: {v.s}")


def terminates(body):
    """does every path through `body` end in raise / return / break / continue?"""
    if not body:
        return False
    st = body[-1]
    if isinstance(st, (ast.Raise, ast.Return, ast.Break, ast.Continue)):
        return True
    if isinstance(st, ast.If):
        return terminates(st.body) and terminates(st.orelse)
    return False


def names_loaded(stmts):
    out = set()
    for st in stmts:
        for x in ast.walk(st):
            if isinstance(x, ast.Name):
                out.add(x.id)
    return out


def locals_assigned(stmts):
    out = []
    for st in stmts:
        for x in ast.walk(st):
            tg = x.targets if isinstance(x, ast.Assign) else [x.target] if isinstance(x, (ast.AugAssign, ast.AnnAssign)) else []
            for t in tg:
                for y in ast.walk(t):
                    if isinstance(y, ast.Name) and isinstance(y.ctx, ast.Store) and y.id not in out:
                        out.append(y.id)
    return out


class Module:
    """what the names used by the translated methods stand for in one source file, checked against its imports"""
    def __init__(self, repo, file, kind):
        self.repo, self.file, self.kind = repo, file, kind
        self.tree = ast.parse(open(os.path.join(repo, file)).read())
        imported = {}
        classes = set()
        for st in self.tree.body:
            if isinstance(st, ast.ImportFrom):
                for a in st.names:
                    imported[a.asname or a.name] = ("." * st.level + (st.module or ""), a.name)
            elif isinstance(st, ast.ClassDef):
                classes.add(st.name)
            elif isinstance(st, (ast.FunctionDef, ast.Assign)):
                for x in ([st.name] if isinstance(st, ast.FunctionDef) else [ast.unparse(t) for t in st.targets]):
                    imported.pop(x, None)
        need = {"In": ("amaranth.lib.wiring", "In"), "Out": ("amaranth.lib.wiring", "Out"),
                "flipped": ("amaranth.lib.wiring", "flipped"), "wiring": ("amaranth.lib", "wiring"),
                "MemoryMap": ("..memory", "MemoryMap")}
        if kind == "wb":
            need["exact_log2"] = ("amaranth.utils", "exact_log2")
        for k, v in need.items():
            if imported.get(k) != v or k in classes:
                raise Untranslatable(f"{file}: the name {k} does not stand for {v[0]}.{v[1]}")
        for c in ("Signature", "Interface") + (("Feature",) if kind == "wb" else ()):
            if c not in classes or c in imported:
                raise Untranslatable(f"{file}: {c} is not a class of this module")
        self.shadowed = set()

    def feature_members(self):
        cls = find_func(self.tree, ["Feature"])
        if [ast.unparse(b) for b in cls.bases] != ["enum.Enum"]:
            raise Untranslatable("Feature is not an enum.Enum")
        out = []
        for st in cls.body:
            if isinstance(st, ast.Expr) and isinstance(st.value, ast.Constant) and isinstance(st.value.value, str):
                continue
            if isinstance(st, ast.Assign) and len(st.targets) == 1 and isinstance(st.targets[0], ast.Name) \
                    and isinstance(st.value, ast.Constant) and isinstance(st.value.value, str):
                out.append((st.targets[0].id, st.value.value))
            else:
                raise Untranslatable("class Feature: " + ast.unparse(st)[:80])
        return out


def coq_str(s):
    if not all(32 <= ord(c) < 127 and c != '"' for c in s):
        raise Untranslatable(f"string constant {s!r}")
    return f'"{s}"%string'


class T:
    """translator of one method"""
    def __init__(self, mod, spec):
        self.mod, self.spec = mod, spec
        self.n = 0
        self.externs = set()
        self.reads = []
        self.orders = []            # (parameter name, constants) for every set display iterated
        self.feats = dict(mod.feature_members()) if mod.kind == "wb" else {}

    def fresh(self, base):
        self.n += 1
        base = "".join(c if c.isalnum() else "_" for c in base).strip("_") or "v"
        return f"{base}_{self.n}"

    # ------------------------------------------------------------------ sequencing of effectful operands
    def seq(self, vs, f):
        """evaluate vs left to right, then f(pure values) -> V"""
        binds, pures = [], []
        for v in vs:
            if v.pure:
                pures.append(v)
            else:
                nm = self.fresh("a")
                binds.append((nm, v.s))
                pures.append(V(nm, v.t))
        r = f(*pures)
        if not binds:
            return r
        inner = r.s if not r.pure else f"(Ok {r.s})"
        for nm, s in reversed(binds):
            inner = f"(let! {nm} := {s} in {inner})"
        return V(inner, r.t, False)

    @staticmethod
    def lift(v):
        return v.s if not v.pure else f"(Ok {v.s})"

    # ------------------------------------------------------------------ expressions
    def expr(self, n, env):
        if isinstance(n, ast.Constant):
            c = n.value
            if isinstance(c, bool):
                return V("true" if c else "false", "bool")
            if isinstance(c, int):
                return V(f"({c})", "Z")
            if isinstance(c, str):
                return V(coq_str(c), "str")
            if c is None:
                return V("None", "none")
            raise Untranslatable("constant " + repr(c))
        if isinstance(n, ast.Name):
            if n.id in env:
                return env[n.id]
            raise Untranslatable(f"unknown name {n.id}")
        if isinstance(n, ast.Attribute):
            try:
                p = attr_path(n)
            except Untranslatable:
                p = None
            if p is not None and p in env:
                return env[p]
            if p is not None and p.startswith("self.") and p.count(".") == 1:
                raise Untranslatable(f"read of {p}, which is not a declared attribute of self here")
            if isinstance(n.value, ast.Name) and n.value.id == "Feature" and self.mod.kind == "wb" \
                    and "Feature" not in env:
                if n.attr in self.feats:
                    return V(n.attr, "feat")
                raise Untranslatable(f"Feature.{n.attr} is not a member")
            o = self.expr(n.value, env)
            if o.t == "obj" and n.attr in OBJ_ATTRS:
                r = self.seq([o], lambda o: V(f"(attr_{n.attr} {o.s})", OBJ_ATTRS[n.attr], False))
                self.reads.append(ast.unparse(n))
                return r
            raise Untranslatable(f"attribute .{n.attr} of a value of type {o.t}")
        if isinstance(n, ast.BinOp) and type(n.op) in BINOPS:
            return self.seq([self.expr(n.left, env), self.expr(n.right, env)],
                            lambda a, b: V(f"({BINOPS[type(n.op)]} {coerce(a, 'Z')} {coerce(b, 'Z')})", "Z"))
        if isinstance(n, ast.UnaryOp):
            if isinstance(n.op, ast.Not):
                return self.seq([self.truth(n.operand, env)], lambda a: V(f"(negb {a.s})", "bool"))
            if isinstance(n.op, ast.USub):
                return self.seq([self.expr(n.operand, env)], lambda a: V(f"(Z.opp {coerce(a, 'Z')})", "Z"))
            if isinstance(n.op, ast.Invert):
                return self.seq([self.expr(n.operand, env)], lambda a: V(f"(Z.lnot {coerce(a, 'Z')})", "Z"))
        if isinstance(n, ast.BoolOp):
            return self.boolop(n, env)
        if isinstance(n, ast.Compare) and len(n.ops) == 1:
            return self.compare(n, env)
        if isinstance(n, ast.IfExp):
            c = self.truth(n.test, env)
            mark = len(self.reads)
            a, b = self.expr(n.body, env), self.expr(n.orelse, env)
            del self.reads[mark:]
            t = a.t if a.t == b.t else "pyint" if {a.t, b.t} <= {"Z", "pyint", "none"} else None
            if t is None:
                raise Untranslatable(f"conditional expression of types {a.t} / {b.t}")
            if a.pure and b.pure:
                return self.seq([c], lambda c: V(f"(if {c.s} then {coerce(a, t)} else {coerce(b, t)})", t))
            wrap = lambda v: self.lift(self.seq([v], lambda x: V(coerce(x, t), t)))
            return self.seq([c], lambda c: V(f"(if {c.s} then {wrap(a)} else {wrap(b)})", t, False))
        if isinstance(n, ast.Call):
            return self.call(n, env)
        raise Untranslatable("expression " + ast.dump(n)[:100])

    def truth(self, n, env):
        """the expression as a Python truth value"""
        v = self.expr(n, env)
        if v.t == "bool":
            return v
        if v.t == "Z":
            return self.seq([v], lambda a: V(f"(negb (Z.eqb {a.s} 0))", "bool"))
        raise Untranslatable(f"truth value of a {v.t}: {ast.unparse(n)[:60]}")

    def boolop(self, n, env):
        is_and = isinstance(n.op, ast.And)
        mark = None
        vals = []
        for i, x in enumerate(n.values):
            vals.append(self.truth(x, env))
            if i == 0:
                mark = len(self.reads)
        del self.reads[mark:]       # reads in short-circuited operands may not have happened
        acc = vals[-1]
        for v in reversed(vals[:-1]):
            if acc.pure:
                acc = self.seq([v], lambda a, acc=acc: V(f"({a.s} {'&&' if is_and else '||'} {acc.s})", "bool"))
            elif is_and:
                acc = self.seq([v], lambda a, acc=acc: V(f"(if {a.s} then {acc.s} else Ok false)", "bool", False))
            else:
                acc = self.seq([v], lambda a, acc=acc: V(f"(if {a.s} then Ok true else {acc.s})", "bool", False))
        return acc

    def compare(self, n, env):
        op = type(n.ops[0])
        l, r = n.left, n.comparators[0]
        if op in (ast.Is, ast.IsNot):
            if not (isinstance(r, ast.Constant) and r.value is None):
                raise Untranslatable("`is` with something else than None")
            neg = (lambda s: f"(negb {s})") if op is ast.IsNot else (lambda s: s)

            def f(a):
                if a.t == "pyint":
                    return V(neg(f"(bi_is_none {a.s})"), "bool")
                if a.t in ("name", "optbool"):
                    return V(neg(f"(match {a.s} with None => true | Some _ => false end)"), "bool")
                if a.t in ("Z", "bool", "str", "obj", "feat", "featset", "mapref"):
                    return V(neg("false"), "bool")
                raise Untranslatable(f"`is None` of a {a.t}")
            return self.seq([self.expr(l, env)], f)
        if op in (ast.In, ast.NotIn):
            neg = (lambda s: f"(negb {s})") if op is ast.NotIn else (lambda s: s)

            def f(a, b):
                if a.t == "feat" and b.t == "featset":
                    return V(neg(f"(feat_in {a.s} {b.s})"), "bool")
                raise Untranslatable(f"`in` between {a.t} and {b.t}")
            return self.seq([self.expr(l, env), self.expr(r, env)], f)

        def f(a, b):
            if a.t == b.t == "str" and op in (ast.Eq, ast.NotEq):
                s = f"(String.eqb {a.s} {b.s})"
                return V(s if op is ast.Eq else f"(negb {s})", "bool")
            if a.t == b.t == "feat" and op in (ast.Eq, ast.NotEq):
                s = f"(feature_eqb {a.s} {b.s})"
                return V(s if op is ast.Eq else f"(negb {s})", "bool")
            if a.t == b.t == "bool" and op in (ast.Eq, ast.NotEq):
                s = f"(Bool.eqb {a.s} {b.s})"
                return V(s if op is ast.Eq else f"(negb {s})", "bool")
            if {a.t, b.t} <= {"Z", "pyint"} and "pyint" in (a.t, b.t) and op in (ast.Eq, ast.NotEq):
                raise Untranslatable("== on a possibly-None integer")
            x, y = coerce(a, "Z") if a.t == "Z" else None, coerce(b, "Z") if b.t == "Z" else None
            if x is None or y is None:
                raise Untranslatable(f"comparison between {a.t} and {b.t}")
            if op is ast.NotEq:
                return V(f"(negb (Z.eqb {x} {y}))", "bool")
            if op in CMP:
                return V(f"({CMP[op]} {x} {y})", "bool")
            raise Untranslatable("comparison operator " + op.__name__)
        return self.seq([self.expr(l, env), self.expr(r, env)], f)

    def classref(self, n, env):
        """the class named in isinstance(x, C)"""
        if isinstance(n, ast.Name) and n.id == "Interface" and n.id not in env:
            return "isinstance_" + self.mod.kind
        if isinstance(n, ast.Attribute) and ast.unparse(n) == "wiring.FlippedInterface" and "wiring" not in env:
            return "is_flipped"
        raise Untranslatable("isinstance against " + ast.unparse(n)[:60])

    def call(self, n, env):
        if isinstance(n.func, ast.Name) and n.func.id not in env:
            f = n.func.id
            if n.keywords:
                raise Untranslatable("keyword arguments in " + ast.unparse(n)[:80])
            args = n.args
            if f == "isinstance" and len(args) == 2:
                pred = self.classref(args[1], env)

                def g(o):
                    if o.t != "obj":
                        raise Untranslatable(f"isinstance of a {o.t}")
                    return V(f"({pred} {o.s})", "bool")
                return self.seq([self.expr(args[0], env)], g)
            if f == "hasattr" and len(args) == 2:
                def g(o, s):
                    if o.t != "obj" or s.t != "str":
                        raise Untranslatable(f"hasattr({o.t}, {s.t})")
                    return V(f"(hasattr_port {o.s} {s.s})", "bool", False)
                return self.seq([self.expr(args[0], env), self.expr(args[1], env)], g)
            if f == "flipped" and len(args) == 1:
                def g(o):
                    if o.t != "obj":
                        raise Untranslatable(f"flipped of a {o.t}")
                    return V(f"(flipped {o.s})", "obj")
                return self.seq([self.expr(args[0], env)], g)
            if f == "Feature" and len(args) == 1 and self.mod.kind == "wb":
                def g(s):
                    if s.t == "feat":
                        return s
                    if s.t == "str":
                        return V(f"(enum_of_string Feature_members {s.s})", "feat", False)
                    raise Untranslatable(f"Feature() of a {s.t}")
                return self.seq([self.expr(args[0], env)], g)
            if f == "exact_log2" and len(args) == 1 and self.mod.kind == "wb":
                return self.seq([self.expr(args[0], env)], lambda a: V(f"(py_exact_log2 {coerce(a, 'Z')})", "Z", False))
            if f in ("max", "min") and len(args) == 2:
                return self.seq([self.expr(args[0], env), self.expr(args[1], env)],
                                lambda a, b: V(f"(Z.{f} {coerce(a, 'Z')} {coerce(b, 'Z')})", "Z"))
        raise Untranslatable("call " + ast.unparse(n)[:100])

    # ------------------------------------------------------------------ calls into other objects
    def extern(self, n, env):
        """None, or (extern name, receiver V or None, [argument V in the order of the Coq parameter])"""
        if not isinstance(n, ast.Call):
            return None
        name = recv = None
        if isinstance(n.func, ast.Attribute) and n.func.attr in ("add_window", "align_to"):
            name, recv = n.func.attr, n.func.value
        elif isinstance(n.func, ast.Name) and n.func.id == "MemoryMap" and "MemoryMap" not in env:
            name = "mm_new"
        elif isinstance(n.func, ast.Name) and n.func.id == "Signature" and "Signature" not in env:
            name = self.mod.kind + "_signature"
        if name is None:
            return None
        e = EXTERNS[name]
        file, path = e["def"]
        fn = find_func(ast.parse(open(os.path.join(self.mod.repo, file)).read()), path)
        a = fn.args
        if a.vararg or a.kwarg or a.posonlyargs:
            raise Untranslatable(f"{'.'.join(path)}: signature form")
        pos = [x.arg for x in a.args][1:]
        kwo = [x.arg for x in a.kwonlyargs]
        if pos + kwo != [p for p, _ in e["sig"]]:
            raise Untranslatable(f"{'.'.join(path)} takes {pos + kwo}, the translator knows it as {[p for p, _ in e['sig']]}")
        defaults = dict(zip(pos[len(pos) - len(a.defaults):], a.defaults))
        defaults.update({k: d for k, d in zip(kwo, a.kw_defaults) if d is not None})
        given = {}
        if len(n.args) > len(pos) or any(isinstance(x, ast.Starred) for x in n.args):
            raise Untranslatable("positional arguments of " + ast.unparse(n)[:80])
        order = []                                  # Python evaluates the arguments as written
        for p, x in zip(pos, n.args):
            given[p] = x; order.append(p)
        for k in n.keywords:
            if k.arg is None or k.arg in given or k.arg not in pos + kwo:
                raise Untranslatable("keyword of " + ast.unparse(n)[:80])
            given[k.arg] = k.value; order.append(k.arg)
        vals = {}
        rv = self.expr(recv, env) if recv is not None else None
        if rv is not None and rv.t != "mapref":
            raise Untranslatable(f".{name} called on a {rv.t}")
        for p in order:
            vals[p] = self.expr(given[p], env)
        for p, _t in e["sig"]:
            if p not in vals:
                if p not in defaults:
                    raise Untranslatable(f"{name}: argument {p} is missing")
                d = defaults[p]
                if not (isinstance(d, ast.Constant) and (d.value is None or isinstance(d.value, (int, bool)))):
                    raise Untranslatable(f"{name}: default of {p} is {ast.unparse(d)}")
                vals[p] = self.expr(d, env)
        self.externs.add(name)
        seqvs = ([rv] if rv is not None else []) + [vals[p] for p in order]
        return name, rv, vals, order, seqvs

    def extern_term(self, name, heap, pures, rv, vals, order):
        """the application of the parameter function, given the pure (already bound) values in evaluation order"""
        e = EXTERNS[name]
        it = iter(pures)
        r = next(it) if rv is not None else None
        bound = {p: next(it) for p in order}
        args = []
        for p, t in e["sig"]:
            v = bound.get(p, vals[p])
            args.append(coerce(v, t))
        head = [name] + ([heap] if e["heap"] else []) + ([r.s] if r is not None else [])
        return "(" + " ".join(head + args) + ")"

    # ------------------------------------------------------------------ statements
    def state(self, env):
        comps = []
        for k in self.spec["state"]:
            if k not in env:
                raise Untranslatable(f"{k} is not assigned on a path that leaves the method")
            comps.append(env[k].s)
        return comps[0] if len(comps) == 1 else "(" + ", ".join(comps) + ")"

    def c_bind(self, mode, rterm, env, nm, cont):
        if mode == "state":
            return f"(bindS {rterm} {self.state(env)} (fun {nm} =>\n  {cont}))"
        return f"(let! {nm} := {rterm} in\n  {cont})"

    def c_call(self, mode, rterm, env, hn, nm, cont, heap):
        if not heap:
            return self.c_bind(mode, rterm, env, nm, cont)
        if mode == "state":
            return f"(callS {rterm} {self.state(env)} (fun {hn} {nm} =>\n  {cont}))"
        return f"(let! '({hn}, {nm}) := {rterm} in\n  {cont})"

    def c_err(self, mode, e, env):
        return f"({self.state(env)}, Err {e})" if mode == "state" else f"(Err {e})"

    def with_value(self, mode, v, env, base, cont):
        """bind an effectful V, pass the pure one on"""
        if v.pure:
            return cont(v)
        nm = self.fresh(base)
        return self.c_bind(mode, v.s, env, nm, cont(V(nm, v.t)))

    def msg_ok(self, n, env):
        """an exception argument that cannot itself raise"""
        if isinstance(n, ast.Constant) and isinstance(n.value, str):
            return
        if isinstance(n, ast.Name) and n.id in env and env[n.id].t in ("msg", "Z", "bool", "str", "obj", "pyint", "name"):
            return
        if isinstance(n, ast.JoinedStr):
            for v in n.values:
                if isinstance(v, ast.Constant):
                    continue
                if isinstance(v, ast.FormattedValue) and (v.format_spec is None or all(
                        isinstance(x, ast.Constant) for x in v.format_spec.values)):
                    self.msg_ok(v.value, env)
                    continue
                raise Untranslatable("f-string part " + ast.dump(v)[:80])
            return
        if isinstance(n, ast.Attribute) and ast.unparse(n) in env["$read"]:
            return
        if isinstance(n, ast.BinOp) and isinstance(n.op, ast.Add):
            self.msg_ok(n.left, env); self.msg_ok(n.right, env)
            return
        raise Untranslatable("exception message reads something not read before: " + ast.unparse(n)[:80])

    def exc(self, st, env):
        e = st.exc
        if st.cause is not None or e is None:
            raise Untranslatable("raise form")
        if isinstance(e, ast.Name):
            cls, args = e.id, []
        elif isinstance(e, ast.Call) and isinstance(e.func, ast.Name) and not e.keywords:
            cls, args = e.func.id, e.args
        else:
            raise Untranslatable("raise " + ast.unparse(st)[:80])
        if cls in env:
            raise Untranslatable("exception class shadowed")
        for a in args:
            self.msg_ok(a, env)
        if cls in EXC:
            return cls
        if cls.endswith("Error") or cls == "Exception":
            return "OtherError"
        raise Untranslatable("raise of " + cls)

    def cond(self, mode, test, env, cont):
        """evaluate a condition, remember which attribute reads succeeded, continue with the pure bool"""
        self.reads = []
        c = self.truth(test, env)
        env2 = dict(env); env2["$read"] = env["$read"] | frozenset(self.reads)
        return self.with_value(mode, c, env, "c", lambda c: cont(c, env2))

    def block(self, body, env, mode, k, loop=None):
        """body followed by k(env) (falling off the end).  mode 'state': terms of type S * res R, a raise carries the
        state; mode 'pure': terms of type res T, no stores allowed.  loop: inside a for body (break/continue)."""
        if not body:
            return k(env)
        st, rest = body[0], body[1:]
        go = lambda e: self.block(rest, e, mode, k, loop)
        if isinstance(st, ast.Expr) and isinstance(st.value, ast.Constant) and isinstance(st.value.value, str):
            return go(env)
        if isinstance(st, ast.Pass):
            return go(env)
        if isinstance(st, ast.Raise):
            return self.c_err(mode, self.exc(st, env), env)
        if isinstance(st, ast.Break) and loop:
            return "(Ok false)"
        if isinstance(st, ast.Continue) and loop:
            return "(Ok true)"
        if isinstance(st, ast.Return):
            if loop or self.spec.get("ctor"):
                raise Untranslatable("return inside a loop / constructor")
            if mode != "state":
                raise Untranslatable("return inside a joined arm")
            if st.value is None:
                return f"({self.state(env)}, Ok tt)" if self.spec["ret"] == "unit" else self._bad("return without value")
            if self.extern(st.value, env) is not None:
                tmp = ast.Name(id="$ret", ctx=ast.Store())
                return self.block([ast.Assign(targets=[tmp], value=st.value), ast.Return(value=ast.Name(id="$ret", ctx=ast.Load()))],
                                  env, mode, k, loop)
            self.reads = []
            v = self.expr(st.value, env)
            return self.with_value(mode, v, env, "r", lambda v: f"({self.state(env)}, Ok {coerce(v, self.spec['ret'])})")
        if isinstance(st, ast.If):
            return self.if_(st, rest, env, mode, k, loop)
        if isinstance(st, ast.For):
            return self.for_(st, rest, env, mode, k, loop)
        if isinstance(st, ast.Assign) and len(st.targets) == 1:
            return self.assign(st.targets[0], st.value, rest, env, mode, k, loop)
        if isinstance(st, ast.Expr) and isinstance(st.value, ast.Call):
            c = st.value
            if self.extern(c, env) is not None:
                return self.assign(None, c, rest, env, mode, k, loop)
            if ast.unparse(c.func) == "super().__init__" and self.spec.get("ctor"):
                return self.super_init(c, rest, env, mode, k)
            if isinstance(c.func, ast.Attribute) and c.func.attr == "append" and len(c.args) == 1 and not c.keywords:
                p = attr_path(c.func.value)
                if p in self.spec["state"] and p in env and env[p].t == "objs" and mode == "state":
                    self.reads = []
                    x = self.expr(c.args[0], env)

                    def cont(x):
                        if x.t != "obj":
                            raise Untranslatable(f"append of a {x.t}")
                        nm = self.fresh(p)
                        env2 = dict(env); env2[p] = V(nm, "objs")
                        return f"(let {nm} := list_append {env[p].s} {x.s} in\n  {go(env2)})"
                    return self.with_value(mode, x, env, "x", cont)
        raise Untranslatable("statement " + ast.unparse(st)[:100])

    def _bad(self, msg):
        raise Untranslatable(msg)

    def assign(self, target, value, rest, env, mode, k, loop):
        go = lambda e: self.block(rest, e, mode, k, loop)
        ext = self.extern(value, env)
        self.reads = []
        # ---- the right-hand side
        if ext is not None:
            name, rv, vals, order, seqvs = ext
            e = EXTERNS[name]
            if loop or (e["heap"] and mode == "pure" and not self.spec.get("ctor")):
                raise Untranslatable("a call into another object inside a loop or a joined arm")

            def after(v):
                return self.store(target, v, env_after[0], mode, go)
            env_after = [env]

            def run(*pures):
                heap = env["$heap"].s if e["heap"] else None
                term = self.extern_term(name, heap, pures, rv, vals, order)
                nm = self.fresh(name + "_r"); hn = self.fresh("heap")
                env2 = dict(env)
                if e["heap"]:
                    env2["$heap"] = V(hn, "heap")
                env_after[0] = env2
                return self.c_call(mode, term, env, hn, nm, after(V(nm, e["ret"])), e["heap"])
            # bind the receiver and the arguments in evaluation order, then call
            return self.bind_all(mode, seqvs, env, run)
        if target is None:
            raise Untranslatable("expression statement " + ast.unparse(value)[:80])
        if isinstance(value, (ast.JoinedStr,)) or (isinstance(value, ast.Constant) and isinstance(value.value, str)
                                                    and isinstance(target, ast.Name) and False):
            self.msg_ok(value, env)
            v = V("tt", "msg")
        elif isinstance(value, ast.Call) and isinstance(value.func, ast.Name) and value.func.id in ("dict", "list") \
                and not value.args and not value.keywords and value.func.id not in env:
            v = V("[]", "empty")
        elif isinstance(value, (ast.List, ast.Dict)) and not (value.elts if isinstance(value, ast.List) else value.keys):
            v = V("[]", "empty")
        else:
            v = self.expr(value, env)
        return self.with_value(mode, v, env, "a", lambda v: self.store(target, v, env, mode, go))

    def bind_all(self, mode, vs, env, f):
        """bind the effectful ones of vs in order (statement level), then f(pure values)"""
        def step(i, acc):
            if i == len(vs):
                return f(*acc)
            return self.with_value(mode, vs[i], env, "a", lambda v: step(i + 1, acc + [v]))
        return step(0, [])

    def store(self, target, v, env, mode, go):
        if target is None:
            return go(env)
        if isinstance(target, ast.Name):
            if v.t in ("empty", "none"):
                raise Untranslatable(f"local {target.id} of undetermined type")
            if target.id in {"self", "Interface", "Signature", "Feature", "MemoryMap", "flipped", "wiring",
                             "exact_log2", "In", "Out", "isinstance", "hasattr", "max", "min"} | EXC:
                raise Untranslatable(f"assignment to the name {target.id}")
            if v.t == "msg" or v.s.replace("_", "").isalnum():
                env2 = dict(env); env2[target.id] = v
                return go(env2)
            nm = self.fresh(target.id)
            env2 = dict(env); env2[target.id] = V(nm, v.t)
            return f"(let {nm} := {v.s} in\n  {go(env2)})"
        if mode != "state" and not self.spec.get("ctor"):
            raise Untranslatable("store inside a joined arm: " + ast.unparse(target)[:60])
        if isinstance(target, ast.Attribute):
            p = attr_path(target)
            if p in self.spec["state"] and p != "$heap":
                want = self.spec["types"][p]
                if v.t == "empty" and want in ("subs", "objs"):
                    v = V("[]", want)
                if v.t != want:
                    raise Untranslatable(f"{p} = a value of type {v.t}")
                nm = self.fresh(p)
                env2 = dict(env); env2[p] = V(nm, want)
                return f"(let {nm} := {v.s} in\n  {go(env2)})"
            if target.attr == "memory_map":
                op = attr_path(target.value)
                if op in self.spec["state"] and op in env and env[op].t == "obj" and v.t == "mapref":
                    nm = self.fresh(op)
                    env2 = dict(env); env2[op] = V(nm, "obj")
                    return self.c_bind(mode, f"(set_memory_map {env[op].s} {v.s})", env, nm, go(env2))
            raise Untranslatable("store to " + ast.unparse(target)[:60])
        if isinstance(target, ast.Subscript):
            p = attr_path(target.value)
            if p in self.spec["state"] and p in env and env[p].t == "subs":
                self.reads = []
                kv = self.expr(target.slice, env)          # Python evaluates the value first, then the key

                def cont(kv):
                    if kv.t != "mapref" or v.t != "obj":
                        raise Untranslatable(f"{p}[{kv.t}] = {v.t}")
                    nm = self.fresh(p)
                    env2 = dict(env); env2[p] = V(nm, "subs")
                    return f"(let {nm} := dict_store {kv.s} {v.s} {env[p].s} in\n  {go(env2)})"
                return self.with_value(mode, kv, env, "k", cont)
        raise Untranslatable("assignment target " + ast.unparse(target)[:60])

    def super_init(self, c, rest, env, mode, k):
        if len(c.args) != 1 or c.keywords or not isinstance(c.args[0], ast.Dict):
            raise Untranslatable("super().__init__ is not given a dict display of members")
        d = c.args[0]

        def step(i, env):
            if i == len(d.keys):
                return self.block(rest, env, mode, k)
            key, val = d.keys[i], d.values[i]
            if not (isinstance(key, ast.Constant) and isinstance(key.value, str)):
                raise Untranslatable("member name")
            p = "self." + key.value
            if p not in self.spec["state"] or self.spec["types"][p] != "obj":
                raise Untranslatable(f"member {key.value} is not declared")
            if not (isinstance(val, ast.Call) and isinstance(val.func, ast.Name) and val.func.id in ("In", "Out")
                    and val.func.id not in env and len(val.args) == 1 and not val.keywords):
                raise Untranslatable("member is not In(...) / Out(...)")
            is_in = "true" if val.func.id == "In" else "false"
            ext = self.extern(val.args[0], env)
            if ext is None or not ext[0].endswith("_signature"):
                raise Untranslatable("member signature is not a Signature(...) call")
            name, rv, vals, order, seqvs = ext
            self.reads = []

            def run(*pures):
                term = self.extern_term(name, None, pures, rv, vals, order)
                g = self.fresh("sig"); nm = self.fresh(p)
                env2 = dict(env); env2[p] = V(nm, "obj")
                return self.c_bind(mode, term, env, g,
                                   f"(let {nm} := member_{self.mod.kind} {is_in} {g} in\n  {step(i + 1, env2)})")
            return self.bind_all(mode, seqvs, env, run)
        return step(0, env)

    def if_(self, st, rest, env, mode, k, loop):
        def cont(c, env2):
            tb, te = terminates(st.body), terminates(st.orelse)
            if tb or te:
                # an arm that never falls through: the other arm (possibly empty) continues with the rest
                a = self.block(st.body, env2, mode, k, loop) if tb else self.block(st.body + rest, env2, mode, k, loop)
                b = self.block(st.orelse, env2, mode, k, loop) if te else self.block(st.orelse + rest, env2, mode, k, loop)
                return f"(if {c.s} then {a} else\n  {b})"
            # both arms fall through: they must be free of stores; join the locals read later
            names = [x for x in locals_assigned(st.body + st.orelse) if x in names_loaded(rest) | self.spec.get("keep", set())]
            types = {}

            def arm(e2):
                vs = []
                for x in names:
                    if x not in e2:
                        raise Untranslatable(f"{x} is not assigned on every path")
                    vs.append(e2[x])
                    types.setdefault(x, set()).add(e2[x].t)
                arm.vals.append(vs)
                return "@ARM%d@" % (len(arm.vals) - 1)
            arm.vals = []
            a = self.block(st.body, env2, "pure", arm, loop)
            b = self.block(st.orelse, env2, "pure", arm, loop)
            env3 = dict(env2); fresh = []
            for x in names:
                ts = types[x]
                t = next(iter(ts)) if len(ts) == 1 else "pyint" if ts <= {"Z", "pyint", "none"} else None
                if t is None or t in ("msg", "empty", "none"):
                    raise Untranslatable(f"{x} has types {sorted(ts)} after the if")
                nm = self.fresh(x); fresh.append(nm); env3[x] = V(nm, t)
            for i, vs in enumerate(arm.vals):
                tup = [coerce(v, env3[x].t) for x, v in zip(names, vs)]
                txt = "(Ok tt)" if not tup else f"(Ok {tup[0]})" if len(tup) == 1 else "(Ok (" + ", ".join(tup) + "))"
                a = a.replace("@ARM%d@" % i, txt); b = b.replace("@ARM%d@" % i, txt)
            pat = "_" if not fresh else fresh[0] if len(fresh) == 1 else "'(" + ", ".join(fresh) + ")"
            return self.c_bind(mode, f"(if {c.s} then {a} else {b})", env2, pat, self.block(rest, env3, mode, k, loop))
        return self.cond(mode, st.test, env, cont)

    def for_(self, st, rest, env, mode, k, loop):
        if st.orelse or loop or not isinstance(st.target, ast.Name):
            raise Untranslatable("for form")
        it = st.iter
        if not isinstance(it, (ast.Set, ast.Tuple, ast.List)) or not it.elts:
            raise Untranslatable("for over something else than a display of constants")
        consts = []
        for e in it.elts:
            if not (isinstance(e, ast.Constant) and isinstance(e.value, str)):
                raise Untranslatable("for over non-string constants")
            if not (isinstance(it, ast.Set) and e.value in consts):
                consts.append(e.value)
        lit = "[" + "; ".join(coq_str(c) for c in consts) + "]"
        if isinstance(it, ast.Set):
            nm = f"order_{len(self.orders) + 1}"
            self.orders.append((nm, lit))
            lst = nm
        else:
            lst = lit
        carried = [x for x in locals_assigned(st.body) + [st.target.id] if x in names_loaded(rest)]
        if carried:
            raise Untranslatable(f"variables carried out of the loop: {carried}")
        outer = [x for x in locals_assigned(st.body) if x in env or x == st.target.id]
        if outer:
            raise Untranslatable(f"the loop body assigns variables that live across iterations: {outer}")
        x = st.target.id
        nm = self.fresh(x)
        env2 = dict(env); env2[x] = V(nm, "str")
        body = self.block(st.body, env2, "pure", lambda e: "(Ok true)", loop=True)
        return self.c_bind(mode, f"(loop_each (fun {nm} =>\n  {body}) {lst})", env, "_", self.block(rest, env, mode, k, loop))


# ---------------------------------------------------------------------------------------------------- methods

def _dec(file, kind, cls, prefix):
    bus_add = {"sub_bus": "obj", "name": "name", "addr": "pyint"}
    if kind == "wb":
        bus_add["sparse"] = "bool"
    init = {"addr_width": "Z", "data_width": "Z"}
    if kind == "wb":
        init.update({"granularity": "pyint", "features": "F"})
    init["alignment"] = "pyint"
    if kind == "wb":
        init["name"] = "name"
    return [
        {"file": file, "kind": kind, "path": [cls, "__init__"], "name": prefix + "_init", "ctor": True,
         "params": init, "ro": {}, "state": ["$heap", "self.bus", "self._subs"],
         "types": {"self.bus": "obj", "self._subs": "subs"}, "ret": "unit"},
        {"file": file, "kind": kind, "path": [cls, "align_to"], "name": prefix + "_align_to",
         "params": {"alignment": "pyint"}, "ro": {"self.bus": "obj"}, "state": ["$heap"], "types": {}, "ret": "Z"},
        {"file": file, "kind": kind, "path": [cls, "add"], "name": prefix + "_add",
         "params": bus_add, "ro": {"self.bus": "obj"}, "state": ["$heap", "self._subs"],
         "types": {"self._subs": "subs"}, "ret": "range3"},
    ]


METHODS = _dec(CSR, "csr", "Decoder", "gen_csr_dec") + _dec(WB, "wb", "Decoder", "gen_wb_dec") + [
    {"file": WB, "kind": "wb", "path": ["Arbiter", "__init__"], "name": "gen_arb_init", "ctor": True,
     "params": {"addr_width": "Z", "data_width": "Z", "granularity": "pyint", "features": "F"}, "ro": {},
     "state": ["self.bus", "self._intrs"], "types": {"self.bus": "obj", "self._intrs": "objs"}, "ret": "unit"},
    {"file": WB, "kind": "wb", "path": ["Arbiter", "add"], "name": "gen_arb_add",
     "params": {"intr_bus": "obj"}, "ro": {"self.bus": "obj"}, "state": ["self._intrs"],
     "types": {"self._intrs": "objs"}, "ret": "unit"},
]


def cname(p):
    return "heap" if p == "$heap" else p.replace(".", "_").replace("__", "_")


def gen_method(mod, spec):
    fn = find_func(mod.tree, spec["path"])
    cls = find_func(mod.tree, spec["path"][:-1])
    defs = [x for x in cls.body if (isinstance(x, (ast.FunctionDef, ast.AsyncFunctionDef, ast.ClassDef)) and x.name == spec["path"][-1])
            or (isinstance(x, ast.Assign) and spec["path"][-1] in [ast.unparse(t) for t in x.targets])]
    if len(defs) != 1:
        raise Untranslatable(f"{'.'.join(spec['path'])} is defined {len(defs)} times")
    a = fn.args
    if a.vararg or a.kwarg or a.posonlyargs or fn.decorator_list or not a.args or a.args[0].arg != "self":
        raise Untranslatable(f"{'.'.join(spec['path'])}: signature form")
    names = [x.arg for x in a.args[1:]] + [x.arg for x in a.kwonlyargs]
    if names != list(spec["params"]):
        raise Untranslatable(f"{'.'.join(spec['path'])} takes {names}, the translator knows it as {list(spec['params'])}")
    t = T(mod, spec)
    env = {"$read": frozenset()}
    for p, ty in spec["params"].items():
        env[p] = V(p, ty)
    for p, ty in spec["ro"].items():
        env[p] = V(cname(p), ty)
    ctor = spec.get("ctor")
    for p in spec["state"]:
        if p == "$heap":
            env[p] = V("heap", "heap")
        elif not ctor:
            env[p] = V(cname(p), spec["types"][p])
    sty = [("M" if p == "$heap" else COQT[spec["types"][p]]) for p in spec["state"]]
    sty = sty[0] if len(sty) == 1 else "(" + " * ".join(sty) + ")"
    if ctor:
        body = t.block(fn.body, env, "pure", lambda e: f"(Ok {t.state(e)})")
        rtype = f"res {sty}"
    else:
        def falloff(e):
            if spec["ret"] != "unit":
                raise Untranslatable("falls off the end without return")
            return f"({t.state(e)}, Ok tt)"
        body = t.block(fn.body, env, "state", falloff)
        rtype = f"{sty} * res {COQT[spec['ret']]}"
    ps = ["(M N F : Type)"]
    ps += [f"({x} : {extern_type(x)})" for x in EXTERN_ORDER if x in t.externs]
    ps += [f"({nm} : list string)" for nm, _ in t.orders]
    ps += [f"({cname(p)} : {COQT[ty]})" for p, ty in spec["ro"].items()]
    if ctor:
        ps += ["(heap : M)"] if "$heap" in spec["state"] else []
    else:
        ps += [f"({cname(p)} : {'M' if p == '$heap' else COQT[spec['types'][p]]})" for p in spec["state"]]
    ps += [f"({p} : {COQT[ty]})" for p, ty in spec["params"].items()]
    out = [f"(* {spec['file']}: {'.'.join(spec['path'])} *)"]
    for i, (nm, lit) in enumerate(t.orders):
        out.append(f"Definition {spec['name']}_set_{i + 1} : list string := {lit}.")
    # the defaults written in the def
    pos = a.args[1:]
    dflt = list(zip([x.arg for x in pos[len(pos) - len(a.defaults):]], a.defaults)) + \
        [(x.arg, d) for x, d in zip(a.kwonlyargs, a.kw_defaults) if d is not None]
    for p, d in dflt:
        ty = spec["params"][p]
        if ty == "F":
            if ast.unparse(d) != "frozenset()":
                raise Untranslatable(f"default of {p}: {ast.unparse(d)}")
            continue        # an empty feature set: the Signature constructor's business
        v = T(mod, spec).expr(d, {})
        out.append(f"Definition {spec['name']}_default_{p} (N : Type) : {COQT[ty]} := {coerce(v, ty)}.")
    out.append(f"Definition {spec['name']} {' '.join(ps)}\n  : {rtype} :=\n  {body}.\n")
    return "\n".join(out)


def generate(repo):
    mods = {"wb": Module(repo, WB, "wb"), "csr": Module(repo, CSR, "csr")}
    out = ["(* GENERATED on every run by harness/translate10.py from /repo's current source. Do not edit. *)",
           "From Coq Require Import String ZArith List Bool.", "From Soc Require Import Lib.Res Lib.BusRep.",
           "Import ListNotations.", "Open Scope Z_scope.", "",
           "(* amaranth_soc/wishbone/bus.py: class Feature(enum.Enum) *)",
           "Definition Feature_members : list (feature * string) :=\n  [" +
           "; ".join(f"({m}, {coq_str(v)})" for m, v in mods["wb"].feature_members()) + "].", ""]
    for spec in METHODS:
        out.append(gen_method(mods[spec["kind"]], spec))
    return "\n".join(out)


# what runner.check_kernels runs for a property whose propdef sets the flag
STAGES = [("busctors", "DecArbGen.v", generate, "TieDecArb.v")]

if __name__ == "__main__":
    import sys
    print(generate(sys.argv[1] if len(sys.argv) > 1 else "/repo"))
