"""Engine `csrevent` (C14): real csr.event.EventMonitor vs Model/CsrEvent.v, every port, every cycle.

One case = constructor arguments (event count and trigger modes, data width, alignment, trigger=), an
attachment (the monitor's own bus port driven directly / a csr.Decoder in front / wiring.connect() from an
initiator-side csr.Signature(...).create() interface inside a wrapper Elaboratable), and a stimulus.
The stimulus is SYMBOLIC in the register addresses: a row names `enable + j`, `pending + j` or a raw address;
it is resolved with the addresses the memory map of the driven bus reports (all_resources()) on the tree
under test, so that "software uses the addresses the memory map reports" is what is exercised."""
import warnings
warnings.simplefilter("ignore")
from ..common import mkrnd
from .. import sim as S

ENGINE_ID = 14
N = {"quick": 208, "thorough": 4000}
RULE = ("0..3*dw+1 events, dw in {3,8,16}, alignment 0-3 (thorough adds dw in {1,2,5,7,32} and alignment 4-5 on 15% of the cases), every trigger mode per source and for the monitor; attached "
        "directly / through a csr.Decoder (window at a random aligned address) / by wiring.connect() from an initiator "
        "interface; idx%8: 0-3 protocol-following whole-register transactions (write enable, read enable, read pending, "
        "write-one-to-clear) with sources toggling every cycle and triggers forced into the very cycle the clear takes "
        "effect, 4-5 the same with aborts, interleaved accesses to the other register, simultaneous read+write and "
        "unmapped addresses, 6 every input bit random each cycle, 7 constructor corner/refusal cases with a short trace. "
        "~30% of the non-constructor cases get 1-3 mid-run synchronous resets (between the chunks of a write, in the cycle "
        "of / after a last chunk, in a first-chunk read cycle, source lines held high through it): afterwards nothing is "
        "enabled or pending, edge detectors restart from low, open transactions are void. "
        "Non-trivial: >= 1 source, >= 1 completed enable write later read back, >= 1 completed clear whose written ones "
        "hit a pending bit, >= 1 trigger landing in the cycle of a clear of the same bit, src.i seen low and high.")
MODES = ["level", "rise", "fall"]
ATOMS = {"enable": 1, "pending": 2, "mon": 3}
EXC = {"ValueError": 1, "TypeError": 2, "KeyError": 3, "AssertionError": 4}
EN, PE, RAW = 0, 1, 2


def ceil_log2(n):
    return 0 if n <= 1 else (n - 1).bit_length()


# ------------------------------------------------------------------------------------------------
# generator (closed-form geometry is used ONLY to shape the stimulus: how many chunks a transaction has)
# ------------------------------------------------------------------------------------------------

def planned(cfg):
    n = len(cfg["modes"]); dw = cfg["dw"]; al = cfg["al"]
    rs = (n + dw - 1) // dw
    size = -(-max(rs, 1) >> al) << al
    aw = 1 + max(ceil_log2(rs), al)
    top_aw = cfg["dec"]["aw"] if cfg["attach"] == "decoder" else aw
    return size, aw, top_aw


def gen_cfg(rnd, kind, tier="quick"):
    dw = rnd.choice([3, 8, 8, 16])
    n = rnd.choice([0, 1, 2, dw - 1, dw, dw + 1, 2 * dw, 2 * dw + 1, 3 * dw, 3 * dw + 1,
                    rnd.randint(0, 3 * dw + 1), rnd.randint(0, 3 * dw + 1)])
    al = rnd.choice([0, 0, 0, 1, 2, 3])
    if tier == "thorough" and rnd.random() < 0.15:
        # wider sweep: tiny and odd bus widths, larger alignments
        dw = rnd.choice([1, 2, 5, 7, 32])
        n = rnd.choice([0, 1, dw, dw + 1, 3 * dw + 1, rnd.randint(0, min(3 * dw + 1, 40))])
        al = rnd.choice([0, 1, 4, 5])
    r = rnd.random()
    if r < 0.2:
        modes = [rnd.randrange(3)] * n
    else:
        modes = [rnd.randrange(3) for _ in range(n)]
    cfg = {"modes": modes, "dw": dw, "al": al, "trigger": rnd.randrange(3),
           "attach": rnd.choice(["direct", "decoder", "decoder", "connect", "connect"]), "dec": None}
    if cfg["attach"] == "decoder":
        _, aw, _ = planned(dict(cfg, attach="direct"))
        daw = aw + rnd.choice([0, 1, 1, 2, 3])
        slots = 1 << (daw - aw)
        addr = rnd.choice([None, rnd.randrange(slots) << aw, (slots - 1) << aw])
        cfg["dec"] = {"aw": daw, "al": rnd.choice([0, 0, 1, aw]), "addr": addr}
    return cfg


def gen_bad_cfg(rnd):
    """constructor corners: refusals and the smallest/odd accepted geometries"""
    cfg = gen_cfg(rnd, "ctor")
    cfg["attach"] = "direct"; cfg["dec"] = None
    what = rnd.choice(["dw0", "dwneg", "dwnone", "dwbad", "alneg", "alnone", "albad", "trig", "two", "ok", "ok1"])
    if what == "dw0":
        cfg["dw"] = 0
    elif what == "dwneg":
        cfg["dw"] = -rnd.randint(1, 9)
    elif what == "dwnone":
        cfg["dw"] = None
    elif what == "dwbad":
        cfg["dw"] = "bad"
    elif what == "alneg":
        cfg["al"] = -rnd.randint(1, 4)
    elif what == "alnone":
        cfg["al"] = None
    elif what == "albad":
        cfg["al"] = "bad"
    elif what == "trig":
        cfg["trigger"] = 3
    elif what == "two":
        cfg["dw"] = rnd.choice([0, None]); cfg["al"] = -1; cfg["trigger"] = 3
    elif what == "ok1":
        cfg["dw"] = 1; cfg["modes"] = cfg["modes"][:5]; cfg["al"] = rnd.choice([0, 4])
    return cfg


def valid(cfg):
    return isinstance(cfg["dw"], int) and cfg["dw"] > 0 and isinstance(cfg["al"], int) and cfg["al"] >= 0 \
        and cfg["trigger"] in (0, 1, 2)


def gen_stim(rnd, cfg, T, kind):
    """rows [sel, off, r_stb, w_stb, w_data, [i per source]]"""
    n = len(cfg["modes"]); dw = cfg["dw"]
    size, aw, top_aw = planned(cfg)
    full = (1 << n) - 1
    # ---- source activity
    style = rnd.choice(["toggle", "sparse", "busy", "mixed", "mixed"])
    cur = [rnd.randrange(2) for _ in range(n)]
    p = [{"toggle": 1.0, "sparse": 0.03, "busy": 0.5}.get(style, rnd.choice([1.0, 0.5, 0.1, 0.02, 0.0])) for _ in range(n)]
    srcs = []
    for t in range(T):
        if kind == "random":
            cur = [rnd.randrange(2) for _ in range(n)]
        else:
            for k in range(n):
                if rnd.random() < p[k]:
                    cur[k] ^= 1
        srcs.append(list(cur))
    # ---- bus activity
    rows = []

    def word(v, j):
        return (v >> (j * dw)) & ((1 << dw) - 1)

    def maskval():
        r = rnd.random()
        if r < 0.25:
            return full
        if r < 0.35:
            return 0
        if r < 0.5 and n:
            return 1 << rnd.randrange(n)
        if r < 0.6 and n:
            return full ^ (1 << rnd.randrange(n))
        return rnd.randrange(1 << n) if n else 0

    def idle(k=1):
        for _ in range(k):
            r = rnd.random()
            if r < 0.7:
                rows.append([RAW, rnd.randrange(1 << top_aw), 0, 0, rnd.randrange(1 << dw)])
            else:
                rows.append([rnd.choice([EN, PE]), rnd.randrange(size), 0, 0, rnd.randrange(1 << dw)])
    if kind == "random":
        for t in range(T):
            if rnd.random() < 0.5:
                rows.append([RAW, rnd.randrange(1 << top_aw), rnd.randrange(2), rnd.randrange(2), rnd.randrange(1 << dw)])
            else:
                rows.append([rnd.choice([EN, PE]), rnd.choice([0, size - 1, rnd.randrange(size)]),
                             rnd.randrange(2), rnd.randrange(2), rnd.randrange(1 << dw)])
    else:
        messy = kind == "messy"
        pgap = rnd.choice([0.0, 0.1, 0.4])
        while len(rows) < T:
            sel = rnd.choice([EN, PE, PE])
            op = rnd.choice(["w", "r", "r", "w"]) if not messy else rnd.choice(["w", "r", "rw", "w", "r"])
            v = maskval()
            upto = size
            if messy and rnd.random() < 0.25:
                upto = rnd.randint(0, size)                       # abandoned transaction
            for j in range(upto):
                garbage = rnd.randrange(1 << dw) if j * dw >= n else word(v, j) | (rnd.randrange(1 << dw) & ~((1 << max(0, min(dw, n - j * dw))) - 1))
                rows.append([sel, j, int("r" in op), int("w" in op), garbage if "w" in op else rnd.randrange(1 << dw)])
                if rnd.random() < pgap:
                    idle(rnd.randint(1, 2))
                if messy and rnd.random() < 0.12:
                    # an access to the OTHER register (or an unmapped address) in the middle
                    r = rnd.random()
                    if r < 0.5:
                        rows.append([1 - sel, rnd.choice([0, size - 1, rnd.randrange(size)]), rnd.randrange(2), rnd.randrange(2), rnd.randrange(1 << dw)])
                    elif r < 0.8:
                        rows.append([RAW, rnd.randrange(1 << top_aw), rnd.randrange(2), rnd.randrange(2), rnd.randrange(1 << dw)])
                    else:
                        rows.append([sel, rnd.randrange(size), rnd.randrange(2), rnd.randrange(2), rnd.randrange(1 << dw)])
            if rnd.random() < 0.5:
                idle(rnd.randint(1, 3))
    rows = rows[:T]
    # ---- events landing in the very cycle a clear takes effect (the cycle after the last chunk is written)
    if kind != "random" and n:
        for t in range(T - 1):
            sel, off, rs_, ws_, wd = rows[t]
            if sel == PE and ws_ and off == size - 1 and rnd.random() < 0.75:
                ks = [k for k in range(n) if rnd.random() < rnd.choice([0.1, 0.5, 1.0])]
                for k in ks:
                    md = cfg["modes"][k]
                    if md == 0:
                        srcs[t + 1][k] = 1
                    elif md == 1:
                        srcs[t][k] = 0; srcs[t + 1][k] = 1
                    else:
                        srcs[t][k] = 1; srcs[t + 1][k] = 0
    return [rows[t] + [srcs[t]] for t in range(T)]


def gen_case(seed, tier, idx):
    rnd = mkrnd(seed, "csrevent", idx)
    kind = ["txn", "txn", "txn", "txn", "messy", "messy", "random", "ctor"][idx % 8]
    if kind == "ctor":
        cfg = gen_bad_cfg(rnd)
        T = 40
        stim = gen_stim(rnd, cfg, T, "txn") if valid(cfg) else []
    else:
        cfg = gen_cfg(rnd, kind, tier)
        T = 300 if tier == "quick" else rnd.choice([300, 600])
        stim = gen_stim(rnd, cfg, T, kind)
    case = {"engine": "csrevent", "kind": kind, "cfg": cfg, "stim": stim}
    if kind != "ctor" and len(stim) > 20 and rnd.random() < 0.3:
        case["resets"] = gen_resets(rnd, cfg, stim)
    return case


def gen_resets(rnd, cfg, stim):
    """1-3 mid-run synchronous resets (the monitor always has sync logic: the multiplexer's shadow/strobe registers
    exist even for 0 events), aimed at the cycles where the design holds something a reset must wipe: between the
    chunks of a register write (write shadow loaded), in the very cycle of the last chunk (the registered element
    w_stb would be set by that edge), in the cycle after it (enable latch / clear take effect on the same edge as the
    reset), in the cycle of a first-chunk read (read shadow + r_en), or anywhere.  With probability 0.7 all source
    lines are held high through the reset cycle and mostly high after it: edge detectors must restart from 'low'."""
    n = len(cfg["modes"])
    size, _, _ = planned(cfg)
    T = len(stim)
    lo, hi = 3, T - 4
    cand = {"mid": [], "last": [], "after": [], "read": []}
    for t in range(lo, hi + 1):
        sel, off, rs, ws, wd, src = stim[t]
        if sel in (EN, PE):
            if ws and off < size - 1:
                cand["mid"].append(t)
            if ws and off == size - 1:
                cand["last"].append(t)
                if t + 1 <= hi:
                    cand["after"].append(t + 1)
            if rs and off == 0:
                cand["read"].append(t)
    out = set()
    for _ in range(rnd.choice([1, 1, 2, 3])):
        what = rnd.choice(["mid", "last", "after", "after", "read", "any"])
        pool = cand.get(what) or list(range(lo, hi + 1))
        out.add(rnd.choice(pool))
    out = sorted(out)
    for r in out:
        if rnd.random() < 0.7:
            stim[r][5] = [1] * n
            stim[r + 1][5] = [rnd.choice([0, 1, 1]) for _ in range(n)]
    return out


# ------------------------------------------------------------------------------------------------
# the real objects
# ------------------------------------------------------------------------------------------------

class Refused(Exception):
    pass


def pyarg(v):
    return "8" if v == "bad" else v


def enc_layout(mm):
    out = []
    for r in mm.all_resources():
        path = [[ATOMS.get(p, 99) if isinstance(p, str) else [p] for p in name] for name in r.path]
        out.append([path, r.start, r.end, r.width])
    return out


def build(cfg):
    """Real EventMonitor through its public constructor, attached as the case says.  Raises Refused((stage, code))."""
    from amaranth import Module, Elaboratable
    from amaranth.lib import wiring
    from amaranth_soc import csr, event
    from amaranth_soc.csr.event import EventMonitor
    em = event.EventMap()
    srcs = []
    for k, md in enumerate(cfg["modes"]):
        s = event.Source(trigger=MODES[md], path=(f"s{k}",))
        em.add(s); srcs.append(s)
        if k % 2 and len(cfg["modes"]) % 3 == 0:
            em.add(srcs[k // 2])      # adding a source a second time is allowed and has no effect
    trig = MODES[cfg["trigger"]] if cfg["trigger"] in (0, 1, 2) else "sideways"
    if cfg["trigger"] in (0, 1, 2) and len(cfg["modes"]) % 2 == 1:
        trig = event.Source.Trigger(trig)          # the enum spelling of the same parameter
    try:
        mon = EventMonitor(em, trigger=trig, data_width=pyarg(cfg["dw"]), alignment=pyarg(cfg["al"]))
    except (ValueError, TypeError, KeyError, AssertionError) as e:
        raise Refused((-2, EXC[type(e).__name__]))
    b = {"mon": mon, "srcs": srcs, "inner": enc_layout(mon.bus.memory_map), "aw": mon.bus.addr_width,
         "trigger": MODES.index(mon.src.trigger.value)}
    if cfg["attach"] == "direct":
        b.update(dut=mon, bus=mon.bus, top=b["inner"], top_aw=mon.bus.addr_width)
    elif cfg["attach"] == "decoder":
        d = cfg["dec"]
        dec = csr.Decoder(addr_width=d["aw"], data_width=mon.bus.data_width, alignment=d["al"])
        # the decoder's map is read while still empty (a layout printed too early): what it says later must not
        # depend on having been asked
        mm_ = dec.bus.memory_map
        list(mm_.all_resources()); list(mm_.windows()); list(mm_.window_patterns()); mm_.decode_address(0)
        try:
            placed = dec.add(mon.bus, name="mon", addr=d["addr"])
        except (ValueError, TypeError, KeyError, AssertionError) as e:
            raise Refused((-3, EXC[type(e).__name__]))
        room = 1 << max(1, d["al"])
        if placed[0] >= room:
            # a neighbour below the monitor, added after it (windows added in descending address order): an idle
            # subordinate with an empty memory map, which reports nothing and answers nothing
            from amaranth_soc.memory import MemoryMap
            other = csr.Interface(addr_width=1, data_width=mon.bus.data_width, path=("other",))
            other.memory_map = MemoryMap(addr_width=1, data_width=mon.bus.data_width)
            list(mm_.all_resources()); list(mm_.window_patterns()); mm_.decode_address(placed[0])
            dec.add(other, name="other", addr=0)
        m = Module()
        m.submodules.dec = dec
        m.submodules.mon = mon
        b.update(dut=m, bus=dec.bus, top=enc_layout(dec.bus.memory_map), top_aw=dec.bus.addr_width)
    else:
        ini = csr.Signature(addr_width=mon.bus.addr_width, data_width=mon.bus.data_width).create(path=("ini",))

        class Wrapper(Elaboratable):
            def elaborate(self, platform):
                m = Module()
                m.submodules.mon = mon
                wiring.connect(m, ini, mon.bus)
                return m
        b.update(dut=Wrapper(), bus=ini, top=b["inner"], top_aw=mon.bus.addr_width)
    return b


def reg_ranges(layout):
    """(start, end) of the resources whose last name is enable / pending, as reported; None if absent or ambiguous."""
    out = {}
    for sel, atom in ((EN, 1), (PE, 2)):
        hits = [(s, e) for (path, s, e, w) in layout if path and path[-1] == [atom]]
        out[sel] = hits[0] if len(hits) == 1 else None
    return out


def resolve_rows(stim, layout, top_aw):
    rr = reg_ranges(layout)
    mask = (1 << top_aw) - 1
    rows = []
    for sel, off, rs, ws, wd, src in stim:
        if sel == RAW or rr.get(sel) is None:
            a = off
        else:
            a = rr[sel][0] + off
        rows.append([a & mask, rs, ws, wd, src])
    return rows


_cache = {}


def resolved(case):
    """Concrete stimulus for this case on the tree under test (the constructor is run, nothing is elaborated)."""
    key = id(case)
    if key in _cache and _cache[key][0] is case:
        return _cache[key][1]
    try:
        b = build(case["cfg"])
        rows = resolve_rows(case["stim"], b["top"], b["top_aw"])
    except Refused:
        rows = []
    _cache.clear()
    _cache[key] = (case, rows)
    return rows


def pyenc(v):
    return [] if v is None else ([[]] if v == "bad" else [v])


def to_model(case):
    cfg = case["cfg"]
    att = []
    if cfg["attach"] == "decoder":
        d = cfg["dec"]
        att = [d["aw"], d["al"], pyenc(d["addr"])]
    return [cfg["modes"], pyenc(cfg["dw"]), pyenc(cfg["al"]), cfg["trigger"], att, resolved(case)]


def _segments(case):
    """[(first, last)] cycle ranges; a segment ends with the cycle in which the reset is asserted"""
    T = len(case["stim"])
    rs = sorted(set(r for r in case.get("resets", []) if 0 <= r < T - 1))
    out, a = [], 0
    for r in rs:
        out.append((a, r)); a = r + 1
    out.append((a, T - 1))
    return out


def reset_cycles(case):
    return [b for (a, b) in _segments(case)[:-1]] if case["stim"] else []


def model_cases(case):
    """A mid-run synchronous reset starts the model again from its initial state: one model run per segment (same
    constructor arguments and attachment, the concrete stimulus of that segment)."""
    full = to_model(case)
    if not case["stim"] or not reset_cycles(case):
        return [full]
    return [full[:5] + [full[5][a:b + 1]] for (a, b) in _segments(case)]


def model_join(case, results):
    """Constructor / attachment codes, addr_width, trigger and both layouts come from the first segment (they do not
    depend on the stimulus); the per-cycle rows are concatenated."""
    first = results[0]
    if len(results) == 1 or not first or not isinstance(first[0], int) or first[0] < 0 or len(first) != 5:
        return first
    rows = []
    for r in results:
        if not isinstance(r, list) or len(r) != 5 or r[:4] != first[:4]:
            return [-99, first[:4], r[:4] if isinstance(r, list) else r]
        rows += r[4]
    return first[:4] + [rows]


def from_model(res):
    return res


def run_impl(case):
    cfg = case["cfg"]
    try:
        b = build(cfg)
    except Refused as e:
        return list(e.args[0])
    rows = resolve_rows(case["stim"], b["top"], b["top_aw"])
    bus = b["bus"]; srcs = b["srcs"]
    ins = [bus.addr, bus.r_stb, bus.w_stb, bus.w_data] + [s.i for s in srcs]
    outs = [bus.r_data, b["mon"].src.i] + [s.trg for s in srcs]
    stim = [r[:4] + r[4] for r in rows]
    from amaranth.lib.wiring import ConnectionError as WiringConnectionError
    try:
        # elaborated once, inside simulate (wrapped in a ResetInserter when the case has mid-run resets)
        tr = S.simulate(b["dut"], ins, outs, stim, reset_at=reset_cycles(case))
    except WiringConnectionError:
        return [-6, 0]                      # wiring.connect(initiator interface, mon.bus) refused
    obs = [[r[0], r[1], r[2:]] for r in tr]
    return [b["aw"], b["trigger"], b["inner"], b["top"], obs, rows, b["top_aw"]]


def canon(obs):
    """the concrete stimulus and the driven bus's address width are harness-only (used by the oracle)"""
    return obs if obs and obs[0] < 0 else obs[:5]


# ------------------------------------------------------------------------------------------------
# oracle: C14 restated over implementation observations only
# ------------------------------------------------------------------------------------------------

def analyse(case, obs):
    """Abstract enable / pending masks are tracked from the bus transactions and the source inputs alone:
         enable  := value of the latest completed protocol-following write to the enable register
         pending := trg | (pending & ~ones) where ones is the value of a completed write to the pending register
                    taking effect in that cycle (0 when none), trg by each source's trigger mode
       ("unknown" where a write that does not follow the protocol hits a register's last address), and compared with
       what protocol-following reads return (atomic snapshot at the first-chunk read) and with src.i every cycle."""
    cfg = case["cfg"]
    out = []
    st = {"enable_writes": 0, "enable_readbacks": 0, "pending_reads": 0, "clears": 0, "clears_hitting_pending": 0,
          "trigger_in_clear_cycle": 0, "irq_low": 0, "irq_high": 0, "read_checks": 0, "cycles": 0,
          "offprotocol_writes": 0, "resets": 0, "resets_irq_high": 0, "resets_write_in_flight": 0,
          "resets_lines_high": 0}
    if obs and obs[0] < 0:
        if obs[0] == -2 and valid(cfg):
            out.append(("C14", "constructor", f"EventMonitor refused {len(cfg['modes'])} events, data_width={cfg['dw']}, "
                        f"alignment={cfg['al']}"))
        if obs[0] == -6:
            out.append(("C14", "attach", "wiring.connect() from an initiator-side csr.Signature interface to mon.bus is refused"))
        return out, st
    aw, trig, inner, top, rows, stim, top_aw = obs
    n = len(cfg["modes"]); dw = cfg["dw"]; modes = cfg["modes"]
    full = (1 << n) - 1; dmask = (1 << dw) - 1
    need = (n + dw - 1) // dw
    # ---- the memory map must report the two registers, with room for every event bit, inside the address space
    for lay, width, what in ((inner, aw, "mon.bus"), (top, top_aw, "driven bus")):
        rr = reg_ranges(lay)
        for sel, nm in ((EN, "enable"), (PE, "pending")):
            if rr[sel] is None:
                out.append(("C14", "layout", f"{what}: memory map does not report exactly one register named {nm}: {lay}"))
                return out, st
            s, e = rr[sel]
            if not (0 <= s < e <= (1 << width)) or (e - s) < max(need, 1):
                out.append(("C14", "layout", f"{what}: register {nm} reported at [{s},{e}) cannot hold {n} bits "
                            f"in {dw}-bit words within {width} address bits"))
                return out, st
        (s0, e0), (s1, e1) = rr[EN], rr[PE]
        if s0 < e1 and s1 < e0:
            out.append(("C14", "layout", f"{what}: enable [{s0},{e0}) and pending [{s1},{e1}) overlap"))
            return out, st
    rr = reg_ranges(top)
    T = len(stim)
    st["cycles"] = T

    def which(a):
        for sel in (EN, PE):
            if rr[sel][0] <= a < rr[sel][1]:
                return sel
        return None
    en = 0; en_known = True
    pv = 0; pk = full                      # pending value / which bits are known
    prev = [0] * n
    last_first = {}                        # reg -> time of the latest first-chunk read
    snap = {}                              # reg -> (value, known) at that time
    last_write = {}                        # address -> (time, data)
    last_wr_reg = {EN: -1, PE: -1}         # latest write strobe anywhere inside the register
    effect = {}                            # cycle -> (reg, value or None)
    expect = None                          # read data expected in this cycle
    en_written = False
    resets = set(reset_cycles(case))
    for t in range(T):
        addr, rs, ws, wd, src = stim[t]
        rdata, irq, trgs = rows[t]
        if t and (t - 1) in resets and irq:
            out.append(("C14", t, "src.i=1 in the first cycle after a reset (nothing is enabled, nothing is pending)"))
        # -- src.i follows enable & pending
        st["irq_high" if irq else "irq_low"] += 1
        if en_known:
            hit = en & pv & pk
            if hit and not irq:
                out.append(("C14", t, f"src.i=0 although events {hit:#x} are enabled and pending"))
            elif not hit and (en & ~pk & full) == 0 and irq:
                out.append(("C14", t, f"src.i=1 although no event is both enabled ({en:#x}) and pending ({pv:#x})"))
        elif pk == full and pv == 0 and irq:
            out.append(("C14", t, "src.i=1 although no event is pending"))
        # -- read data of the previous cycle's read
        if expect is not None:
            val, known, txt = expect
            st["read_checks"] += 1
            if (rdata ^ val) & known:
                out.append(("C14", t, f"{txt}: r_data={rdata:#x}, expected {val & known:#x} on bits {known:#x}"))
        expect = None
        # -- triggers by mode
        trg = 0
        for k in range(n):
            b = src[k] if modes[k] == 0 else ((1 - prev[k]) & src[k] if modes[k] == 1 else prev[k] & (1 - src[k]))
            trg |= b << k
        # -- this cycle's bus access
        if rs:
            k = which(addr)
            if k is not None:
                j = addr - rr[k][0]
                if j == 0:
                    last_first[k] = t
                    snap[k] = (en, full if en_known else 0) if k == EN else (pv & pk, pk)
                if k in last_first and last_first.get(1 - k, -1) <= last_first[k]:
                    v, kn = snap[k]
                    kn |= ~full
                    expect = ((v >> (j * dw)) & dmask, (kn >> (j * dw)) & dmask,
                              f"read of word {j} of {'enable' if k == EN else 'pending'} (first word read at {last_first[k]})")
                    if j == rr[k][1] - rr[k][0] - 1:
                        if k == PE:
                            st["pending_reads"] += 1
                        elif en_written:
                            st["enable_readbacks"] += 1
        if ws:
            last_write[addr] = (t, wd & dmask)
            k = which(addr)
            if k is not None:
                last_wr_reg[k] = t
                if addr == rr[k][1] - 1:
                    s0 = rr[k][0]
                    ok = True; lo = t; v = 0
                    for j in range(need):
                        if (s0 + j) not in last_write:
                            ok = False
                            break
                        tj, dj = last_write[s0 + j]
                        lo = min(lo, tj)
                        cw = min(dw, n - j * dw)
                        v |= (dj & ((1 << cw) - 1)) << (j * dw)
                    if ok and last_wr_reg[1 - k] > lo:
                        ok = False
                    effect[t + 1] = (k, v if ok else None)
                    if not ok:
                        st["offprotocol_writes"] += 1
        # -- clock edge at the end of cycle t
        if t in resets:
            # synchronous reset asserted in this cycle (its outputs, checked above, are still those of the old
            # state): the edge puts the monitor back into its power-on state - nothing enabled, nothing pending,
            # every line's previous level counts as low, no transaction open (a write whose last chunk was just
            # written, or whose effect was due on this edge, does not happen; a read in flight returns nothing the
            # property speaks about) - and the property's clauses apply again from there.
            st["resets"] += 1
            st["resets_irq_high"] += irq
            st["resets_write_in_flight"] += int(t in effect or (t + 1) in effect)
            st["resets_lines_high"] += int(n > 0 and all(src))
            en = 0; en_known = True; en_written = False
            pv = 0; pk = full
            prev = [0] * n
            last_first = {}; snap = {}; last_write = {}
            last_wr_reg = {EN: -1, PE: -1}
            effect = {}
            expect = None
            continue
        ef = effect.pop(t, None)
        clear = 0
        if ef is not None:
            k, v = ef
            if k == EN:
                if v is None:
                    en_known = False
                else:
                    en = v; en_known = True; en_written = True
                    st["enable_writes"] += 1
            else:
                clear = v
                if v is not None:
                    st["clears"] += 1
                    if v & pv & pk:
                        st["clears_hitting_pending"] += 1
                    if v & trg:
                        st["trigger_in_clear_cycle"] += 1
        if clear is None:
            pk = trg | (pk & ~pv)
            pv = trg
        else:
            pv = trg | (pv & pk & ~clear)
            pk = (trg | clear | pk) & full
        prev = src
        if len(out) > 12:
            break
    return out, st


def oracle(case, obs):
    return analyse(case, obs)[0]


def stats(case, obs):
    return analyse(case, obs)[1]


def nontrivial(case, obs):
    """>= 1 source, a completed enable write later read back, a completed clear hitting a pending bit, a trigger
    landing in the cycle of a clear of the same bit, src.i seen both low and high"""
    if not case["cfg"]["modes"] or (obs and obs[0] < 0):
        return False
    s = stats(case, obs)
    return bool(s["enable_readbacks"] and s["clears_hitting_pending"] and s["trigger_in_clear_cycle"]
                and s["irq_low"] and s["irq_high"])


def describe(case):
    c = case["cfg"]
    return {"engine": "csrevent", "kind": case["kind"], "events": len(c["modes"]), "modes": c["modes"][:8], "dw": c["dw"],
            "alignment": c["al"], "trigger": c["trigger"], "attach": c["attach"], "decoder": c["dec"],
            "cycles": len(case["stim"]), "resets": case.get("resets", []), "first_rows": case["stim"][:3]}


def shrink(case, fails):
    best = case
    T = len(best["stim"])
    for k in list(range(2, T, max(1, T // 60))):
        c = dict(best); c["stim"] = best["stim"][:k]
        if fails(c):
            best = c
            break
    return best
