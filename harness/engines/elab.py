"""Engine `elab` (C19): every component class x generated parameters (valid and invalid): construct, elaborate three times, compare RTLIL and metadata; acceptance and multiplexer bookkeeping predicted by Model/Elab.v."""
import warnings
warnings.simplefilter("ignore")
import signal, hashlib, time, re
from ..common import mkrnd

ENGINE_ID = 19
K_ELAB = 3            # elaborations of one instance
LIMIT_S = 10          # CPU-time limit (ITIMER_PROF) for the constructor and for each elaboration + conversion
WALL_S = 90           # wall-clock backstop (ITIMER_REAL) for the same steps: the machine may be loaded
N = {"quick": 720, "thorough": 10800}
CLS = {"mux": 1, "csrdec": 2, "csrbridge": 3, "register": 4, "action": 5, "monitor": 6, "csrevent": 7,
       "wbcsr": 8, "wbdec": 9, "arbiter": 10, "sram": 11, "gpio": 12,
       "nested": 2}      # decoders below other components (frozen maps); no model prediction, oracle only
RULE = ("idx 0, 3 = K2 probes (500 one-byte readable registers in one shared chunk / in 500 chunks), idx 1, 2 = submodule-name-collision probes (csr.Register field paths, csr.Bridge register names incl. \"mux\"); otherwise the class "
        "is idx mod 12 over csr.Multiplexer (mock registers, natural / packed / unaligned / padded layouts, span <= 2^12, "
        "shadow_overlaps in {None,0,1,2,3,4,5,8}; thorough adds EVERY placement of two read/write registers in [0,6) x shadow_overlaps {None,0,1,2}: 70 x 4 = 280 cases), "
        "csr.Decoder, csr.Bridge over csr.Builder (Cluster / Index scopes, real Registers), csr.Register (field trees, every "
        "action over unsigned/signed/int/range/enum/flag shapes), bare field actions, event.Monitor, csr.EventMonitor, "
        "WishboneCSRBridge, wishbone.Decoder (sparse, dense, K1-type dense-finer windows, addr_width 0), wishbone.Arbiter "
        "(0-8 initiators), WishboneSRAM, gpio.Peripheral; ~25 % of the cases carry an invalid argument (wrong type, negative, "
        "zero, non-power-of-two, oversized) somewhere.  Model prediction (Model/Elab.v): multiplexer acceptance code, shadow "
        "sizes and chunk tables after each of the 3 elaborations; submodule names of csr.Bridge; constructor codes of "
        "WishboneCSRBridge / WishboneSRAM / Arbiter.add / both Decoder.add and their Case-pattern lengths; for the other "
        "classes and for ill-typed arguments there is no model prediction and the oracle alone decides.  Non-trivial = an "
        "accepted instance with at least one register / window / initiator / source / pin / field whose three elaborations "
        "all produced RTLIL, or a refused invalid argument combination")

BAD = [-1, 0, "x", None, 1.5, 3, 7, 24, 128, [8], -8]
PIN_MSG = "must have a csr.Element.Signature member named 'element'"


class _Timeout(BaseException):
    pass


def _on_alarm(signum, frame):
    raise _Timeout()


class limit:
    """LIMIT_S seconds of CPU time of this process (load independent; a non-terminating elaboration burns
    CPU), with a wall-clock backstop of WALL_S seconds."""
    def __init__(self, s=LIMIT_S):
        self.s = s

    def __enter__(self):
        self.old = (signal.signal(signal.SIGPROF, _on_alarm), signal.signal(signal.SIGALRM, _on_alarm))
        signal.setitimer(signal.ITIMER_PROF, self.s)
        signal.setitimer(signal.ITIMER_REAL, WALL_S)

    def __exit__(self, *a):
        signal.setitimer(signal.ITIMER_PROF, 0)
        signal.setitimer(signal.ITIMER_REAL, 0)
        signal.signal(signal.SIGPROF, self.old[0])
        signal.signal(signal.SIGALRM, self.old[1])
        return False


def ceil_log2(n):
    return 0 if n <= 1 else (n - 1).bit_length()


def lg(x):
    return max(x, 1).bit_length() - 1


# ================================================================================================
# generators
# ================================================================================================

def maybe_bad(rnd, v, p=0.04):
    return rnd.choice(BAD) if rnd.random() < p else v


def gen_mux(rnd, tier, exh=None):
    if exh is not None:
        # every placement of two registers inside [0, 6) x ov in {None,0,1,2} (280 cases, both rw); after
        # that the same enumeration again with other access pairs
        cuts = [(a, b, c, d) for a in range(6) for b in range(a + 1, 7) for c in range(b, 6) for d in range(c + 1, 7)]
        a, b, c, d = cuts[exh % len(cuts)]
        ov = [None, 0, 1, 2][(exh // len(cuts)) % 4]
        acc = [(1, 1), (1, 0), (0, 1)]
        r1 = acc[(exh // (4 * len(cuts))) % 3]; r2 = acc[(exh // (12 * len(cuts))) % 3]
        return {"aw": 3, "dw": 8, "regs": [[a, b, 8 * (b - a), r1[0], r1[1]], [c, d, 8 * (d - c), r2[0], r2[1]]],
                "ov": ov, "bad": None}
    dw = rnd.choice([1, 4, 8, 8, 13, 16, 32])
    aw = rnd.choice([1, 2, 3, 4, 5, 6, 6, 7, 8, 10, 12])
    style = rnd.choice(["natural", "packed", "unaligned", "unaligned", "padded", "big", "alias", "alias", "alias"])
    if style == "alias":
        # back-to-back registers from an odd address: a two-address register at an odd start shares a chunk
        # with its predecessor whatever the shadow size is (F2)
        aw = rnd.choice([3, 4, 5, 6])
        cur = rnd.choice([1, 1, 3, 5, 2])
        regs = []
        for i in range(rnd.choice([2, 3, 3, 4, 5, 6])):
            size = rnd.choice([1, 2, 2, 3]) if i else rnd.choice([1, 1, 2])
            if cur + size > (1 << aw):
                break
            acc = rnd.choice(["r", "w", "rw", "rw", "rw", "rw", "rw", "rw"])
            regs.append([cur, cur + size, size * dw - rnd.choice([0, 0, 1]), int("r" in acc), int("w" in acc)])
            cur += size + rnd.choice([0, 0, 0, 0, 1])
        return {"aw": aw, "dw": dw, "regs": regs, "ov": rnd.choice([0, 0, 0, 0, 0, 1, 1, None]), "bad": None}
    regs = []
    cur = 0
    top = 1 << aw
    nreg = rnd.choice([0, 1, 2, 2, 3, 3, 4, 5, 6, 8, 10])
    budget = 160 if tier == "quick" else 400         # bound on the padded span (elaboration cost, N5)
    for i in range(nreg):
        w = rnd.choice([0, 1, dw - 1, dw, dw + 1, 2 * dw, 3 * dw + 2, rnd.randint(0, 5 * dw + 3)])
        w = max(w, 0)
        acc = rnd.choice(["r", "w", "rw", "rw"])
        need = max(1, (w + dw - 1) // dw)
        size = need
        if style == "padded" or rnd.random() < 0.15:
            size = need + rnd.choice([1, 2, 3])
        if style == "big" and rnd.random() < 0.5:
            size = need + rnd.choice([5, 11, 16, 30])
        if style == "natural":
            p = 1 << ceil_log2(size)
            size = p if rnd.random() < 0.7 else size
            start = -(-cur // p) * p
        elif style == "unaligned":
            start = cur + rnd.choice([0, 0, 1, 3, 5])
        else:
            start = cur + rnd.choice([0, 0, 0, 1])
        if rnd.random() < 0.1:
            start += rnd.randint(1, 9)
        if start + size > top or (cur + size > budget):
            break
        regs.append([start, start + size, w, int("r" in acc), int("w" in acc)])
        cur = start + size
    ov = rnd.choice([None, None, 0, 0, 1, 1, 2, 3, 4, 5, 8])
    bad = None
    if rnd.random() < 0.08:
        bad = rnd.choice(["notmap", "windows", "noelement", "inelement"])
    return {"aw": aw, "dw": dw, "regs": regs, "ov": ov, "bad": bad}


def gen_csrdec(rnd, tier):
    aw = rnd.choice([1, 2, 3, 4, 5, 6, 8, 12, 16, 40])
    dw = rnd.choice([1, 8, 8, 13, 32])
    cfg = {"aw": maybe_bad(rnd, aw), "dw": maybe_bad(rnd, dw), "align": maybe_bad(rnd, rnd.choice([0, 0, 1, 2])),
           "subs": []}
    for i in range(rnd.choice([0, 1, 2, 2, 3, 4])):
        saw = rnd.randint(1, max(1, min(aw, 8)))
        sc = {"aw": saw, "dw": dw if rnd.random() < 0.92 else rnd.choice([5, 8, 16]),
              "name": rnd.choice([None, f"w{i}", f"w{i}", ["a", i]]),
              "addr": rnd.choice([None, None, None, 0, 1 << saw, 3 << saw, 3, 16]),
              "align_to": rnd.choice([None, None, None, rnd.randint(0, 6)]),
              "iface": 1 if rnd.random() < 0.95 else 0}
        cfg["subs"].append(sc)
    return cfg


NAMES = ["a", "b", "c", "reg", "x1", "ctrl", "stat"]
TRICKY = ["a", "a__0", "0", "mux", "a__b", "b", "a__a", "a__0__b"]   # joins with "__" can coincide (E1)
ACTIONS = ["R", "W", "RW", "RW1C", "RW1S", "ResRAW0", "ResRAWL", "ResR0WA", "ResR0W0"]
STORAGE = ("RW", "RW1C", "RW1S")


def gen_shape(rnd):
    k = rnd.random()
    if k < 0.55:
        from . import action as A
        w = rnd.choice([0, 1, 1, 2, 3, 4, 8, 9, 16, 33])
        sh = A.gen_shape(rnd, w, None)
        return sh
    if k < 0.7:
        return {"t": "int", "w": rnd.choice([0, 1, 2, 5, 8, 12])}
    if k < 0.85:
        lo = rnd.choice([0, 0, 0, 1, -3, -8, 5])
        return {"t": "range", "lo": lo, "hi": lo + rnd.choice([0, 1, 2, 5, 8, 17])}
    return {"t": "bad", "v": rnd.choice(["x", -1, None, 1.5, [2]])}


def shape_width(sh):
    if sh["t"] in ("u", "s", "enum", "flag", "int"):
        return sh["w"]
    return None


def gen_init(rnd, sh):
    if sh["t"] in ("u", "s", "enum", "flag"):
        from . import action as A
        return A.gen_init(rnd, sh)
    if sh["t"] == "int":
        return rnd.choice([None, 0, 1, (1 << sh["w"]) - 1 if sh["w"] else 0, -1])
    if sh["t"] == "range":
        # both ends from inside and outside: lo - 1 and hi (= range.stop) must be refused with ValueError
        return rnd.choice([None, sh["lo"], sh["hi"] - 1, 0, sh["hi"], sh["hi"], sh["lo"] - 1, sh["hi"] + 1])
    return None


def gen_action(rnd, allowed=None):
    kind = rnd.choice(allowed or ACTIONS)
    sh = gen_shape(rnd)
    cfg = {"kind": kind, "shape": sh, "init": gen_init(rnd, sh) if kind in STORAGE else None}
    if kind in STORAGE and rnd.random() < 0.03:
        cfg["init"] = rnd.choice(["x", 1.5, [1]])
    return cfg


def gen_fields(rnd, depth, allowed, pool=NAMES):
    k = rnd.random()
    if depth >= 2 or k < 0.45:
        return ["f", gen_action(rnd, allowed)]
    if k < 0.75:
        n = rnd.choice([0, 1, 2, 2, 3])
        names = rnd.sample(pool, n)
        return ["d", [[nm, gen_fields(rnd, depth + 1, allowed, pool)] for nm in names]]
    if k < 0.97:
        return ["l", [gen_fields(rnd, depth + 1, allowed, pool) for _ in range(rnd.choice([0, 1, 2, 3]))]]
    return ["bad", rnd.choice(["x", 3, None])]


def gen_register(rnd, wide=False):
    acc = rnd.choice(["r", "w", "rw", "rw", "rw"])
    allowed = {"r": ["R", "ResRAW0", "ResRAWL"], "w": ["W", "ResR0WA", "ResR0W0"], "rw": ACTIONS}[acc]
    if rnd.random() < 0.1:
        allowed = ACTIONS                        # incompatible fields: the constructor must refuse
    if rnd.random() < 0.05:
        acc = rnd.choice(["x", None, 3])
    pool = TRICKY if rnd.random() < 0.15 else NAMES
    return {"fields": gen_fields(rnd, 0, allowed, pool), "access": acc}


def gen_builder_ops(rnd, depth=0, tricky=None):
    ops = []
    if tricky is None:
        tricky = rnd.random() < 0.15
    for i in range(rnd.choice([0, 1, 1, 2, 3]) if depth else rnd.choice([1, 2, 3, 4])):
        k = rnd.random()
        if k < 0.62 or depth >= 2:
            name = rnd.choice(TRICKY) if tricky else rnd.choice(NAMES) + rnd.choice(["", "", str(i)])
            if rnd.random() < 0.03:
                name = rnd.choice(["", 3, None])
            ops.append(["add", name, gen_register(rnd), rnd.choice([None, None, None, 0, 4, 8, 3, 16, 32])])
        elif k < 0.8:
            ops.append(["cluster", rnd.choice(["a", "a__0", "b"] if tricky else ["k", "m", "blk"]) if rnd.random() < 0.97 else "",
                        gen_builder_ops(rnd, depth + 1, tricky)])
        else:
            ops.append(["index", rnd.choice([0, 0, 1, 2, 7]) if rnd.random() < 0.97 else rnd.choice([-1, "x"]),
                        gen_builder_ops(rnd, depth + 1, tricky)])
    return ops


def gen_csrbridge(rnd, tier):
    dw = rnd.choice([8, 8, 16, 32, 13, 1])
    gran = rnd.choice([8, 8, 8, 1, 4, 16]) if dw % 8 == 0 else rnd.choice([1, dw, 8])
    cfg = {"aw": maybe_bad(rnd, rnd.choice([3, 4, 5, 6, 8])), "dw": maybe_bad(rnd, dw), "gran": maybe_bad(rnd, gran),
           "ops": gen_builder_ops(rnd), "bad": None}
    if rnd.random() < 0.05:
        cfg["bad"] = rnd.choice(["notmap", "windows", "notreg"])
    return cfg


def gen_sources(rnd, nmax):
    n = rnd.choice([0, 1, 1, 2, 3, 5, 8, nmax])
    return [rnd.choice(["level", "rise", "fall"]) if rnd.random() < 0.98 else rnd.choice(["x", 3]) for _ in range(n)]


def gen_monitor(rnd, tier):
    return {"srcs": gen_sources(rnd, 20), "trigger": rnd.choice(["level", "rise", "fall", "level", "rise", "fall", "level", "x", None, 3]),
            "bad": "notmap" if rnd.random() < 0.05 else None}


def gen_csrevent(rnd, tier):
    return {"srcs": gen_sources(rnd, 40), "trigger": rnd.choice(["level", "rise", "fall", "level"]),
            "dw": maybe_bad(rnd, rnd.choice([1, 4, 8, 8, 13, 32])),
            # the multiplexer inside loops over 2 * 2**alignment addresses (DESIGN.md §6 N5): alignment <= 6
            "align": rnd.choice([-1, "x", None, 1.5]) if rnd.random() < 0.04 else rnd.choice([0, 0, 0, 1, 2, 3, 4, 5, 6]),
            "name": rnd.choice([None, None, "mon"]), "bad": "notmap" if rnd.random() < 0.04 else None}


def gen_wbcsr(rnd, tier):
    from . import bridge as B
    cfg = B.legal_cfg(rnd) if rnd.random() < 0.55 else B.odd_cfg(rnd)
    cfg["name"] = rnd.choice([None, None, "br", ["a", 1]])
    cfg["bad"] = None
    k = rnd.random()
    if k < 0.05:
        cfg["bad"] = "notiface"
    elif k < 0.12:
        cfg["dw"] = rnd.choice(["x", 1.5, [8], 16.0])
    elif k < 0.16:
        cfg["flipped"] = 1
    return cfg


def gen_wbdec(rnd, tier, idx):
    from . import wbdec as W
    k = rnd.random()
    if k < 0.2:
        # ill-typed / out-of-range constructor arguments
        return {"raw": {"aw": maybe_bad(rnd, rnd.randint(0, 8), 0.4), "dw": maybe_bad(rnd, rnd.choice(W.GR), 0.4),
                        "g": maybe_bad(rnd, rnd.choice([None, 8, 16]), 0.3),
                        "feat": rnd.choice([[], ["err"], ["foo"], "err", 3, ["err", "stall", "lock"]]),
                        "align": maybe_bad(rnd, 0, 0.2)}}
    kind = "k1probe" if k < 0.35 else ("exh" if k < 0.6 else "main")   # exh = addr_width 0..2
    cfg = W.gen_cfg(rnd, tier, kind)
    W.fill_results(cfg)
    return cfg


def gen_arbiter(rnd, tier):
    from . import arbiter as AR
    if rnd.random() < 0.2:
        return {"raw": {"aw": maybe_bad(rnd, rnd.randint(0, 8), 0.4), "dw": maybe_bad(rnd, rnd.choice([8, 16, 32, 64]), 0.4),
                        "g": maybe_bad(rnd, rnd.choice([None, 8, 16]), 0.3),
                        "feat": rnd.choice([[], ["err"], ["foo"], 3, ["cti", "bte"]]),
                        "intrs": rnd.choice([0, 1, 2]), "notiface": int(rnd.random() < 0.3)}}
    cfg = AR.gen_cfg(rnd, tier)
    if rnd.random() < 0.12:
        cfg["intrs"] = []
    return cfg


def gen_sram(rnd, tier, idx):
    from . import sram as SR
    cfg = SR.gen_geom(rnd, idx) if rnd.random() < 0.5 else SR.gen_ctor(rnd)
    if rnd.random() < 0.05:
        cfg["size"] = ["i", rnd.choice([1 << 10, 1 << 12])]
        cfg["init"] = cfg["init"][:4]
    return cfg


def gen_gpio(rnd, tier):
    pins = rnd.choice([1, 1, 2, 3, 4, 7, 8, 16, 20])
    dw = rnd.choice([8, 8, 8, 16, 32, 1, 4, 13])
    need = 4 + ceil_log2(max(1, -(-2 * pins // dw)))        # Mode and SetClr take 2 bits per pin
    return {"pins": maybe_bad(rnd, pins, 0.05),
            "aw": maybe_bad(rnd, rnd.choice([need, need, need + 1, need + 3, 2, 3, 4]), 0.05),
            "dw": maybe_bad(rnd, dw, 0.05),
            "stages": maybe_bad(rnd, rnd.choice([0, 1, 2, 2, 3, 4]), 0.05)}


KINDS = ["mux", "csrdec", "csrbridge", "register", "action", "monitor", "csrevent", "wbcsr", "wbdec", "arbiter",
         "sram", "gpio"]


def well_typed(kind, cfg):
    """Is there a model prediction for this case (see RULE)?"""
    isint = lambda v: isinstance(v, int) and not isinstance(v, bool)
    if kind == "mux":
        return True
    if kind == "csrdec":
        return isint(cfg["aw"]) and cfg["aw"] > 0 and isint(cfg["dw"]) and cfg["dw"] > 0 and isint(cfg["align"]) \
            and cfg["align"] >= 0 and all(s["align_to"] is None for s in cfg["subs"]) and "res" in cfg
    if kind == "csrbridge":
        return cfg["bad"] is None and cfg.get("names") is not None
    if kind == "register":
        return cfg.get("paths") is not None
    if kind == "wbcsr":
        return cfg["bad"] is None and (cfg["dw"] is None or isint(cfg["dw"])) and not cfg.get("flipped")
    if kind in ("wbdec", "arbiter"):
        return "raw" not in cfg
    if kind == "sram":
        return True
    return False


def gen_case(seed, tier, idx):
    rnd = mkrnd(seed, "elab", idx)
    if idx in (0, 3):
        # K2 regression probes: 500 one-byte registers sharing ONE chunk (default limit), or one chunk each
        # (light: Amaranth's RTLIL text for one Switch with 500 cases is ~15 MB and takes ~5 s per
        # elaboration, so the shared-chunk probe compares the netlist text instead)
        return {"engine": "elab", "kind": "mux", "sub": "k2probe", "pred": 0, "light": int(idx == 0),
                "cfg": {"aw": 12, "dw": 8, "regs": [[i, i + 1, 8, 1, 1] for i in range(500)],
                        "ov": None if idx == 0 else 0, "bad": None}}
    if idx in (1, 2):
        return gen_collision(rnd, idx)
    if idx in (4, 5, 6, 7, 8):
        return gen_collision_literal(rnd, 4 if idx in (4, 6, 8) else 5)
    if idx % 13 == 12:          # 13 is coprime to len(KINDS): takes a slot from every kind in turn
        return {"engine": "elab", "kind": "nested", "sub": "rand", "pred": 0, "cfg": gen_nested(rnd, tier)}
    nk = len(KINDS)
    kind = KINDS[idx % nk]
    sub = "rand"
    if kind == "mux":
        if tier == "thorough" and (idx // nk) % 3 == 0:
            cfg = gen_mux(rnd, tier, exh=idx // (3 * nk) - 1); sub = "exh"     # idx 0 is a probe
        else:
            cfg = gen_mux(rnd, tier)
    elif kind == "csrdec":
        cfg = gen_csrdec(rnd, tier)
        fill_csrdec(cfg)
    elif kind == "csrbridge":
        cfg = gen_csrbridge(rnd, tier)
        cfg["names"] = names_of_ops(cfg)
    elif kind == "register":
        cfg = gen_register(rnd)
        cfg["paths"] = paths_of_register(cfg)
    elif kind == "action":
        cfg = gen_action(rnd)
    elif kind == "monitor":
        cfg = gen_monitor(rnd, tier)
    elif kind == "csrevent":
        cfg = gen_csrevent(rnd, tier)
    elif kind == "wbcsr":
        cfg = gen_wbcsr(rnd, tier)
    elif kind == "wbdec":
        cfg = gen_wbdec(rnd, tier, idx)
    elif kind == "arbiter":
        cfg = gen_arbiter(rnd, tier)
    elif kind == "sram":
        cfg = gen_sram(rnd, tier, idx)
    else:
        cfg = gen_gpio(rnd, tier)
    return {"engine": "elab", "kind": kind, "sub": sub, "pred": int(well_typed(kind, cfg)), "cfg": cfg}


def gen_collision_literal(rnd, idx):
    """As gen_collision, plus fields / registers whose LITERAL names are what a renaming scheme would produce for
    the colliding one (`<joined>_<k>`), before and after it: whatever name a colliding submodule is given must be
    checked against every name, taken earlier or later."""
    f = ["f", {"kind": "RW", "shape": {"t": "u", "w": 2}, "init": None}]
    # literal names placed BEFORE the colliding pair: a random subset of 1..6 that (usually) contains the suffixes the
    # obvious renaming schemes would pick - 1 (a counter), the number of names taken so far, that number + 1
    nb = rnd.randint(1, 4)
    if rnd.random() < 0.8:
        # the suffix a "number of names so far" scheme picks at the collision is nb + 1; a counter scheme picks 1
        must = [nb + 1] + ([1] if nb >= 2 else [])
        rest = [k for k in range(1, 8) if k not in must]
        before = set(must[:nb]) | set(rnd.sample(rest, max(0, nb - len(must[:nb]))))
    else:
        before = set(rnd.sample(range(1, 8), nb))
    after = [k for k in range(1, 8) if k not in before and rnd.random() < 0.5]
    before = sorted(before)
    rnd.shuffle(before)
    if idx == 4:
        if rnd.random() < 0.5:
            joined, pair = "a__b", [["a", ["d", [["b", f]]]], ["a__b", f]]
        else:
            joined, pair = "a__0", [["a", ["l", [f]]], ["a__0", f]]
        if rnd.random() < 0.5:
            pair = pair[::-1]
        fields = [[f"{joined}_{k}", f] for k in before] + pair + [[f"{joined}_{k}", f] for k in after]
        cfg = {"fields": ["d", fields], "access": "rw"}
        cfg["paths"] = paths_of_register(cfg)
        return {"engine": "elab", "kind": "register", "sub": "collide", "pred": int(cfg["paths"] is not None), "cfg": cfg}
    reg = {"fields": f, "access": "rw"}
    if rnd.random() < 0.5:
        joined, pair = "a__0", [["add", "a__0", reg, None], ["cluster", "a", [["add", "0", reg, None]]]]
    else:
        joined, pair = "mux", [["add", "mux", reg, None]]
    if rnd.random() < 0.5:
        pair = pair[::-1]
    ops = [["add", f"{joined}_{k}", reg, None] for k in before] + pair + [["add", f"{joined}_{k}", reg, None] for k in after]
    cfg = {"aw": 8, "dw": 8, "gran": 8, "bad": None, "ops": ops}
    cfg["names"] = names_of_ops(cfg)
    return {"engine": "elab", "kind": "csrbridge", "sub": "collide", "pred": int(cfg["names"] is not None), "cfg": cfg}


def gen_collision(rnd, idx):
    """Distinct, mutually non-conflicting names whose '__'-joins coincide, or a register called "mux"
    (findings E1 = F11-F13, fixed in /repo by a4c349c: a colliding field is an anonymous submodule, and by
    6ea0aed + 823f054: a colliding register gets a numeric suffix)."""
    f = ["f", {"kind": "RW", "shape": {"t": "u", "w": 2}, "init": None}]
    v = rnd.randrange(2) if idx == 1 else 2 + rnd.randrange(3)
    if v == 0:
        cfg = {"fields": ["d", [["a", ["d", [["b", f]]]], ["a__b", f]]], "access": "rw"}
    elif v == 1:
        cfg = {"fields": ["d", [["a", ["l", [f]]], ["a__0", f]]], "access": "rw"}
    if v <= 1:
        cfg["paths"] = paths_of_register(cfg)
        return {"engine": "elab", "kind": "register", "sub": "collide", "pred": int(cfg["paths"] is not None), "cfg": cfg}
    reg = {"fields": f, "access": "rw"}
    if v == 2:
        ops = [["add", "a__0", reg, None], ["cluster", "a", [["add", "0", reg, None]]]]
    elif v == 3:
        ops = [["add", "mux", reg, None], ["add", "b", reg, None]]
    else:
        ops = [["cluster", "a", [["index", 0, [["add", "x", reg, None]]]]], ["cluster", "a__0", [["add", "x", reg, None]]]]
    cfg = {"aw": 8, "dw": 8, "gran": 8, "bad": None, "ops": ops}
    cfg["names"] = names_of_ops(cfg)
    return {"engine": "elab", "kind": "csrbridge", "sub": "collide", "pred": int(cfg["names"] is not None), "cfg": cfg}


# ================================================================================================
# building real objects
# ================================================================================================

class Built:
    def __init__(self, dut, extra=(), **kw):
        self.dut = dut
        self.extra = list(extra)      # objects whose signature members are also ports of the conversion
        self.cmp = None               # class-specific part compared with the model (filled by builders)
        self.info = {}
        self.__dict__.update(kw)


def tolerated(fn, log, tag):
    """A step the user may legitimately get refused (ValueError / TypeError): note it and go on."""
    try:
        return fn()
    except ValueError:
        log.append([tag, 1]); return None
    except TypeError:
        log.append([tag, 2]); return None


def mock_reg_cls():
    from amaranth import Module
    from amaranth.lib import wiring
    from amaranth.lib.wiring import Out, In
    from amaranth_soc import csr

    class Reg(wiring.Component):
        def __init__(self, w, access, flow=Out):
            super().__init__({"element": flow(csr.Element.Signature(w, access))})

        def elaborate(self, platform):
            return Module()

    class NoElem(wiring.Component):
        def __init__(self):
            super().__init__({"foo": Out(1)})

        def elaborate(self, platform):
            return Module()
    return Reg, NoElem


def build_mux(cfg):
    from amaranth.lib.wiring import In
    from amaranth_soc import csr
    from amaranth_soc.memory import MemoryMap
    Reg, NoElem = mock_reg_cls()
    if cfg["bad"] == "notmap":
        return Built(csr.Multiplexer("not a map", shadow_overlaps=cfg["ov"]))
    mm = MemoryMap(addr_width=cfg["aw"], data_width=cfg["dw"])
    regs = []
    for i, (s, e, w, rd, wr) in enumerate(cfg["regs"]):
        r = Reg(w, ("r" if rd else "") + ("w" if wr else ""))
        got = mm.add_resource(r, name=(f"r{i}",), addr=s, size=e - s)
        assert got == (s, e), (got, s, e)
        regs.append(r)
    if cfg["bad"] == "windows":
        mm2 = MemoryMap(addr_width=cfg["aw"] + 1, data_width=cfg["dw"])
        mm2.add_window(mm)
        mm = mm2
    elif cfg["bad"] == "noelement":
        mm2 = MemoryMap(addr_width=cfg["aw"] + 1, data_width=cfg["dw"])
        for r, n, (a, b) in mm.resources():
            mm2.add_resource(r, name=n, addr=a, size=b - a)
        mm2.add_resource(NoElem(), name=("zz",), size=1)
        mm = mm2
    elif cfg["bad"] == "inelement":
        mm2 = MemoryMap(addr_width=cfg["aw"] + 1, data_width=cfg["dw"])
        mm2.add_resource(Reg(8, "rw", flow=In), name=("zz",), size=1)
        mm = mm2
    mux = csr.Multiplexer(mm, shadow_overlaps=cfg["ov"])
    return Built(mux, extra=regs, regs=regs)


def mm_of(aw, dw):
    from amaranth_soc.memory import MemoryMap
    return MemoryMap(addr_width=aw, data_width=dw)


def build_csrdec(cfg, log=None):
    from amaranth_soc import csr
    log = [] if log is None else log
    dec = csr.Decoder(addr_width=cfg["aw"], data_width=cfg["dw"], alignment=cfg["align"])
    subs = []
    res = []
    for i, sc in enumerate(cfg["subs"]):
        if sc["iface"]:
            sb = csr.Interface(addr_width=sc["aw"], data_width=sc["dw"], path=(f"s{i}",))
            sb.memory_map = mm_of(sc["aw"], sc["dw"])
        else:
            sb = object()
        name = tuple(sc["name"]) if isinstance(sc["name"], list) else sc["name"]

        def step():
            if sc["align_to"] is not None:
                dec.align_to(sc["align_to"])
            return dec.add(sb, name=name, addr=sc["addr"])
        n0 = len(log)
        r = tolerated(step, log, f"add{i}")
        if r is None:
            res.append([log[n0][1]])
        else:
            res.append([0, int(r[0]), int(r[1])])
            subs.append(sb)
    b = Built(dec, extra=subs, res=res, log=log)
    placed = [r for r in res if r[0] == 0]
    if placed:
        def poke():
            # a call that is refused between two elaborations (a new subordinate aimed at an occupied address)
            late = csr.Interface(addr_width=1, data_width=cfg["dw"], path=("late",))
            late.memory_map = mm_of(1, cfg["dw"])
            dec.add(late, name="late", addr=placed[0][1])
        b.poke = poke
    return b


def fill_csrdec(cfg):
    """Record what the real add() calls returned (window ranges are the memory map's business, C02)."""
    try:
        b = build_csrdec(cfg)
        cfg["res"] = b.res
    except Exception:
        cfg.pop("res", None)


def mk_shape(sh):
    from . import action as A
    if sh["t"] in ("u", "s", "enum", "flag"):
        return A.mk_shape(sh)
    if sh["t"] == "int":
        return sh["w"]
    if sh["t"] == "range":
        return range(sh["lo"], sh["hi"])
    v = sh["v"]
    return tuple(v) if isinstance(v, list) else v


def mk_action_args(cfg):
    from amaranth_soc.csr import action
    cls = getattr(action, cfg["kind"])
    shape = mk_shape(cfg["shape"])
    kw = {}
    if cfg["kind"] in STORAGE and cfg["init"] is not None:
        kw["init"] = cfg["init"]
    return cls, shape, kw


def build_action(cfg):
    cls, shape, kw = mk_action_args(cfg)
    return Built(cls(shape, **kw))


_USER_RW = {}


def user_rw(spelling):
    """csr.FieldAction subclasses written the way gpio.Peripheral.Output._FieldAction is: the behaviour of
    action.RW plus one more input, with the extra members handed to FieldAction.__init__ as a dict, a tuple of
    pairs, a generator of pairs or a zip (the documented type is an iterable of pairs)."""
    if spelling not in _USER_RW:
        from amaranth import Module, Signal
        from amaranth.hdl import Shape
        from amaranth.lib.wiring import In, Out
        from amaranth_soc import csr

        class UserRW(csr.FieldAction):
            def __init__(self, shape, *, init=0):
                pairs = [("data", Out(shape)), ("poke", In(1))]
                members = [dict(pairs), tuple(pairs), (p for p in pairs), zip(*zip(*pairs))][spelling]
                super().__init__(shape, access="rw", members=members)
                self._storage = Signal(shape, init=init)

            def elaborate(self, platform):
                m = Module()
                with m.If(self.port.w_stb | self.poke):
                    m.d.sync += self._storage.eq(self.port.w_data)
                m.d.comb += [self.port.r_data.eq(self._storage), self.data.eq(self._storage)]
                return m
        _USER_RW[spelling] = UserRW
    return _USER_RW[spelling]


def mk_fields(spec):
    from amaranth_soc import csr
    t = spec[0]
    if t == "f":
        cls, shape, kw = mk_action_args(spec[1])
        key = len(repr(spec[1]))
        if spec[1]["kind"] == "RW" and key % 3 == 0 and not isinstance(shape, range):
            cls = user_rw(key // 3 % 4)       # a user-defined field action doing what RW does
        return csr.Field(cls, shape, **kw)
    if t == "d":
        return {k: mk_fields(v) for k, v in spec[1]}
    if t == "l":
        return [mk_fields(v) for v in spec[1]]
    return spec[1]


def mk_register(cfg):
    from amaranth_soc import csr
    return csr.Register(mk_fields(cfg["fields"]), access=cfg["access"])


def build_register(cfg):
    reg = mk_register(cfg)
    paths = ["__".join(str(k) for k in path) for path, _ in reg]
    b = Built(reg)
    b.info["joined"] = paths
    return b


def build_csrbridge(cfg, log=None):
    from amaranth_soc import csr
    from amaranth_soc.memory import MemoryMap
    log = [] if log is None else log
    if cfg["bad"] == "notmap":
        return Built(csr.Bridge(["x"]))
    bld = csr.Builder(addr_width=cfg["aw"], data_width=cfg["dw"], granularity=cfg["gran"])
    regs = []

    def run(ops):
        for op in ops:
            if op[0] == "add":
                r = tolerated(lambda: mk_register(op[2]), log, "reg")
                if r is None:
                    continue
                if tolerated(lambda: bld.add(op[1], r, offset=op[3]), log, "add") is not None:
                    regs.append(r)
            else:
                cm = bld.Cluster(op[1]) if op[0] == "cluster" else bld.Index(op[1])
                try:
                    cm.__enter__()
                except ValueError:
                    log.append([op[0], 1]); continue
                except TypeError:
                    log.append([op[0], 2]); continue
                try:
                    run(op[2])
                finally:
                    cm.__exit__(None, None, None)
    run(cfg["ops"])
    mm = bld.as_memory_map()
    if cfg["bad"] == "windows":
        mm2 = MemoryMap(addr_width=mm.addr_width + 1, data_width=mm.data_width)
        mm2.add_window(mm)
        mm = mm2
    elif cfg["bad"] == "notreg":
        Reg, _ = mock_reg_cls()
        mm2 = MemoryMap(addr_width=mm.addr_width + 1, data_width=mm.data_width)
        mm2.add_resource(Reg(8, "rw"), name=("zz",), size=1)
        mm = mm2
    br = csr.Bridge(mm)
    b = Built(br, log=log)
    names = [tuple(n) for _, n, _ in mm.resources()]
    b.info["names"] = names
    b.info["joined"] = ["__".join(str(p) for p in n) for n in names]
    return b


def mk_event_map(srcs):
    from amaranth_soc import event
    em = event.EventMap()
    objs = []
    for i, t in enumerate(srcs):
        s = event.Source(trigger=t, path=(f"s{i}",))
        em.add(s)
        objs.append(s)
        if i % 2:
            em.add(objs[i // 2])      # adding a source a second time is allowed and has no effect
    return em, objs


def build_monitor(cfg):
    from amaranth_soc import event
    if cfg["bad"] == "notmap":
        return Built(event.Monitor({"a": 1}, trigger=cfg["trigger"]))
    em, objs = mk_event_map(cfg["srcs"])
    return Built(event.Monitor(em, trigger=cfg["trigger"]), extra=objs)


def build_csrevent(cfg):
    from amaranth_soc.csr.event import EventMonitor
    if cfg["bad"] == "notmap":
        return Built(EventMonitor("x", trigger=cfg["trigger"], data_width=cfg["dw"], alignment=cfg["align"]))
    em, objs = mk_event_map(cfg["srcs"])
    kw = {}
    if cfg["name"] is not None:
        kw["name"] = cfg["name"]
    return Built(EventMonitor(em, trigger=cfg["trigger"], data_width=cfg["dw"], alignment=cfg["align"], **kw),
                 extra=objs)


def build_wbcsr(cfg):
    from amaranth.lib.wiring import flipped
    from amaranth_soc import csr
    from amaranth_soc.csr.wishbone import WishboneCSRBridge
    if cfg["bad"] == "notiface":
        return Built(WishboneCSRBridge(object(), data_width=cfg["dw"]))
    bus = csr.Interface(addr_width=cfg["caw"], data_width=cfg["cdw"], path=("csr",))
    bus.memory_map = mm_of(cfg["caw"], cfg["cdw"])
    kw = {}
    if cfg["dw"] is not None:
        kw["data_width"] = tuple(cfg["dw"]) if isinstance(cfg["dw"], list) else cfg["dw"]
    if cfg["name"] is not None:
        kw["name"] = tuple(cfg["name"]) if isinstance(cfg["name"], list) else cfg["name"]
    arg = flipped(bus) if cfg.get("flipped") else bus
    return Built(WishboneCSRBridge(arg, **kw), extra=[bus])


def mk_feats(f):
    return set(f) if isinstance(f, list) else f


def build_wbdec(cfg):
    from amaranth_soc import wishbone
    if "raw" in cfg:
        r = cfg["raw"]
        return Built(wishbone.Decoder(addr_width=r["aw"], data_width=r["dw"], granularity=r["g"],
                                      features=mk_feats(r["feat"]), alignment=r["align"]))
    from . import wbdec as W
    wb = W.build(cfg)
    b = Built(wb.dec, extra=[sb for _, sb in wb.subs])
    b.results = wb.results
    placed = [r for r in wb.results if r[0] == "ok"]
    if placed:
        def poke():
            # refused between two elaborations: a new subordinate aimed at an occupied address
            from amaranth_soc.memory import MemoryMap
            bus = wb.dec.bus
            late = wishbone.Interface(addr_width=1, data_width=bus.data_width, granularity=bus.granularity,
                                      path=("late",))
            late.memory_map = MemoryMap(addr_width=max(1, 1 + (bus.data_width // bus.granularity).bit_length() - 1),
                                        data_width=bus.granularity)
            wb.dec.add(late, name="late", addr=placed[0][1][0])
        b.poke = poke
    return b


def build_arbiter(cfg):
    from amaranth_soc import wishbone
    if "raw" in cfg:
        r = cfg["raw"]
        arb = wishbone.Arbiter(addr_width=r["aw"], data_width=r["dw"], granularity=r["g"], features=mk_feats(r["feat"]))
        intrs = []
        for i in range(r["intrs"]):
            it = object() if r["notiface"] else wishbone.Interface(
                addr_width=arb.bus.addr_width, data_width=arb.bus.data_width, granularity=arb.bus.granularity,
                features={"err", "rty"}, path=(f"i{i}",))
            arb.add(it)
            intrs.append(it)
        return Built(arb, extra=intrs)
    from . import arbiter as AR
    try:
        arb, intrs = AR.build(cfg)
    except AR.AddRefused as e:
        b = Built(None)
        b.add_refused = e.args[0]
        return b
    b = Built(arb, extra=intrs)
    b.poke = lambda: arb.add(object())        # refused (TypeError) between two elaborations
    return b


def build_sram(cfg):
    from . import sram as SR
    from amaranth_soc.wishbone.sram import WishboneSRAM
    return Built(WishboneSRAM(size=SR.py_arg(cfg["size"]), data_width=SR.py_arg(cfg["dw"]),
                              granularity=SR.py_arg(cfg["gran"]), writable=bool(cfg["wr"]), init=list(cfg["init"])))


def build_gpio(cfg):
    from amaranth_soc import gpio
    return Built(gpio.Peripheral(pin_count=cfg["pins"], addr_width=cfg["aw"], data_width=cfg["dw"],
                                 input_stages=cfg["stages"]))


def gen_nested(rnd, tier):
    return {"v": rnd.randrange(5), "aw": rnd.choice([3, 4, 5, 6]), "dw": rnd.choice([8, 16, 32]),
            "n": rnd.choice([1, 2, 3]), "named": rnd.randrange(2)}


def build_nested(cfg):
    """Components whose memory map is FROZEN when they are elaborated: a decoder below another decoder or below a
    Wishbone-CSR bridge, or one whose map the user froze.  Parent and children are submodules of one wrapper, so
    every elaboration of the wrapper elaborates all of them again."""
    from amaranth import Module
    from amaranth.lib import wiring
    from amaranth_soc import csr, wishbone
    from amaranth_soc.csr.wishbone import WishboneCSRBridge
    from amaranth_soc.wishbone.sram import WishboneSRAM

    class Wrap(wiring.Component):
        def __init__(self, parts):
            super().__init__({})
            self.parts = parts

        def elaborate(self, platform):
            m = Module()
            for i, p in enumerate(self.parts):
                m.submodules[f"p{i}"] = p
            return m
    v, aw, dw, n = cfg["v"], cfg["aw"], cfg["dw"], cfg["n"]
    nm = (lambda k: f"w{k}") if cfg["named"] else (lambda k: None)
    if v in (0, 2, 3):
        inners = []
        for k in range(n):
            inner = csr.Decoder(addr_width=aw, data_width=8)
            for j in range(2):
                sb = csr.Interface(addr_width=aw - 2, data_width=8, path=(f"s{k}_{j}",))
                sb.memory_map = mm_of(aw - 2, 8)
                inner.add(sb, name=f"leaf{j}")
            inners.append(inner)
        if v == 0:
            top = csr.Decoder(addr_width=aw + 2, data_width=8)
            for k, inner in enumerate(inners):
                top.add(inner.bus, name=nm(k) or f"d{k}")
            return Built(Wrap([top] + inners), extra=[top.bus])
        if v == 2:
            br = WishboneCSRBridge(inners[0].bus, data_width=dw)
            return Built(Wrap([br, inners[0]]), extra=[br.wb_bus])
        inners[0].bus.memory_map.freeze()                       # frozen by the user, elaborated stand-alone
        return Built(Wrap([inners[0]]), extra=[inners[0].bus])
    inners = []
    for k in range(n):
        inner = wishbone.Decoder(addr_width=aw, data_width=dw, granularity=8)
        ram = WishboneSRAM(size=(dw // 8) * 4, data_width=dw, granularity=8)
        inner.add(ram.wb_bus, name="ram")
        inners.append((inner, ram))
    if v == 1:
        top = wishbone.Decoder(addr_width=aw + 2, data_width=dw, granularity=8)
        for k, (inner, ram) in enumerate(inners):
            top.add(inner.bus, name=nm(k) or f"d{k}")
        return Built(Wrap([top] + [x for pr in inners for x in pr]), extra=[top.bus])
    inners[0][0].bus.memory_map.freeze()
    return Built(Wrap(list(inners[0])), extra=[inners[0][0].bus])


BUILDERS = {"nested": build_nested, "mux": build_mux, "csrdec": build_csrdec, "csrbridge": build_csrbridge, "register": build_register,
            "action": build_action, "monitor": build_monitor, "csrevent": build_csrevent, "wbcsr": build_wbcsr,
            "wbdec": build_wbdec, "arbiter": build_arbiter, "sram": build_sram, "gpio": build_gpio}


# ================================================================================================
# observation
# ================================================================================================

def ports_of(b):
    """Explicit port list: every signal reachable through the public signature of the component and of the
    interfaces handed to it; directions are inferred by Amaranth (DESIGN.md §6 N1)."""
    from amaranth.hdl import Value
    seen = {}
    for obj in [b.dut] + b.extra:
        sig = getattr(obj, "signature", None)
        if sig is None:
            continue
        for path, member, value in sig.flatten(obj):
            try:
                v = Value.cast(value)
            except Exception:
                continue
            seen.setdefault(id(v), v)
    return list(seen.values())


def snap_map(mm, depth=0):
    out = {"aw": mm.addr_width, "dw": mm.data_width, "al": mm.alignment,
           "res": [(id(r), tuple(n), a, e) for r, n, (a, e) in mm.resources()],
           "win": [(id(w), None if n is None else tuple(n), a, e, rt) for w, n, (a, e, rt) in mm.windows()]}
    # is the map still open to additions?  asked without changing it: a request that is refused either way --
    # ValueError from the frozen check that comes first, TypeError for the non-component otherwise
    try:
        mm.add_resource(object(), name="probe", size=1)
        out["open"] = "accepted an object that is not a component"
    except ValueError:
        out["open"] = False
    except TypeError:
        out["open"] = True
    except Exception as e:
        out["open"] = type(e).__name__
    if depth == 0:
        out["all"] = [(id(i.resource), tuple(tuple(p) for p in i.path), i.start, i.end, i.width)
                      for i in mm.all_resources()]
        out["pat"] = [(id(w), None if n is None else tuple(n), p, r) for w, n, (p, r) in mm.window_patterns()]
    return out


SCALARS = ("addr_width", "data_width", "granularity", "alignment", "size", "writable", "pin_count", "input_stages",
           "init", "features", "trigger", "access", "width", "shape")


def scalars(obj):
    out = {}
    for nm in SCALARS:
        try:
            v = getattr(obj, nm)
        except Exception:
            continue
        if callable(v):
            continue
        if hasattr(v, "__iter__") and not isinstance(v, (str, bytes)):
            try:
                v = sorted(map(repr, v)) if isinstance(v, (set, frozenset)) else list(map(repr, v))
            except Exception:
                v = repr(v)
        out[nm] = repr(v)
    return out


def snapshot(b):
    """Everything the user can read off the instance without elaborating it."""
    dut = b.dut
    snap = {"sig": repr(dut.signature), "self": scalars(dut)}
    from amaranth.hdl import Value
    try:
        snap["members"] = [(tuple(p), str(m.flow), len(Value.cast(v))) for p, m, v in dut.signature.flatten(dut)]
    except Exception as e:
        snap["members"] = "flatten raised " + type(e).__name__
    objs = [("dut", dut)]
    for nm in ("bus", "wb_bus", "csr_bus", "src", "element"):
        o = getattr(dut, nm, None)
        if o is not None:
            objs.append((nm, o))
    for k, o in enumerate(b.extra):
        objs.append((f"extra{k}", o))
    for nm, o in objs:
        if nm != "dut":
            snap[nm] = scalars(o)
            snap[nm + ".sig"] = repr(getattr(o, "signature", None))
        try:
            mm = o.memory_map
        except Exception:
            mm = None
        if mm is not None:
            snap[nm + ".map"] = snap_map(mm)
        try:
            em = o.event_map
        except Exception:
            em = None
        if em is not None:
            snap[nm + ".events"] = (em.size, [(id(s), i, repr(s.trigger)) for s, i in em.sources()])
    return snap


def snap_diff(a, b):
    for k in sorted(set(a) | set(b)):
        if a.get(k) != b.get(k):
            return f"{k}: {str(a.get(k))[:160]} -> {str(b.get(k))[:160]}"
    return None


SHADOW_RE = re.compile(r"^([rw])_shadow__(\d+)__data$")


def shadow_chunks(frag):
    """Shadow chunk offsets of a multiplexer in creation order, read off the elaborated design
    (signals r_shadow__<offset>__data / w_shadow__<offset>__data assigned in the fragment)."""
    found = {"r": [], "w": []}
    seen = set()

    def walk(f):
        for dom, stmts in f.statements.items():
            for st in stmts:
                for s in st._lhs_signals():
                    m = SHADOW_RE.match(s.name)
                    if m and id(s) not in seen:
                        seen.add(id(s))
                        found[m.group(1)].append(int(m.group(2)))
        for sub, *_ in f.subfragments:
            if hasattr(sub, "statements"):
                walk(sub)
    walk(frag)
    return found["r"], found["w"]


def has_negative_enum(x):
    """Amaranth 0.5.10's RTLIL back end cannot emit a signal shaped by an enumeration with a negative member
    (amaranth/back/rtlil.py emit_signal_wires -> to_binary: "-112 does not fit in 8 bits"), whatever the design;
    for such shapes the netlist text is compared instead of the RTLIL text."""
    if isinstance(x, dict):
        if x.get("t") == "enum" and x.get("members") and min(x["members"]) < 0:
            return True
        return any(has_negative_enum(v) for v in x.values())
    if isinstance(x, list):
        return any(has_negative_enum(v) for v in x)
    return False


def exc_info(e):
    return [type(e).__name__, str(e)[:200]]


def run_impl(case):
    """Observation dict (not compared as such): 'refused' (None | [class, message]), 'elabs' (one record per
    elaboration: ok / exception / sha1 of the RTLIL text / seconds), 'meta' (first metadata difference or None),
    'cmp' (the part compared with the model, see canon)."""
    from amaranth.hdl import Fragment, _ir
    from amaranth.back import rtlil
    kind, cfg = case["kind"], case["cfg"]
    fallback = has_negative_enum(cfg) or bool(case.get("light"))
    cls = CLS[kind]
    o = {"cls": cls, "pred": case["pred"], "refused": None, "elabs": [], "meta": None, "info": {}, "log": [],
         "timeout": None}
    t0 = time.time()
    try:
        with limit():
            b = BUILDERS[kind](cfg)
    except _Timeout:
        o["timeout"] = "constructor"
        o["refused"] = ["Timeout", f"constructor exceeded {LIMIT_S} s"]
        o["cmp"] = [cls, 9]
        return o
    except Exception as e:
        o["refused"] = exc_info(e)
        code = 1 if isinstance(e, ValueError) else 2 if isinstance(e, TypeError) else \
            3 if (isinstance(e, AttributeError) and PIN_MSG in str(e)) else 9
        o["cmp"] = [cls, code]
        return o
    o["ctor_s"] = round(time.time() - t0, 3)
    if getattr(b, "add_refused", None) is not None:      # Arbiter.add() said ValueError
        o["refused"] = ["ValueError", f"Arbiter.add #{b.add_refused}"]
        o["cmp"] = [cls, -2, b.add_refused]
        return o
    o["log"] = getattr(b, "log", [])
    o["info"] = {k: v for k, v in b.info.items() if k == "joined"}
    o["info"]["missing"] = []
    ports = ports_of(b)
    snap0 = snapshot(b)
    texts = []
    per = []
    for k in range(K_ELAB):
        rec = {"ok": False}
        t1 = time.time()
        try:
            with limit():
                frag = Fragment.get(b.dut, None)
                rec["stage"] = "netlist"
                if fallback:
                    text = repr(_ir.build_netlist(frag, ports=ports, name="top"))
                else:
                    text, _ = rtlil.convert_fragment(frag, ports=ports, name="top", emit_src=False)
            rec["ok"] = True
            rec["sha"] = hashlib.sha1(text.encode()).hexdigest()
            rec["len"] = len(text)
            texts.append(text)
            if kind == "mux":
                per.append(mux_state(b, frag))
            elif kind in ("csrbridge", "register") and k == 0:
                o["info"]["subnames"] = [nm for _, nm, *_ in frag.subfragments]
                # every register of the map (and the multiplexer) / every field must itself be a submodule
                origins = {id(sub.origins[0]) for sub, *_ in frag.subfragments if getattr(sub, "origins", None)}
                if kind == "csrbridge":
                    want = [("multiplexer", b.dut._mux)] + [("register " + "/".join(map(str, n)), r)
                                                             for r, n, _ in b.dut.bus.memory_map.resources()]
                else:
                    want = [("field " + "/".join(map(str, p)), f) for p, f in b.dut]
                o["info"]["missing"] = [nm for nm, obj in want if id(obj) not in origins]
        except _Timeout:
            rec["exc"] = ["Timeout", f"elaboration exceeded {LIMIT_S} s"]
            o["timeout"] = f"elaboration {k + 1}"
        except Exception as e:
            rec["exc"] = exc_info(e)
        rec["s"] = round(time.time() - t1, 3)
        o["elabs"].append(rec)
        if k == 0 and getattr(b, "poke", None) is not None:
            # "every elaboration yields the same hardware": also when a call was refused in between
            try:
                b.poke()
                o["log"] = list(o["log"]) + [["poke", 0]]
            except (ValueError, TypeError):
                pass
        if o["meta"] is None:
            try:
                d = snap_diff(snap0, snapshot(b))
            except Exception as e:
                d = "snapshot raised " + type(e).__name__ + ": " + str(e)[:120]
            if d is not None:
                o["meta"] = f"after elaboration {k + 1}: {d}"
        if not rec["ok"]:
            break
    if len(texts) >= 2:
        for k in range(1, len(texts)):
            if texts[k] != texts[0]:
                la, lb = texts[0].splitlines(), texts[k].splitlines()
                j = next((i for i, (x, y) in enumerate(zip(la, lb)) if x != y), min(len(la), len(lb)))
                o["rtlil_diff"] = [k + 1, j, la[j][:120] if j < len(la) else "<end>", lb[j][:120] if j < len(lb) else "<end>"]
                break
    if kind == "mux":
        o["info"]["rd_span"] = sum(e - s for s, e, w, rd, wr in cfg["regs"] if rd)
    o["cmp"] = cmp_accepted(kind, cfg, b, o, per)
    return o


def mux_state(b, frag):
    r, w = shadow_chunks(frag)
    return [b.dut._r_shadow.size, b.dut._w_shadow.size, r, w]


def all_ok(o):
    return len(o["elabs"]) == K_ELAB and all(r["ok"] for r in o["elabs"])


def cmp_accepted(kind, cfg, b, o, per):
    cls = CLS[kind]
    if not o["pred"]:
        return [cls]
    ok = int(all_ok(o))
    if kind == "mux":
        return [cls, 0, per]
    if kind == "csrdec":
        return [cls, [r[:1] for r in b.res], ok]
    if kind in ("csrbridge", "register"):
        return [cls, 0, [[-1] if nm is None else [ord(c) for c in nm] for nm in o["info"].get("subnames", [])] if ok else -1,
                len(o["info"].get("missing", []))]
    if kind == "wbdec":
        return [cls, [0 if r[0] == "ok" else 2 for r in b.results], ok]
    return [cls, 0]


def canon(o):
    return o["cmp"] if o["pred"] else [o["cls"]]


# ================================================================================================
# model side
# ================================================================================================

def enc_name(n):
    return [[0] + [ord(c) for c in p] if isinstance(p, str) else [1, p] for p in n]


def to_model(case):
    kind, cfg = case["kind"], case["cfg"]
    cls = CLS[kind]
    if not case["pred"]:
        return [cls, 0, []]
    if kind == "mux":
        flags = [int(cfg["bad"] != "notmap"), int(cfg["bad"] == "windows"), int(cfg["bad"] in ("noelement", "inelement"))]
        return [cls, 1, [flags, cfg["regs"], [] if cfg["ov"] is None else [cfg["ov"]], K_ELAB]]
    if kind == "csrdec":
        adds = []; wins = []
        for sc, r in zip(cfg["subs"], cfg["res"]):
            adds.append([sc["iface"], sc["dw"], int(r[0] == 0)])
            if r[0] == 0:
                wins.append([sc["aw"], r[1], r[2]])
        return [cls, 1, [cfg["aw"], cfg["dw"], adds, wins]]
    if kind == "csrbridge":
        return [cls, 1, [cfg["names"]]]
    if kind == "register":
        return [cls, 1, [cfg["paths"]]]
    if kind == "wbcsr":
        return [cls, 1, [cfg["caw"], cfg["cdw"], [] if cfg["dw"] is None else [cfg["dw"]]]]
    if kind == "wbdec":
        from . import wbdec as W
        m = W.to_model({"cfg": cfg, "stim": []})
        return [cls, 1, [m[0], m[1]]]
    if kind == "arbiter":
        from . import arbiter as AR
        return [cls, 1, [AR.to_model({"cfg": cfg, "stim": []})[0]]]
    if kind == "sram":
        from . import sram as SR
        c = cfg
        return [cls, 1, [SR.sx_arg(c["size"]), SR.sx_arg(c["dw"]), SR.sx_arg(c["gran"]), c["wr"], c["init"]]]
    return [cls, 0, []]


def names_of_ops(cfg):
    """Names of the registers the real csr.Builder accepted, in memory-map order (the builder and the memory
    map are C17 / C02's business; only the name joining is modelled here)."""
    try:
        b = build_csrbridge(cfg)
        return [enc_name(n) for n in b.info["names"]]
    except Exception:
        return None


def paths_of_register(cfg):
    """Field paths of the register as the real constructor flattens them (C11's business); only the
    submodule naming is modelled here."""
    try:
        return [enc_name(path) for path, _ in mk_register(cfg)]
    except Exception:
        return None


def from_model(res):
    return res


# ================================================================================================
# oracle, evidence helpers
# ================================================================================================

def oracle(case, o):
    """C19 restated over what the implementation did: a refusal is ValueError / TypeError (or the test-pinned
    AttributeError of csr.Multiplexer._check_memory_map); an accepted instance elaborates K_ELAB times without
    any exception and within the time limit, to identical RTLIL, with unchanged metadata."""
    out = []
    kind = case["kind"]
    if o["timeout"] is not None:
        out.append(("C19", o["timeout"], f"time limit of {LIMIT_S} s exceeded in {o['timeout']}"))
    if o["refused"] is not None:
        nm, msg = o["refused"]
        pinned = nm == "AttributeError" and kind == "mux" and PIN_MSG in msg
        if nm not in ("ValueError", "TypeError", "Timeout") and not pinned:
            out.append(("C19", "constructor", f"{kind} refused its arguments with {nm}: {msg}"))
        return out
    for st, code in o["log"]:
        pass                          # tolerated ValueError / TypeError of add() steps; anything else propagated
    for k, rec in enumerate(o["elabs"]):
        if not rec["ok"] and rec.get("exc") and rec["exc"][0] != "Timeout":
            nm, msg = rec["exc"]
            key = None
            if nm == "RecursionError" and kind == "mux" and o["info"].get("rd_span", 0) >= 400:
                key = "K2-recursion-depth"
            j = o["info"].get("joined", [])
            if nm == "NameError" and "Submodule named" in msg and len(set(j)) < len(j):
                key = "submodule-name-collision"
            out.append(("C19", f"elaboration {k + 1}",
                        f"accepted {kind} raised {nm} in elaboration {k + 1} ({rec.get('stage', 'elaborate')}): {msg}", key))
    if o["info"].get("missing"):
        out.append(("C19", "elaboration 1", f"accepted {kind} elaborated WITHOUT its {o['info']['missing'][0]} "
                                            f"(not the origin of any submodule of the design)"))
    if "rtlil_diff" in o:
        k, j, x, y = o["rtlil_diff"]
        out.append(("C19", f"elaboration {k}", f"RTLIL of elaboration {k} differs from the first at line {j}: {x!r} vs {y!r}"))
    if o["meta"] is not None:
        out.append(("C19", "metadata", f"metadata changed {o['meta']}"))
    return out


def size_of(case):
    cfg = case["cfg"]
    k = case["kind"]
    if k == "mux":
        return len(cfg["regs"])
    if k == "csrdec":
        return len(cfg["subs"])
    if k in ("monitor", "csrevent"):
        return len(cfg["srcs"])
    if k in ("wbdec", "arbiter"):
        return 0 if "raw" in cfg else len(cfg.get("subs", cfg.get("intrs", [])))
    if k == "gpio":
        return cfg["pins"] if isinstance(cfg["pins"], int) else 0
    return 1


def nontrivial(case, o):
    """accepted, >= 1 register / window / initiator / source / pin / field, three elaborations produced RTLIL;
    or a refused argument combination"""
    if o["refused"] is not None:
        return True
    return all_ok(o) and size_of(case) >= 1 and all(r.get("len", 0) > 0 for r in o["elabs"])


def stats(case, o):
    k = case["kind"]
    st = {f"{k}.cases": 1}
    if o["refused"] is not None:
        st[f"{k}.refused.{o['refused'][0]}"] = 1
    elif all_ok(o):
        st[f"{k}.elaborated3"] = 1
        st["rtlil_bytes"] = sum(r["len"] for r in o["elabs"])
    if o["pred"]:
        st["with_model_prediction"] = 1
    if k == "mux" and o["refused"] is None:
        st["mux.ov." + str(case["cfg"]["ov"])] = 1
    st["tolerated_step_refusals"] = len(o.get("log", []))
    return st


def describe(case):
    d = {"engine": "elab", "kind": case["kind"], "sub": case.get("sub"), "pred": case["pred"]}
    s = repr(case["cfg"])
    d["cfg"] = case["cfg"] if len(s) < 400 else s[:400] + "..."
    return d


LISTS = {"mux": "regs", "csrdec": "subs", "monitor": "srcs", "csrevent": "srcs", "csrbridge": "ops"}


def shrink(case, fails):
    """Greedy: drop registers / windows / sources / builder operations while the breach remains."""
    key = LISTS.get(case["kind"])
    if not key or not isinstance(case["cfg"].get(key), list):
        return case
    best = case
    budget = 40
    deadline = time.time() + 25
    changed = True
    while changed and budget > 0 and time.time() < deadline:
        changed = False
        items = best["cfg"][key]
        step = max(1, len(items) // 2)
        while step >= 1 and budget > 0 and time.time() < deadline:
            i = 0
            while i < len(best["cfg"][key]) and budget > 0 and time.time() < deadline:
                items = best["cfg"][key]
                c = dict(best); c["cfg"] = dict(best["cfg"]); c["cfg"][key] = items[:i] + items[i + step:]
                if case["kind"] == "csrdec":
                    fill_csrdec(c["cfg"])
                    c["pred"] = int(well_typed("csrdec", c["cfg"]))
                budget -= 1
                if fails(c):
                    best = c; changed = True
                else:
                    i += step
            step //= 2
    return best
