"""Engine `builder` (C17): real csr.Builder objects holding real csr.Register instances vs Model/Builder.v.

A case is a builder geometry, a pool of registers (element widths) and a tree-shaped history of calls:
add / with Cluster / with Index / freeze / as_memory_map.  Every call is observed individually
(exception class or success); every as_memory_map() result is queried completely: geometry of the
returned map, resources(), all_resources() and a probe add_resource() showing whether it is frozen."""
import warnings
warnings.simplefilter("ignore")
from ..common import mkrnd

ENGINE_ID = 17
N = {"quick": 1500, "thorough": 120000}
RULE = ("random csr.Builder histories: aw 1-8, dw in {7,8,16,24,32}, granularity any divisor (3% invalid geometry), "
        "0-10 real csr.Register objects of width 0..4*dw+3, ~40% explicit offsets (slots after the cursor, touching, "
        "overlapping, at the top of the address space, non-multiples, negative, non-int), Cluster/Index nesting <= 3 from a "
        "collision-prone name pool, duplicate adds, adds after freeze, 1-3 as_memory_map calls; kinds valid/mixed/tight/"
        "names/wild, plus kind small = the enumeration of all sequences of <= 2 adds over 4 widths x 6 offsets x 3 names "
        "at aw 2, dw 8, granularity 4 (5256 cases: walked completely by the thorough tier, sampled by quick); non-trivial = accepted geometry, >= 2 accepted registers and an as_memory_map call that returns "
        "a map with >= 2 resources or refuses the layout; distinct by hash of the case")
EXC = {"ValueError": 1, "TypeError": 2, "KeyError": 3, "AssertionError": 4}
NAMES = ["a", "b", "ab", "c", "0", "1", "reg", "x"]
DWS = [7, 8, 16, 24, 32]
PROBE = "__probe__"


def isint(v):
    """What `isinstance(v, int)` says: bools are ints."""
    return isinstance(v, int)


def ceil_log2(n):
    return 0 if n <= 1 else (n - 1).bit_length()


# ----------------------------------------------------------------------------- generation

def divisors(n):
    return [d for d in range(1, n + 1) if n % d == 0]


def gen_width(rnd, dw):
    r = rnd.random()
    if r < 0.55:
        return rnd.choice([0, 1, dw - 1, dw, dw, dw + 1, 2 * dw, 2 * dw, 2 * dw + 1, 3 * dw, 3 * dw + 1, 4 * dw,
                           4 * dw + 1, 4 * dw + 3])
    if r < 0.8:
        return rnd.randint(1, dw)
    return rnd.randint(0, 4 * dw + 3)


# small scope, enumerated: aw 2, dw 8, granularity 4 (two granules per word); every sequence of <= 2 adds
# over SMALL_W x SMALL_OFF x SMALL_NAME followed by as_memory_map (5256 cases), then random longer ones
SMALL_W = [0, 8, 9, 17]
SMALL_OFF = [None, 0, 2, 3, 4, 6]
SMALL_NAME = ["a", "b", "a/b"]
SMALL_LETTERS = [(w, o, n) for w in SMALL_W for o in SMALL_OFF for n in SMALL_NAME]
SMALL_TOTAL = len(SMALL_LETTERS) + len(SMALL_LETTERS) ** 2


def small_case(k, rnd):
    L = len(SMALL_LETTERS)
    if k < L:
        seq = [k]
    elif k < SMALL_TOTAL:
        seq = list(divmod(k - L, L))
    else:
        seq = [rnd.randrange(L) for _ in range(rnd.choice([3, 3, 4]))]
    regs, ops = [], []
    for i, x in enumerate(seq):
        w, off, n = SMALL_LETTERS[x]
        regs.append({"w": w, "shape": "r"})
        if n == "a/b":
            ops.append(["cluster", "a", [["add", "b", i, off]]])
        else:
            ops.append(["add", n, i, off])
    ops.append(["map"])
    return {"engine": "builder", "kind": "small", "cfg": {"aw": 2, "dw": 8, "g": 4}, "regs": regs, "ops": ops}


def gen_case(seed, tier, idx):
    rnd = mkrnd(seed, "builder", idx)
    kind = ["valid", "mixed", "tight", "names", "wild", "small", "mixed"][idx % 7]
    if idx % 21 == 3:
        kind = "digits"     # Index(n) next to Cluster(str(n)): names that differ only in the type of a part
    if kind == "small":
        # thorough walks the enumeration in order (complete for <= 2 adds); quick samples it
        return small_case(idx // 7 if tier == "thorough" else rnd.randrange(SMALL_TOTAL + 800), rnd)
    dw = rnd.choice(DWS)
    g = rnd.choice(divisors(dw))
    if kind == "tight":
        aw = rnd.choice([1, 1, 2, 2, 3, 3, 4])
    elif kind == "valid":
        aw = rnd.choice([4, 5, 6, 7, 8, 8])
    else:
        aw = rnd.randint(1, 8)
    if kind == "digits":
        aw = max(aw, 6)
    cfg = {"aw": aw, "dw": dw, "g": g}
    if rnd.random() < 0.03:
        k, v = rnd.choice([("aw", 0), ("aw", -1), ("aw", "x"), ("aw", None), ("dw", 0), ("dw", "x"), ("g", 0),
                           ("g", -8), ("g", "x"), ("g", None), ("g", dw + 1), ("g", 2 * dw), ("g", 3), ("g", 5),
                           ("aw", True)])
        cfg[k] = v
        if k == "g" and isint(v) and v > 0 and dw % v == 0:
            cfg[k] = dw + 1
    ratio = dw // g
    nreg = rnd.choice([0, 1, 2, 3, 3, 4, 4, 5, 6, 7, 8, 9, 10])
    if kind == "tight":
        nreg = rnd.choice([1, 2, 2, 3, 3, 4, 5])
    regs = []
    for _ in range(nreg):
        w = gen_width(rnd, dw)
        if kind == "tight" and rnd.random() < 0.6:
            w = rnd.choice([0, 1, dw, dw + 1, 2 * dw])
        regs.append({"w": w, "shape": rnd.choice(["r", "r", "rw", "two", "w"])})

    # generator's own rough view of the layout, used only to aim explicit offsets
    top = 1 << aw
    state = {"cur": 0, "placed": [], "frozen": False, "added": set(), "budget": 3}

    def span_of(k):
        n = max(-(-regs[k]["w"] // dw), 1)
        return 1 << ceil_log2(n)

    def gen_name(k):
        r = rnd.random()
        if r < 0.04 and kind != "valid":
            return rnd.choice([{"o": None}, {"o": 5}, "", {"o": ["a"]}, {"o": 1.5}])
        if kind == "names":
            return rnd.choice(NAMES[:4])
        if kind == "digits":
            return rnd.choice(["x", "x", "y", "a", "1"])
        if isinstance(k, int) and r < (0.97 if kind == "valid" else 0.6):
            return f"r{k}"                                      # unique unless the register is added twice
        return rnd.choice(NAMES)

    def gen_off(k):
        sp = span_of(k)
        cur = state["cur"]
        nxt = -(-cur // sp) * sp
        r = rnd.random()
        if kind == "valid":
            # a free, usually aligned slot at or after the cursor
            a = nxt + sp * rnd.choice([0, 0, 1, 2]) if r < 0.8 else cur + rnd.choice([0, 1])
            return a * ratio
        if r < 0.30:
            a = nxt + sp * rnd.choice([0, 0, 1, 2, 3])
        elif r < 0.42:
            a = cur + rnd.choice([0, 1, 2, 3])                 # touching / unaligned but free
        elif r < 0.60 and state["placed"]:
            s, e = rnd.choice(state["placed"])                 # aimed at an existing register
            a = rnd.choice([s, e - 1, e, s - 1, s - sp, s - sp + 1, max(s - 1, 0), e + 1])
        elif r < 0.75:
            a = rnd.choice([top - sp, top - sp + 1, top - sp - 1, top - 1, top, top + 1, top - 2 * sp])
        elif r < 0.85:
            a = rnd.randrange(top + 2)
        elif r < 0.89:
            return rnd.choice([-1, -ratio, -ratio * sp])
        elif r < 0.93:
            return rnd.choice(["x", "s", True, False])
        else:
            a = rnd.randrange(top)
            return a * ratio + (rnd.randrange(1, ratio) if ratio > 1 else 0)   # non-multiple when ratio > 1
        return a * ratio

    def note(k, off):
        """update the rough view after an add that probably succeeds"""
        sp = span_of(k)
        if off is None:
            s = -(-state["cur"] // sp) * sp
        elif isint(off) and off >= 0 and off % ratio == 0:
            s = off // ratio
        else:
            return
        state["placed"].append((s, s + sp))
        state["cur"] = s + sp
        state["added"].add(k)

    order = list(range(nreg))
    if rnd.random() < 0.3:
        rnd.shuffle(order)
    pending = list(order)

    def gen_add(depth, force=False):
        if pending and (kind == "valid" or rnd.random() < 0.93):
            k = pending.pop(0)
        elif not force and (kind == "valid" or rnd.random() < 0.6):
            return None                                         # nothing left to add
        elif nreg and rnd.random() < 0.8:
            k = rnd.randrange(nreg)                             # most likely a duplicate add
        else:
            k = {"o": rnd.choice(["obj", "none", "elem", "comp", "int"])}
        name = gen_name(k)
        pexp = {"valid": 0.4, "mixed": 0.45, "tight": 0.4, "names": 0.1, "wild": 0.5, "digits": 0.05}[kind]
        off = gen_off(k) if isinstance(k, int) and rnd.random() < pexp else None
        if isinstance(k, int) and isinstance(name, str) and name:
            note(k, off)
        return ["add", name, k, off]

    def gen_ops(depth, n):
        ops = []
        for _ in range(n):
            r = rnd.random()
            if (r < 0.62 and not (kind == "digits" and r < 0.4 and depth < 3)) or depth >= 3:
                ops.append(gen_add(depth))
            elif r < 0.92:
                inner = gen_ops(depth + 1, rnd.choice([0, 1, 1, 2, 2, 3]))
                if kind == "digits":
                    if rnd.random() < 0.6:
                        ops.append(["cluster", rnd.choice(["1", "1", "2", "x", "x"]), inner])
                    else:
                        ops.append(["index", rnd.choice([1, 1, 2]), inner])
                elif rnd.random() < 0.55:
                    nm = rnd.choice(NAMES[:5]) if rnd.random() < 0.94 or kind == "valid" else \
                        rnd.choice(["", {"o": None}, {"o": 3}])
                    ops.append(["cluster", nm, inner])
                else:
                    ix = rnd.choice([0, 0, 1, 1, 2, 7]) if rnd.random() < 0.94 or kind == "valid" else \
                        rnd.choice([-1, "x", None, True, "s"])
                    ops.append(["index", ix, inner])
            elif r < 0.95 and kind != "valid":
                ops.append(["freeze"])
            elif r < 0.97 and kind != "valid" and state["budget"] > 0:
                state["budget"] -= 1
                ops.append(["map"])
            else:
                ops.append(gen_add(depth))
        return [o for o in ops if o is not None]

    nops = max(nreg + rnd.choice([0, 0, 1, 2]), rnd.choice([0, 1, 2]))
    if kind == "digits" and nreg >= 3 and rnd.random() < 0.6:
        # a register and a cluster of the same name under Index(n), with names under Cluster(str(n)) (or the
        # other way round) in between: the two scopes are unrelated, the first pair collides
        n = rnd.choice([1, 2, 7])
        b = rnd.choice(["x", "a", "r"])
        sc = (lambda inner: ["index", n, inner]) if rnd.random() < 0.5 else (lambda inner: ["cluster", str(n), inner])
        other = (lambda inner: ["cluster", str(n), inner]) if sc(0)[0] == "index" else (lambda inner: ["index", n, inner])
        trio = [sc([["add", b, pending.pop(0), None]]),
                other([["cluster", b, [["add", rnd.choice(["a", "m", "y"]), pending.pop(0), None]]]]),
                sc([["cluster", b, [["add", rnd.choice(["b", "n", "z", "a"]), pending.pop(0), None]]]])]
        if rnd.random() < 0.3:
            trio[0], trio[2] = trio[2], trio[0]
        if rnd.random() < 0.2:
            trio[1], trio[2] = trio[2], trio[1]
        ops = trio + gen_ops(0, max(0, nops - 3))
    else:
        ops = gen_ops(0, nops)
    while pending and rnd.random() < 0.85:
        ops.append(gen_add(0))
    ops = [o for o in ops if o is not None]
    if rnd.random() < 0.1:
        ops.append(["freeze"])
    ops.append(["map"])
    r = rnd.random()
    if r < 0.25:
        ops.append(gen_add(0, True))                             # add after as_memory_map froze the builder
        if rnd.random() < 0.5:
            ops.append(["cluster", "z", [gen_add(1, True)]])
        ops.append(["map"])
    elif r < 0.35:
        ops.append(["map"])
    case = {"engine": "builder", "kind": kind, "cfg": cfg, "regs": regs, "ops": ops}
    if valid_geometry(cfg) == 0:
        case["ops"] = mark_propagating(case, rnd)
    return case


def mark_propagating(case, rnd):
    """About a third of the Cluster/Index blocks become *propagating* blocks: the first add() inside that must be
    refused is the last call of the block, and the harness lets that exception leave the `with` statement (it is
    caught right outside), as user code does - so the scope must be unwound by the context manager itself."""
    c = case["cfg"]
    ratio = int(c["dw"]) // int(c["g"])
    st = {"frozen": False, "ids": set()}

    def refused(op):
        _, name, k, off = op
        off = _pyarg(off); nm = _pyname(name)
        if not isinstance(k, int):
            return True
        if st["frozen"] or not (isinstance(nm, str) and nm):
            return True
        if off is not None and not (isint(off) and off >= 0):
            return True
        if off is not None and off % ratio:
            return True
        if k in st["ids"]:
            return True
        st["ids"].add(k)
        return False

    def walk(ops, prop):
        """returns (new ops, aborted?)"""
        out = []
        for op in ops:
            if op[0] == "add":
                out.append(op)
                if refused(op) and prop:
                    return out, True
            elif op[0] in ("cluster", "index"):
                arg = _pyname(op[1]) if op[0] == "cluster" else _pyarg(op[1])
                ok = (isinstance(arg, str) and bool(arg)) if op[0] == "cluster" else (isint(arg) and arg >= 0)
                if not ok:
                    out.append(op)
                    continue
                p2 = rnd.random() < 0.35
                inner, aborted = walk(op[2], p2)
                out.append([op[0], op[1], inner, "raise"] if (p2 and aborted) else [op[0], op[1], inner])
            else:
                if op[0] in ("freeze", "map"):
                    st["frozen"] = True
                out.append(op)
        return out, False
    return walk(case["ops"], False)[0]


# ----------------------------------------------------------------------------- model encoding

def _pyint(v):
    if v is None:
        return []
    if isinstance(v, int):
        return [int(v)]
    return 0


class Atoms:
    def __init__(self):
        self.d = {"": 0}

    def __call__(self, s):
        if s not in self.d:
            self.d[s] = len(self.d)
        return self.d[s]


def atoms_of(case):
    """Intern every string used as a name, in the order of a pre-order walk; then the probe name."""
    at = Atoms()

    def walk(ops):
        for op in ops:
            if op[0] == "add" and isinstance(op[1], str):
                at(op[1])
            elif op[0] == "cluster":
                if isinstance(op[1], str):
                    at(op[1])
                walk(op[2])
            elif op[0] == "index":
                walk(op[2])
    walk(case["ops"])
    at(PROBE)
    return at


def to_model(case):
    at = atoms_of(case)

    def rawstr(n):
        return [at(n)] if isinstance(n, str) else []

    def enc(ops):
        out = []
        for op in ops:
            if op[0] == "add":
                _, name, k, off = op
                reg = [k, case["regs"][k]["w"]] if isinstance(k, int) else []
                out.append([0, rawstr(name), reg, _pyint(_pyarg(off))])
            elif op[0] == "cluster":
                out.append([1, 0, rawstr(op[1]), enc(op[2])])
            elif op[0] == "index":
                out.append([1, 1, _pyint(_pyarg(op[1])), enc(op[2])])
            elif op[0] == "freeze":
                out.append([2])
            elif op[0] == "map":
                out.append([3])
        return out
    c = case["cfg"]
    return [[_pyint(_pyarg(c["aw"])), _pyint(_pyarg(c["dw"])), _pyint(_pyarg(c["g"]))], at(PROBE), enc(case["ops"])]


def from_model(res):
    return res


# ----------------------------------------------------------------------------- implementation

def _pyarg(v):
    if v == "x" and isinstance(v, str):
        return 1.5
    if v == "s" and isinstance(v, str):
        return "4"
    return v


def _pyname(n):
    return n if isinstance(n, str) else (tuple(n["o"]) if isinstance(n["o"], list) else n["o"])


def code(e):
    return EXC.get(type(e).__name__, 5)


def run_impl(case):
    from amaranth.lib import wiring
    from amaranth_soc import csr
    from amaranth_soc.csr import action

    class Probe(wiring.Component):
        def __init__(self):
            super().__init__({})

    def mkreg(r):
        w, shape = r["w"], r["shape"]
        if shape == "r":
            return csr.Register(csr.Field(action.R, w), access="r")
        if shape == "w":
            return csr.Register(csr.Field(action.W, w), access="w")
        if shape == "rw":
            return csr.Register(csr.Field(action.RW, w), access="rw")
        a = w // 3
        return csr.Register({"lo": csr.Field(action.RW, a), "hi": csr.Field(action.R, w - a)}, access="rw")

    c = case["cfg"]
    try:
        b = csr.Builder(addr_width=_pyarg(c["aw"]), data_width=_pyarg(c["dw"]), granularity=_pyarg(c["g"]))
    except Exception as e:
        return [[code(e)], []]
    at = atoms_of(case)
    regs = [mkreg(r) for r in case["regs"]]
    for r, d in zip(regs, case["regs"]):
        assert r.element.width == d["w"]
    ids = {id(r): k for k, r in enumerate(regs)}
    others = {"obj": object(), "none": None, "elem": csr.Element(8, "rw"), "comp": Probe(), "int": 3}

    def enc_name(nm):
        return [[0, at(p)] if isinstance(p, str) else [1, int(p)] for p in nm]

    def observe_map(m):
        rs = [[ids[id(r)], enc_name(nm), s, e] for r, nm, (s, e) in m.resources()]
        try:
            ar = [0, [[ids[id(i.resource)], [enc_name(p) for p in i.path], i.start, i.end, i.width]
                      for i in m.all_resources()]]
        except Exception as e:
            ar = [code(e)]
        try:
            s, e = m.add_resource(Probe(), name=PROBE, size=1)
            pr = [0, s, e]
        except Exception as e:
            pr = [code(e)]
        return [0, [m.addr_width, m.data_width, m.alignment], rs, ar, pr]

    def run(ops, out=None, prop=False):
        out = [] if out is None else out
        for op in ops:
            if op[0] == "add":
                _, name, k, off = op
                reg = regs[k] if isinstance(k, int) else others[k["o"]]
                try:
                    r = b.add(_pyname(name), reg, offset=_pyarg(off))
                    out.append([0 if r is reg else 6])
                except Exception as e:
                    out.append([code(e)])
                    if prop:                      # a propagating block: the exception leaves the `with` statement
                        e._verif_propagating = True
                        raise
            elif op[0] in ("cluster", "index"):
                entered = False
                body = []
                try:
                    cm = b.Cluster(_pyname(op[1])) if op[0] == "cluster" else b.Index(_pyarg(op[1]))
                    with cm:
                        entered = True
                        run(op[2], body, prop=(len(op) > 3 and op[3] == "raise"))
                    out.append([0, body, 0])
                except Exception as e:
                    if entered and getattr(e, "_verif_propagating", False) and len(op) > 3:
                        out.append([0, body, 0])  # the refused add() ended the block; caught right outside it
                    else:
                        out.append([0, body, code(e)] if entered else [code(e), [], 0])
            elif op[0] == "freeze":
                b.freeze()
                out.append([0])
            elif op[0] == "map":
                try:
                    m = b.as_memory_map()
                except Exception as e:
                    out.append([code(e)])
                    continue
                out.append(observe_map(m))
        return out
    if len(case["ops"]) % 2 == 0:
        return [[0], run(case["ops"])]
    # every other case: an unrelated second Builder has scopes open while this one is used, and is used itself from
    # within this one's scopes (a peripheral's builder inside a SoC builder's block); the two must not see each other
    other = csr.Builder(addr_width=8, data_width=8)
    with other.Cluster("bystander"):
        with other.Index(3):
            res = run(case["ops"])
            other.add("last", csr.Register(csr.Field(action.R, 8), access="r"))
    return [[0], res]


# ----------------------------------------------------------------------------- oracle (the property)

def valid_geometry(c):
    aw, dw, g = _pyarg(c["aw"]), _pyarg(c["dw"]), _pyarg(c["g"])
    for v in (aw, dw, g):
        if not isint(v) or v <= 0:
            return 2
    if dw % g:
        return 1
    return 0


def pow2_at_least(n):
    p = 1
    while p < n:
        p *= 2
    return p


def prefix(a, b):
    return len(a) <= len(b) and all(x == y and isinstance(x, str) == isinstance(y, str) for x, y in zip(a, b))


def closed_form(cfg, regs, added):
    """C17's placement rule.  `added` = [(reg index, full name, offset or None)] in insertion order.
    Returns ("ok", [(k, name, start, end)] in insertion order) or ("rejected", reason, index)."""
    aw, dw, g = int(cfg["aw"]), int(cfg["dw"]), int(cfg["g"])
    placed = []
    cur = 0
    for i, (k, name, off) in enumerate(added):
        w = regs[k]["w"]
        units = -(-w // dw)                          # ceil(width / data_width)
        span = pow2_at_least(max(units, 1))          # rounded up to a power of two
        if off is not None:
            if (off * g) % dw:
                return ("bad-offset", i)
            start = off * g // dw                    # exactly offset x granularity / data_width
        else:
            start = cur
            while start % span:                      # first address >= end of the previous register aligned to its size
                start += 1
        end = start + span
        if end > (1 << aw):
            return ("rejected", "overflows the address space", i)
        for (k2, n2, s2, e2) in placed:
            if start < e2 and s2 < end:
                return ("rejected", f"overlaps register {k2} at {s2}..{e2}", i)
            if prefix(name, n2) or prefix(n2, name):
                return ("rejected", f"name collides with {n2}", i)
        placed.append((k, name, start, end))
        cur = end
    return ("ok", placed)


def oracle(case, obs):
    """C17 restated over the implementation's own results: which calls must be refused, and what every
    as_memory_map() must return (closed-form layout, in address order, named by scope path) or refuse."""
    out = []
    c = case["cfg"]
    vg = valid_geometry(c)
    if (obs[0][0] == 0) != (vg == 0):
        out.append(("C17", "ctor", f"Builder{(c['aw'], c['dw'], c['g'])}: constructor result code {obs[0][0]}, "
                                     f"a valid geometry is {'accepted' if vg == 0 else 'refused'}"))
        return out
    if vg:
        return out
    aw, dw, g = int(c["aw"]), int(c["dw"]), int(c["g"])
    ratio = dw // g
    regs = case["regs"]
    st = {"frozen": False, "added": [], "ids": set()}
    at = atoms_of(case)
    inv = {v: k for k, v in at.d.items()}

    def dec_name(nm):
        # a string the case never used (a name part that leaked in from somewhere else) decodes to a placeholder
        return [inv.get(p[1], f"<foreign name part {p[1]}>") if p[0] == 0 else p[1] for p in nm]

    def walk(ops, obs, scope, where):
        if len(ops) != len(obs):
            out.append(("C17", where, "observation shape differs from the call tree"))
            return
        for j, (op, o) in enumerate(zip(ops, obs)):
            here = f"{where}/{j}:{op[0]}"
            if len(out) > 8:
                return
            if op[0] == "add":
                _, name, k, off = op
                off = _pyarg(off)
                nm = _pyname(name)
                if not isinstance(k, int):
                    exp = 2
                elif st["frozen"]:
                    exp = 1                                     # a frozen builder accepts no further registers
                elif not (isinstance(nm, str) and nm):
                    exp = 2
                elif off is not None and not (isint(off) and off >= 0):
                    exp = 2
                elif off is not None and off % ratio:
                    exp = 1                                     # offset is not a whole number of bus words
                elif k in st["ids"]:
                    exp = 1
                else:
                    exp = 0
                    st["ids"].add(k)
                    st["added"].append((k, list(scope) + [nm], None if off is None else int(off)))
                if o != [exp]:
                    why = "frozen builder" if (isinstance(k, int) and st["frozen"]) else "argument rule"
                    out.append(("C17", here, f"add({nm!r}, reg {k}, offset={off!r}) gave code {o}, required {[exp]} ({why})"))
                    return
            elif op[0] in ("cluster", "index"):
                arg = _pyname(op[1]) if op[0] == "cluster" else _pyarg(op[1])
                ok = (isinstance(arg, str) and bool(arg)) if op[0] == "cluster" else (isint(arg) and arg >= 0)
                if not ok:
                    if o != [2, [], 0]:
                        out.append(("C17", here, f"{op[0]}({arg!r}) gave {o[0]}, required TypeError and no block"))
                        return
                    continue
                if o[0] != 0 or o[2] != 0:
                    out.append(("C17", here, f"{op[0]}({arg!r}) raised (enter {o[0]}, exit {o[2]})"))
                    return
                walk(op[2], o[1], scope + [arg if op[0] == "cluster" else int(arg)], here)
            elif op[0] == "freeze":
                st["frozen"] = True
            elif op[0] == "map":
                st["frozen"] = True
                r = closed_form(c, regs, st["added"])
                if r[0] == "bad-offset":
                    out.append(("C17", here, f"an accepted offset is not a whole number of addresses (register #{r[1]})"))
                    return
                if r[0] == "rejected":
                    if o != [1]:
                        k, nm, off = st["added"][r[2]]
                        got = "a map" if o[0] == 0 else f"code {o}"
                        out.append(("C17", here, f"layout must be rejected with ValueError: register {k} {nm} (offset {off}) "
                                                 f"{r[1]}; as_memory_map returned {got}"
                                                 + (f" with resources {[(x[0], x[2], x[3]) for x in o[2]]}" if o[0] == 0 else "")))
                        return
                    continue
                placed = r[1]
                if o[0] != 0:
                    out.append(("C17", here, f"a legal layout {[(p[0], p[2], p[3]) for p in placed]} was refused with code {o}"))
                    return
                geom, rs, ar = o[1], o[2], o[3]
                if geom != [aw, dw, 0]:
                    out.append(("C17", here, f"returned map has geometry {geom}, builder has {[aw, dw, 0]}"))
                exp = sorted(([k, nm, s, e] for (k, nm, s, e) in placed), key=lambda x: x[2])
                got = [[x[0], dec_name(x[1]), x[2], x[3]] for x in rs]
                if got != exp:
                    bad = next((p for p in exp if p not in got), None)
                    msg = f"resources() {got} differ from the promised layout {exp}"
                    if bad is not None:
                        k, nm, s, e = bad
                        off = next(a[2] for a in st["added"] if a[0] == k)
                        msg = (f"register {k} {nm} width {regs[k]['w']} "
                               + (f"with explicit offset {off} must be at {s}..{e}" if off is not None
                                  else f"(implicit) must be at {s}..{e}")
                               + f"; resources() = {[(x[0], x[1], x[2], x[3]) for x in got]}")
                    out.append(("C17", here, msg))
                    return
                if ar[0] != 0 or [[x[0], [dec_name(p) for p in x[1]], x[2], x[3], x[4]] for x in ar[1]] != \
                        [[k, [nm], s, e, dw] for (k, nm, s, e) in exp]:
                    out.append(("C17", here, f"all_resources() {ar} does not report the layout {exp} with width {dw}"))
                    return
                if all(a[2] is None for a in st["added"]) and [x[0] for x in got] != [a[0] for a in st["added"]]:
                    out.append(("C17", here, "implicitly placed registers are not in insertion order"))
    walk(case["ops"], obs[1], [], "")
    return out


# ----------------------------------------------------------------------------- bookkeeping

def _maps(ops, obs):
    for op, o in zip(ops, obs):
        if op[0] == "map":
            yield o
        elif op[0] in ("cluster", "index") and o[0] == 0:
            yield from _maps(op[2], o[1])


def _adds(ops, obs):
    for op, o in zip(ops, obs):
        if op[0] == "add":
            yield op, o
        elif op[0] in ("cluster", "index") and o[0] == 0:
            yield from _adds(op[2], o[1])


def nontrivial(case, obs):
    """accepted geometry, >= 2 accepted registers, and an as_memory_map call that returns >= 2 resources or refuses"""
    if obs[0][0] != 0:
        return False
    ok = sum(1 for _, o in _adds(case["ops"], obs[1]) if o == [0])
    ms = list(_maps(case["ops"], obs[1]))
    return ok >= 2 and any((m[0] == 0 and len(m[2]) >= 2) or m[0] != 0 for m in ms)


def stats(case, obs):
    d = {"ctor_refused": 0, "adds": 0, "adds_ok": 0, "adds_ValueError": 0, "adds_TypeError": 0, "explicit_ok": 0,
         "scoped_ok": 0, "maps": 0, "maps_ok": 0, "maps_rejected": 0, "resources_reported": 0, "scopes_refused": 0}
    if obs[0][0] != 0:
        d["ctor_refused"] = 1
        return d

    def walk(ops, obs, depth):
        for op, o in zip(ops, obs):
            if op[0] == "add":
                d["adds"] += 1
                if o == [0]:
                    d["adds_ok"] += 1
                    d["explicit_ok"] += op[3] is not None
                    d["scoped_ok"] += depth > 0
                elif o == [1]:
                    d["adds_ValueError"] += 1
                elif o == [2]:
                    d["adds_TypeError"] += 1
            elif op[0] in ("cluster", "index"):
                if o[0] == 0:
                    walk(op[2], o[1], depth + 1)
                else:
                    d["scopes_refused"] += 1
            elif op[0] == "map":
                d["maps"] += 1
                if o[0] == 0:
                    d["maps_ok"] += 1
                    d["resources_reported"] += len(o[2])
                else:
                    d["maps_rejected"] += 1
    walk(case["ops"], obs[1], 0)
    return d


def describe(case):
    return {"engine": "builder", "kind": case["kind"], "cfg": case["cfg"], "reg_widths": [r["w"] for r in case["regs"]],
            "ops": case["ops"][:12], "n_ops": len(case["ops"])}


def shrink(case, fails):
    """Remove calls (anywhere in the tree) and unwrap blocks while the failure persists."""
    def variants(ops):
        for i in range(len(ops)):
            yield ops[:i] + ops[i + 1:]
            if ops[i][0] in ("cluster", "index"):
                yield ops[:i] + ops[i][2] + ops[i + 1:]
                for sub in variants(ops[i][2]):
                    yield ops[:i] + [[ops[i][0], ops[i][1], sub]] + ops[i + 1:]
    best = case
    changed = True
    rounds = 0
    while changed and rounds < 200:
        changed = False
        rounds += 1
        for ops in variants(best["ops"]):
            c = dict(best)
            c["ops"] = ops
            try:
                if fails(c):
                    best = c
                    changed = True
                    break
            except Exception:
                pass
    return best
