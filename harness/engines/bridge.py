"""Engine `bridge` (C10): csr.wishbone.WishboneCSRBridge vs Model/WbCsrBridge.v.

Pure bridge: the CSR side is a bare csr.Interface whose r_data the testbench drives (mock target).
A stimulus row is [cyc, stb, we, adr, sel, dat_w, r_data]; an observation row is
[ack, dat_r, csr.addr, csr.r_stb, csr.w_stb, csr.w_data]."""
from ..common import mkrnd
from .. import sim as S

ENGINE_ID = 10
RAW_COMPARE = True     # from_model is the identity: the model prints exactly the observation
N = {"quick": 400, "thorough": 3000}
RULE = ("streams: proto = protocol-abiding initiator (transfers held ratio+2 cycles, back-to-back / gaps / cyc-only / "
        "stb-only idles, every input random outside transfers), random = every input bit random each cycle, "
        "sticky = random with held values, exh = every (select mask, we) transfer of the geometry (sampled for "
        "ratio 8 in quick) plus every (cyc,stb)^3 continuation from every sequencer state, ctor = constructor "
        "arguments incl. refused ones.  About 30 % of the accepted cases assert the synchronous reset in 1-3 cycles: "
        "in protocol-abiding streams mostly inside a transfer (every offset, the cycle whose edge would register the "
        "acknowledge over-weighted), after which the initiator either re-issues the same request at once (request held "
        "through the reset) or drops it; in the other streams mostly while the sequencer is away from idle, half of the "
        "time with the inputs held.  Non-trivial: constructor accepted, >= 3 completed protocol-abiding "
        "transfers incl. a read and a write with a non-zero select mask.")
LEGAL = (8, 16, 32, 64)


# ------------------------------------------------------------------------------------------------
# configurations
# ------------------------------------------------------------------------------------------------
def legal_cfg(rnd, rmax=3):
    r = rnd.choice([x for x in (0, 1, 1, 2, 2, 2, 3, 3) if x <= rmax])
    cdw = rnd.choice([w for w in LEGAL if (w << r) <= 64])
    wdw = cdw << r
    aw = max(1, rnd.choice([r, r, r + 1, r + 2, rnd.randint(r, 6)]))
    dw_arg = None if (r == 0 and rnd.random() < 0.5) else wdw
    return {"caw": aw, "cdw": cdw, "dw": dw_arg}


def odd_cfg(rnd):
    """Constructor arguments concentrated on the refusal boundaries (some are legal)."""
    k = rnd.randrange(6)
    aw = rnd.randint(1, 6)
    if k == 0:     # CSR data width outside (8,16,32,64)
        cdw = rnd.choice([1, 4, 12, 24, 48, 128])
        return {"caw": aw, "cdw": cdw, "dw": rnd.choice([None, cdw, 2 * cdw, 32])}
    if k == 1:     # ratio not a power of two / zero / negative
        cdw = rnd.choice(LEGAL)
        return {"caw": aw, "cdw": cdw, "dw": rnd.choice([3 * cdw, 5 * cdw, 6 * cdw, cdw // 2, 0, -cdw, 7, cdw - 1])}
    if k == 2:     # power-of-two ratio but illegal Wishbone width
        cdw = rnd.choice(LEGAL)
        return {"caw": aw, "cdw": cdw, "dw": rnd.choice([cdw + 1, 2 * cdw + 3, 128, 256, 16 * cdw, cdw + cdw // 2])}
    if k == 3:     # CSR address narrower than the granule index
        cdw = rnd.choice([8, 8, 16, 32])
        wdw = rnd.choice([w for w in LEGAL if w > cdw])
        r = (wdw // cdw).bit_length() - 1
        return {"caw": rnd.randint(1, max(1, r)), "cdw": cdw, "dw": wdw}
    if k == 4:
        return {"caw": rnd.randint(1, 8), "cdw": rnd.choice(LEGAL), "dw": rnd.choice(LEGAL + (None,))}
    return {"caw": rnd.randint(1, 3), "cdw": rnd.choice([8, 16, 24, 64]), "dw": rnd.choice([8, 16, 24, 32, 48, 64, 96, None])}


def geometry(cfg):
    """(r, ratio, wb_aw, wb_dw) by the property's own reading, or None if the constructor must refuse."""
    cdw = cfg["cdw"]; wdw = cfg["dw"] if cfg["dw"] is not None else cdw
    if cdw not in LEGAL or wdw not in LEGAL or wdw < cdw:
        return None
    ratio = wdw // cdw
    r = ratio.bit_length() - 1
    if cfg["caw"] < r:
        return None
    return r, ratio, cfg["caw"] - r, wdw


# ------------------------------------------------------------------------------------------------
# stimulus
# ------------------------------------------------------------------------------------------------
def rand_row(rnd, g, cfg):
    r, ratio, wb_aw, wdw = g
    return [rnd.randrange(2), rnd.randrange(2), rnd.randrange(2), rnd.randrange(1 << wb_aw),
            rnd.randrange(1 << ratio), rnd.randrange(1 << wdw), rnd.randrange(1 << cfg["cdw"])]


def rand_sel(rnd, ratio):
    k = rnd.random()
    if k < 0.25:
        return (1 << ratio) - 1
    if k < 0.35:
        return 0
    if k < 0.5:
        return 1 << rnd.randrange(ratio)
    return rnd.randrange(1 << ratio)


def rand_data(rnd, w):
    k = rnd.random()
    if k < 0.1:
        return (1 << w) - 1
    if k < 0.15:
        return 0
    return rnd.randrange(1 << w)


def transfer_rows(rnd, g, cfg, we, adr, sel, dat_w, tail="hold"):
    """ratio+1 cycles with the request held, then the acknowledge cycle (request still held, or
    anything at all: the response is registered, the theorem says 'whatever the initiator does')."""
    r, ratio, wb_aw, wdw = g
    rows = []
    for i in range(ratio + 1):
        rows.append([1, 1, we, adr, sel, dat_w, rand_data(rnd, cfg["cdw"])])
    if tail == "hold":
        rows.append([1, 1, we, adr, sel, dat_w, rand_data(rnd, cfg["cdw"])])
    elif tail == "drop":
        x = rand_row(rnd, g, cfg); x[0] = 0; x[1] = 0
        rows.append(x)
    else:
        rows.append(rand_row(rnd, g, cfg))
    return rows


def idle_rows(rnd, g, cfg, n):
    rows = []
    style = rnd.randrange(4)   # 0: cyc=stb=0, 1: cyc only, 2: stb only, 3: mixed
    for _ in range(n):
        x = rand_row(rnd, g, cfg)
        s = style if style < 3 else rnd.randrange(3)
        x[0], x[1] = [(0, 0), (1, 0), (0, 1)][s]
        rows.append(x)
    return rows


def gen_proto(rnd, g, cfg, T):
    r, ratio, wb_aw, wdw = g
    stim = []
    b2b = rnd.choice([0.1, 0.5, 0.9])
    while len(stim) < T:
        if stim and rnd.random() < b2b:
            pass                                   # back-to-back: next request right after the ack cycle
        else:
            stim += idle_rows(rnd, g, cfg, rnd.choice([1, 1, 2, 3, rnd.randint(1, 8)]) if stim or rnd.random() < 0.7 else 0)
        adr = rnd.choice([0, (1 << wb_aw) - 1, rnd.randrange(1 << wb_aw)])
        stim += transfer_rows(rnd, g, cfg, rnd.randrange(2), adr, rand_sel(rnd, ratio), rand_data(rnd, wdw),
                              rnd.choice(["hold", "hold", "hold", "drop", "any"]))
    return stim[:T]


def ref_step(g, st, row):
    """Sequencer state (cycle, ack) after one clock.  Used ONLY by the generator, to steer the
    exhaustive sub-run back to idle; never by the oracle."""
    r, ratio, wb_aw, wdw = g
    cycle, ack = st
    ncycle, nack = cycle, ack
    if row[0] and row[1]:
        if cycle < ratio:
            ncycle = cycle + 1
        else:
            nack = 1
    if ack:
        ncycle, nack = 0, 0
    return ncycle, nack


def gen_exh(rnd, g, cfg, tier):
    """(a) one transfer per (select mask, we) -- every pair for ratio <= 4, 48 sampled pairs for
    ratio 8 in quick;  (b) from every sequencer state reached k cycles into a transfer
    (k = 0..ratio+1), every (cyc,stb)^3 continuation, then steer back to idle."""
    r, ratio, wb_aw, wdw = g
    stim = []
    pairs = [(s, w) for s in range(1 << ratio) for w in (0, 1)]
    if tier == "quick" and len(pairs) > 48:
        pairs = rnd.sample(pairs, 48)
    for (s, w) in pairs:
        stim += transfer_rows(rnd, g, cfg, w, rnd.randrange(1 << wb_aw), s, rand_data(rnd, wdw),
                              rnd.choice(["hold", "drop", "any"]))
        stim += idle_rows(rnd, g, cfg, rnd.choice([0, 0, 1, 2]))
    stim += idle_rows(rnd, g, cfg, 1)
    st = (0, 0)
    ks = list(range(ratio + 2))
    if tier == "quick" and ratio == 8:
        ks = rnd.sample(ks, 5)
    for k in ks:
        for combo in range(64):
            we, adr, sel, dw_ = rnd.randrange(2), rnd.randrange(1 << wb_aw), rand_sel(rnd, ratio), rand_data(rnd, wdw)
            seq = [[1, 1, we, adr, sel, dw_, rand_data(rnd, cfg["cdw"])] for _ in range(k)]
            for j in range(3):
                x = rand_row(rnd, g, cfg)
                x[0] = (combo >> (2 * j)) & 1; x[1] = (combo >> (2 * j + 1)) & 1
                seq.append(x)
            for x in seq:
                st = ref_step(g, st, x)
            # steer back to idle: hold a request until the acknowledge has been seen
            guard = 0
            while st != (0, 0) and guard < 3 * ratio + 8:
                x = [1, 1, we, adr, sel, dw_, rand_data(rnd, cfg["cdw"])]
                if st[1]:
                    x[0] = x[1] = 0
                seq.append(x); st = ref_step(g, st, x); guard += 1
            stim += seq
    return stim


def gen_resets_proto(rr, g, cfg, stim, limit):
    """stim[:limit] is protocol-abiding.  1-3 reset cycles, 3 out of 4 inside a complete transfer of that prefix
    (offset 0..ratio+1 from its start; offset ratio is the cycle whose clock edge would register the
    acknowledge, offset ratio+1 the acknowledge cycle), the others in idle cycles.  A transfer cut by a reset
    is never acknowledged; what the initiator does next is either the same request again, from the cycle after
    the reset (held through the reset, a complete new transfer), or nothing (it was reset too).  Either way
    the rest of the interrupted transfer is replaced, so that the stream stays protocol-abiding."""
    r_, ratio, wb_aw, wdw = g
    xf = [t0 for t0 in transfers({"stim": stim[:limit]}, g)[0] if t0 + ratio + 1 < limit - 1]
    busy = set()
    for t0 in xf:
        busy.update(range(t0, t0 + ratio + 2))
    idle = [t for t in range(1, limit - 1) if t not in busy]
    picks = {}
    for _ in range(rr.choice([1, 1, 2, 3])):
        if xf and rr.random() < 0.75:
            t0 = rr.choice(xf)
            if any(p[0] == t0 for p in picks.values()):
                continue
            k = rr.choice(list(range(ratio + 2)) + [ratio, ratio, max(0, ratio - 1)])
            picks[t0 + k] = (t0, k)
        elif idle:
            picks[rr.choice(idle)] = (None, None)
    deltas = []
    for pos in sorted(picks, reverse=True):
        t0, k = picks[pos]
        delta = 0
        if t0 is not None and k <= ratio:
            x = stim[t0]
            if rr.random() < 0.65:
                new = transfer_rows(rr, g, cfg, x[2], x[3], x[4], x[5], rr.choice(["hold", "hold", "drop", "any"]))
            else:
                new = idle_rows(rr, g, cfg, rr.choice([0, 1, 2]))
            old = t0 + ratio + 1 - pos
            stim[pos + 1:t0 + ratio + 2] = new
            delta = len(new) - old
        deltas.append((pos, delta))
    return [pos + sum(d for q, d in deltas if q < pos) for pos in sorted(picks)]


def gen_resets_free(rr, g, cfg, stim):
    """Streams that follow no protocol: 1-3 reset cycles, 7 out of 10 while the sequencer is away from idle
    (by the generator's reference stepping of the stream without resets), half of the time with every input of
    the reset cycle held for one more cycle (a row is inserted)."""
    T = len(stim)
    st = (0, 0); away = []
    for t, x in enumerate(stim):
        if 3 <= t < T - 3 and (st[0] > 0 or st[1]):
            away.append(t)
        st = ref_step(g, st, x)
    picks = set()
    for _ in range(rr.choice([1, 1, 2, 3])):
        picks.add(rr.choice(away if away and rr.random() < 0.7 else list(range(3, T - 3))))
    out, shift = [], 0
    for r in sorted(picks):
        r += shift
        out.append(r)
        if rr.random() < 0.5:
            stim.insert(r + 1, list(stim[r]))
            shift += 1
    return out


def gen_case(seed, tier, idx):
    case = gen_case_noreset(seed, tier, idx)
    g = geometry(case["cfg"])
    # mid-run synchronous resets come from a random stream of their own: the cases without one are exactly
    # those generated before resets existed
    rr = mkrnd(seed, "bridge-reset", idx)
    if g is not None and len(case["stim"]) > 20 and rr.random() < 0.3:
        stim = case["stim"]
        if case["kind"] in ("random", "sticky"):
            rs = gen_resets_free(rr, g, case["cfg"], stim)
        else:
            # proto / ctor: the whole stream; exh: the protocol-abiding first part (one transfer per
            # (select mask, we) pair -- a transfer cut by a reset is issued again or dropped), the
            # continuation part keeps starting from the sequencer states it was steered to
            stop = transfers({"stim": stim}, g)[1]
            rs = gen_resets_proto(rr, g, case["cfg"], stim, len(stim) if stop is None else stop)
        if rs:
            case["resets"] = rs
    return case


def gen_case_noreset(seed, tier, idx):
    rnd = mkrnd(seed, "bridge", idx)
    kind = ["proto", "random", "proto", "sticky", "proto", "exh", "proto", "ctor"][idx % 8]
    T = 300 if tier == "quick" else 500
    if kind == "ctor":
        cfg = odd_cfg(rnd)
        g = geometry(cfg)
        if g is None:
            return {"engine": "bridge", "kind": "ctor", "cfg": cfg, "stim": []}
        return {"engine": "bridge", "kind": "ctor", "cfg": cfg, "stim": gen_proto(rnd, g, cfg, 40)}
    cfg = legal_cfg(rnd, rmax=(2 if (kind == "exh" and tier == "quick" and rnd.random() < 0.7) else 3))
    g = geometry(cfg)
    if kind == "proto":
        stim = gen_proto(rnd, g, cfg, T)
    elif kind == "random":
        stim = [rand_row(rnd, g, cfg) for _ in range(T)]
        p = rnd.choice([0.5, 0.8, 0.95])          # bias cyc/stb up so that the sequencer moves
        for x in stim:
            x[0] = int(rnd.random() < p); x[1] = int(rnd.random() < p)
    elif kind == "sticky":
        stim = []; cur = None
        sticky = rnd.choice([0.1, 0.3, 0.6])
        for t in range(T):
            if cur is None or rnd.random() < sticky:
                cur = rand_row(rnd, g, cfg)
                if rnd.random() < 0.6:
                    cur[0] = cur[1] = 1
            x = list(cur); x[6] = rnd.randrange(1 << cfg["cdw"])
            stim.append(x)
    else:
        stim = gen_exh(rnd, g, cfg, tier)
    return {"engine": "bridge", "kind": kind, "cfg": cfg, "stim": stim}


# ------------------------------------------------------------------------------------------------
# model / implementation
# ------------------------------------------------------------------------------------------------
def to_model(case):
    cfg = case["cfg"]
    return [[cfg["caw"], cfg["cdw"], [] if cfg["dw"] is None else [cfg["dw"]]], case["stim"]]


def _segments(case):
    """[(first, last)] cycle ranges; a segment ends with the cycle in which the reset is asserted (a reset in the
    very last cycle has no observable consequence and is not applied)"""
    rs = sorted(set(r for r in case.get("resets", []) if 0 <= r < len(case["stim"]) - 1))
    out, a = [], 0
    for r in rs:
        out.append((a, r)); a = r + 1
    out.append((a, len(case["stim"]) - 1))
    return out


def _reset_cycles(case):
    return [b for (a, b) in _segments(case)[:-1]] if case["stim"] else []


def model_cases(case):
    """A mid-run synchronous reset starts the model again from its initial state: one model run per segment."""
    if not case["stim"]:
        return [to_model(case)]
    head = to_model(case)[0]
    return [[head, case["stim"][a:b + 1]] for (a, b) in _segments(case)]


def model_join(case, results):
    """refusal code / published geometry: constructor-level, from the first run; rows concatenated"""
    first = results[0]
    if not isinstance(first[0], list):          # [-2, code]
        return first
    rows = list(first[1])
    for r in results[1:]:
        rows += r[1]
    return [first[0], rows]


def build(cfg):
    from amaranth_soc import csr
    from amaranth_soc.memory import MemoryMap
    from amaranth_soc.csr.wishbone import WishboneCSRBridge
    bus = csr.Interface(addr_width=cfg["caw"], data_width=cfg["cdw"], path=("csr",))
    bus.memory_map = MemoryMap(addr_width=cfg["caw"], data_width=cfg["cdw"])
    try:
        if cfg["dw"] is None:
            dut = WishboneCSRBridge(bus)
        else:
            dut = WishboneCSRBridge(bus, data_width=cfg["dw"])
    except ValueError:
        return None, bus, 1
    except TypeError:
        return None, bus, 2
    return dut, bus, 0


def run_impl(case):
    cfg = case["cfg"]
    dut, bus, code = build(cfg)
    if dut is None:
        return [-2, code]
    wb = dut.wb_bus
    mm = wb.memory_map
    wins = list(mm.windows())
    if len(wins) != 1 or wins[0][0] is not bus.memory_map or list(mm.resources()):
        raise RuntimeError(f"unexpected published memory map: {wins!r}")
    (ws, we_, wr) = wins[0][2]
    nsel = len(wb.sel)
    geom = [nsel.bit_length() - 1 if nsel and not (nsel & (nsel - 1)) else -1,
            wb.addr_width, wb.data_width, wb.granularity, mm.addr_width, mm.data_width, ws, we_, wr]
    # the signal widths must be the published geometry
    if (len(wb.adr), len(wb.dat_w), len(wb.dat_r), nsel * wb.granularity, len(bus.addr), len(bus.w_data)) != \
       (wb.addr_width, wb.data_width, wb.data_width, wb.data_width, cfg["caw"], cfg["cdw"]):
        raise RuntimeError("port widths differ from the published geometry")
    ins = [wb.cyc, wb.stb, wb.we, wb.adr, wb.sel, wb.dat_w, bus.r_data]
    outs = [wb.ack, wb.dat_r, bus.addr, bus.r_stb, bus.w_stb, bus.w_data]
    rows = S.simulate(dut, ins, outs, case["stim"], reset_at=_reset_cycles(case))
    return [geom, rows]


def from_model(res):
    return res


# ------------------------------------------------------------------------------------------------
# oracle: C10 restated over implementation observations only
# ------------------------------------------------------------------------------------------------
def transfers(case, g):
    """Protocol reading of the stimulus (and of the cycles in which the reset is asserted) alone: the bridge
    is idle after power-on and after every reset; a transfer starts at the first cycle t0 with cyc & stb while
    idle; the initiator must hold cyc stb we adr sel dat_w on [t0, t0+ratio]; the acknowledge cycle is
    t0+ratio+1 and the bridge is idle again at t0+ratio+2.  A reset ends whatever transfer is in progress
    (the hold requirement ends with the reset cycle), and the reading starts afresh in the next cycle, also
    when the stream had stopped being protocol-abiding before.
    Returns (list of t0, first cycle from which some segment stops being protocol-abiding or None,
    [(a, b, h)] per segment [a, b]: its cycles a <= t < h are protocol-abiding)."""
    r, ratio, wb_aw, wdw = g
    stim = case["stim"]
    out, spans, first = [], [], None
    if not stim:
        return out, None, spans
    for (a, b) in _segments(case):
        t = a; stop = None
        while t <= b and stop is None:
            x = stim[t]
            if x[0] and x[1]:
                for i in range(1, ratio + 1):
                    if t + i > b:
                        break
                    if stim[t + i][:6] != x[:6]:
                        stop = t
                        break
                if stop is None:
                    out.append(t)
                    t += ratio + 2
            else:
                t += 1
        spans.append((a, b, b + 1 if stop is None else stop))
        if stop is not None and first is None:
            first = stop
    return out, first, spans


def oracle(case, obs):
    """Returns [(pid, cycle, text)].  Part A holds for every stimulus; part B for the prefix of the
    stimulus that is protocol-abiding (the whole trace for the `proto`/`exh`-a streams)."""
    cfg = case["cfg"]
    g = geometry(cfg)
    out = []
    if obs and obs[0] == -2:
        if g is not None:
            out.append(("C10", "constructor", f"legal geometry {cfg} refused (code {obs[1]})"))
        return out
    if g is None:
        return [("C10", "constructor", f"geometry {cfg} outside the bridge's domain was accepted: {obs[0]}")]
    r, ratio, wb_aw, wdw = g
    geom, rows = obs
    caw, cdw = cfg["caw"], cfg["cdw"]
    exp_geom = [r, wb_aw, wdw, cdw, caw, cdw, 0, 1 << caw, 1]
    if geom != exp_geom:
        out.append(("C10", "constructor", f"published geometry {geom}, required {exp_geom}"))
        return out
    stim = case["stim"]; T = min(len(stim), len(rows))
    gm = (1 << cdw) - 1
    # ---- A: every stimulus ----
    for t in range(T):
        x = stim[t]; ack, dat_r, addr, rs, ws, wd = rows[t]
        if (rs or ws) and not (x[0] and x[1]):
            out.append(("C10", t, f"CSR strobe (r={rs}, w={ws}) outside a transfer: cyc={x[0]} stb={x[1]}"))
        if rs and ws:
            out.append(("C10", t, "CSR read and write strobe together"))
        if (rs and x[2]) or (ws and not x[2]):
            out.append(("C10", t, f"CSR strobe (r={rs}, w={ws}) contradicts we={x[2]}"))
        if ack and t + 1 < T and rows[t + 1][0]:
            out.append(("C10", t + 1, "acknowledge longer than one cycle"))
        if len(out) > 20:
            return out
    # after power-on and after every reset the bridge is idle, whatever the stimulus: the cycle after is the
    # first cycle of a transfer if cyc & stb (its access is granule 0), and no transfer, hence no acknowledge,
    # can be complete before ratio+1 cycles have passed
    for (a, b) in _segments(case):
        since = "power-on" if a == 0 else f"the reset asserted in cycle {a - 1}"
        if a < T:
            x = stim[a]; ack, dat_r, addr, rs, ws, wd = rows[a]
            if x[0] and x[1]:
                s0 = x[4] & 1
                if (rs, ws) != (s0 & (1 - x[2]), s0 & x[2]):
                    out.append(("C10", a, f"first cycle after {since}, cyc=stb=1: CSR strobes r={rs} w={ws}, a transfer "
                                          f"starts here and granule 0 requires r={s0 & (1 - x[2])} w={s0 & x[2]} "
                                          f"(sel={x[4]:#x}, we={x[2]})"))
                elif (rs or ws) and addr != (x[3] * ratio) % (1 << caw):
                    out.append(("C10", a, f"first cycle after {since}: CSR address {addr:#x}, a transfer starts here and "
                                          f"granule 0 is at adr*ratio = {(x[3] * ratio) % (1 << caw):#x}"))
        for t in range(a, min(a + ratio + 1, b + 1, T)):
            if rows[t][0]:
                out.append(("C10", t, f"acknowledge {t - a} cycles after {since}: no transfer can be complete before "
                                      f"ratio+1 = {ratio + 1} cycles"))
        if len(out) > 20:
            return out
    # ---- B: protocol-abiding part of every segment (a segment = power-on or reset to the next reset) ----
    xf, stop, spans = transfers(case, g)

    def span_of(t):
        for sp in spans:
            if sp[0] <= t <= sp[1]:
                return sp
    exp = {}            # cycle -> (ack, r_stb, w_stb) expected; default (0,0,0)
    for t0 in xf:
        x = stim[t0]
        b = span_of(t0)[1]
        we, adr, sel, dat_w = x[2], x[3], x[4], x[5]
        for i in range(ratio):
            s = (sel >> i) & 1
            if t0 + i <= b:
                exp[t0 + i] = (0, s & (1 - we), s & we, (adr * ratio + i) % (1 << caw), (dat_w >> (i * cdw)) & gm, i)
        if t0 + ratio + 1 <= b:
            # the acknowledge is registered by the clock edge of cycle t0+ratio: not if the reset is asserted then
            exp[t0 + ratio + 1] = (1, 0, 0, None, None, None)
    for (a, b, h) in spans:
        since = "" if a == 0 else f", reset asserted in cycle {a - 1}"
        for t in range(a, min(h, T)):
            ack, dat_r, addr, rs, ws, wd = rows[t]
            e = exp.get(t, (0, 0, 0, None, None, None))
            if ack != e[0]:
                out.append(("C10", t, f"ack={ack}, required {e[0]} (transfers start at {near(xf, t)}, ratio {ratio}{since})"))
            if (rs, ws) != (e[1], e[2]):
                out.append(("C10", t, f"CSR strobes r={rs} w={ws}, required r={e[1]} w={e[2]} "
                                      f"(granule {e[5]} of the transfer at {near(xf, t)}, sel={stim[t][4]:#x}, we={stim[t][2]}{since})"))
            elif rs or ws:
                if addr != e[3]:
                    out.append(("C10", t, f"CSR address {addr:#x}, required adr*ratio+granule = {e[3]:#x}"))
                if ws and wd != e[4]:
                    out.append(("C10", t, f"CSR w_data {wd:#x}, required lane {e[5]} of dat_w = {e[4]:#x}"))
            if len(out) > 20:
                return out
    for t0 in xf:
        ta = t0 + ratio + 1
        a, b, h = span_of(t0)
        if ta > b or ta >= h or ta >= T:
            continue
        x = stim[t0]
        if x[2]:
            continue
        dat_r = rows[ta][1]
        for i in range(ratio):
            if (x[4] >> i) & 1:
                got = (dat_r >> (i * cdw)) & gm
                want = stim[t0 + i + 1][6] & gm
                if got != want:
                    out.append(("C10", ta, f"read transfer at {t0}: lane {i} of dat_r is {got:#x}, the CSR read data "
                                           f"returned for granule {i} (cycle {t0 + i + 1}) was {want:#x}"))
        if len(out) > 20:
            return out
    return out


def near(xf, t):
    c = [t0 for t0 in xf if t0 <= t]
    return c[-1] if c else None


def nontrivial(case, obs):
    """Constructor accepted and >= 3 completed protocol-abiding transfers incl. a read and a write with
    a non-zero select mask."""
    g = geometry(case["cfg"])
    if g is None or not obs or obs[0] == -2:
        return False
    xf, _, spans = transfers(case, g)
    xf = [t for t in xf if any(a <= t and t + g[1] + 1 <= b for (a, b, h) in spans)]   # acknowledged ones
    rd = any(case["stim"][t][4] and not case["stim"][t][2] for t in xf)
    wr = any(case["stim"][t][4] and case["stim"][t][2] for t in xf)
    return len(xf) >= 3 and rd and wr


def describe(case):
    cfg = case["cfg"]
    return {"engine": "bridge", "kind": case["kind"], "csr_addr_width": cfg["caw"], "csr_data_width": cfg["cdw"],
            "data_width": cfg["dw"], "cycles": len(case["stim"]), "resets": case.get("resets", []),
            "first_cycles [cyc,stb,we,adr,sel,dat_w,r_data]": case["stim"][:12]}


def stats(case, obs):
    """Per-case integer counters (summed by the runner into the evidence `distribution`)."""
    g = geometry(case["cfg"])
    if not obs or obs[0] == -2:
        return {"refused": 1}
    if g is None:
        return {"accepted_outside_domain": 1}
    d = {"ratio_%d" % g[1]: 1}
    xf, stop, spans = transfers(case, g)
    rs = _reset_cycles(case)
    if rs:
        d["cases_with_resets"] = 1
        d["resets"] = len(rs)
        d["resets_inside_protocol_abiding_transfer"] = 0
        d["resets_on_the_edge_that_would_acknowledge"] = 0
        d["resets_in_the_acknowledge_cycle"] = 0
        d["resets_request_held_through"] = 0
        for (a, b, h) in spans[:-1]:
            cut = [t for t in xf if a <= t <= b < t + g[1] + 1]
            d["resets_inside_protocol_abiding_transfer"] += len(cut)
            d["resets_on_the_edge_that_would_acknowledge"] += int(any(t + g[1] == b for t in cut))
            d["resets_in_the_acknowledge_cycle"] += int(any(t + g[1] + 1 == b for t in xf))
            x, y = case["stim"][b], case["stim"][b + 1]
            d["resets_request_held_through"] += int(bool(x[0] and x[1]) and x[:6] == y[:6])
    d["transfers"] = len(xf)
    d["protocol_abiding_whole_trace"] = int(stop is None)
    d["reads"] = sum(1 for t in xf if not case["stim"][t][2])
    d["writes"] = sum(1 for t in xf if case["stim"][t][2])
    d["partial_select"] = sum(1 for t in xf if 0 < case["stim"][t][4] < (1 << g[1]) - 1)
    d["zero_select"] = sum(1 for t in xf if case["stim"][t][4] == 0)
    d["back_to_back"] = sum(1 for a, b in zip(xf, xf[1:]) if b == a + g[1] + 2)
    d["cycles"] = len(obs[1])
    d["cycles_with_csr_strobe"] = sum(1 for r in obs[1] if r[3] or r[4])
    d["acks"] = sum(1 for r in obs[1] if r[0])
    return d


def _drop_prefix(case, cut):
    c = dict(case); c["stim"] = case["stim"][cut:]
    if case.get("resets"):
        c["resets"] = [r - cut for r in case["resets"] if r >= cut]
    return c


def shrink(case, fails):
    """Truncate the trace (binary search on the length), then drop leading idle/complete prefixes (reset
    cycles move with the trace), then the resets the failure does not need."""
    best = case
    lo, hi = 0, len(best["stim"])
    if hi == 0:
        return best
    while lo + 1 < hi:
        mid = (lo + hi) // 2
        c = dict(best); c["stim"] = best["stim"][:mid]
        if fails(c):
            hi = mid
        else:
            lo = mid
    c = dict(best); c["stim"] = best["stim"][:hi]
    if fails(c):
        best = c
    # drop a prefix, keeping the failure
    for _ in range(12):
        n = len(best["stim"])
        cut = n // 2
        done = True
        while cut >= 1:
            c = _drop_prefix(best, cut)
            if fails(c):
                best = c; done = False
                break
            cut //= 2
        if done:
            break
    if best.get("resets"):
        rs = _reset_cycles(best)
        for r in list(rs):
            c = dict(best); c["resets"] = [x for x in rs if x != r]
            if fails(c):
                rs = c["resets"]
        best = dict(best); best["resets"] = rs
    return best
