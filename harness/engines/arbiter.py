"""Engine `arbiter` (C08, C09): wishbone.Arbiter vs Model/Arbiter.v."""
from ..common import mkrnd
from .. import sim as S

ENGINE_ID = 8
N = {"quick": 96, "thorough": 1500}
RULE = ("real wishbone.Arbiter with 1-5 initiators (thorough -8), random feature subsets and granularities on both sides: "
        "random, sticky-request and exhaustive (every (cyc,stb,lock)^n from every grant, n <= 2, thorough 3) streams, plus "
        "many (6-20 initiators, not powers of two, several requesting in the same cycle) and contention (everybody requests "
        "continuously, owners release in turn) streams; non-trivial = at least 2 initiators and ownership changed at least twice")
FE = ["err", "rty", "stall", "lock", "cti", "bte"]
GR = (8, 16, 32, 64)
RULE = ("idx%6: 0 random (every input fresh each cycle), 1-2 sticky (inputs change with a per-case probability), "
        "3 exhaustive (n <= 2, thorough <= 3: every (cyc,stb,lock)^n combination from every grant value), 4 many "
        "(6..20 initiators, sparse requests), 5 contention (everybody requests, the bus is let go every few cycles).  "
        "Mid-run synchronous resets: about 30 % of the cases with >= 2 initiators whose add() calls are all accepted "
        "(one initiator = no register at all) assert the sync reset in 1-3 cycles (ResetInserter around the real "
        "arbiter); most of them are placed where an initiator other than the power-on owner holds the bus, preferably "
        "in the middle of its cycle (cyc with stb or lock), and the initiators' inputs are held through the reset.  "
        "Non-trivial: >= 2 initiators and ownership changed at least twice (not counting changes made by a reset).")


def fan(sel, n, r):
    o = 0
    for i in range(n):
        if (sel >> i) & 1:
            o |= ((1 << r) - 1) << (i * r)
    return o


def gen_cfg(rnd, tier, nmax=None):
    dw = rnd.choice([8, 16, 32, 64])
    g = rnd.choice([x for x in GR if x <= dw])
    aw = rnd.randint(0, 4)
    fa = [int(rnd.random() < 0.5) for _ in FE]
    nmax = nmax or (5 if tier == "quick" else 8)
    n = rnd.choice([1, 2, 2, 3, 3, 4, 5, nmax])
    intrs = []
    for i in range(n):
        gi = rnd.choice([x for x in GR if g <= x <= dw])
        fi = [int(rnd.random() < 0.5) for _ in FE]
        for k in (0, 1):  # err, rty required on initiators when the arbiter has them
            if fa[k] and rnd.random() < 0.97:
                fi[k] = 1
        ic = {"g": gi, "feat": fi}
        if rnd.random() < 0.03:   # a geometry Arbiter.add() must refuse (or a legal coarser granularity)
            k = rnd.choice(["aw", "dw", "g"])
            if k == "aw":
                ic["aw"] = rnd.randint(0, 5)
            elif k == "dw":
                ic["dw"] = rnd.choice([8, 16, 32, 64]); ic["g"] = min(ic["g"], ic["dw"])
            else:
                ic["g"] = rnd.choice([x for x in GR if x <= dw])
        intrs.append(ic)
    return {"aw": aw, "dw": dw, "g": g, "feat": fa, "intrs": intrs}


def rand_iin(rnd, cfg, ic):
    return [rnd.randrange(2), rnd.randrange(2), rnd.randrange(2), rnd.randrange(1 << cfg["aw"]),
            rnd.randrange(1 << cfg["dw"]), rnd.randrange(1 << (cfg["dw"] // ic["g"])),
            rnd.randrange(2), rnd.choice([0, 1, 2, 7]), rnd.randrange(4)]


def rand_bin(rnd, cfg):
    return [rnd.randrange(2), rnd.randrange(2), rnd.randrange(2), rnd.randrange(2),
            rnd.randrange(1 << cfg["dw"])]


def may_refuse(cfg):
    """Stimulus shaping only: some add() will (or may) be refused, so nothing is ever simulated."""
    fa = cfg["feat"]
    return any("aw" in ic or "dw" in ic or ic["g"] < cfg["g"] or (fa[0] and not ic["feat"][0]) or
               (fa[1] and not ic["feat"][1]) for ic in cfg["intrs"])


def add_resets(rnd, case):
    """Mid-run synchronous resets for ~30 % of the cases that have a grant register (>= 2 initiators).  Called
    last: every case's stimulus is what it was without this feature, except right after a reset."""
    cfg = case["cfg"]; stim = case["stim"]; n = len(cfg["intrs"])
    if n < 2 or may_refuse(cfg) or len(stim) <= 20 or rnd.random() >= 0.3:
        return case
    T = len(stim)
    case["resets"] = []
    for _ in range(rnd.choice([1, 1, 2, 3])):
        busys, owners = oracle_trace(case)       # with the resets placed so far
        free = [t for t in range(3, T - 3) if t not in case["resets"]]
        away = [t for t in free if owners[t] != 0]
        mid = [t for t in away if busys[t]]
        u = rnd.random()
        pool = mid if (u < 0.5 and mid) else away if (u < 0.8 and away) else free
        r = rnd.choice(pool)
        case["resets"] = sorted(case["resets"] + [r])
        if case["kind"] != "exh" and rnd.random() < 0.7:
            # every initiator keeps its inputs through the reset (and for a cycle or two after it)
            for d in range(1, rnd.choice([2, 2, 3])):
                if r + d < T and (r + d) not in case["resets"]:
                    stim[r + d][0] = [list(x) for x in stim[r][0]]
    return case


def gen_case(seed, tier, idx):
    rnd = mkrnd(seed, "arbiter", idx)
    return add_resets(rnd, gen_case0(rnd, tier, idx))


def gen_case0(rnd, tier, idx):
    kind = idx % 6
    if kind == 3:
        return gen_exhaustive(rnd, tier)
    if kind >= 4:
        return gen_many(rnd, tier, contention=(kind == 5))
    cfg = gen_cfg(rnd, tier)
    n = len(cfg["intrs"])
    T = 300 if tier == "quick" else 600
    stim = []
    cur = [None] * n
    sticky = rnd.choice([0.05, 0.3, 0.7, 1.0])
    for t in range(T):
        row = []
        for i, ic in enumerate(cfg["intrs"]):
            if cur[i] is None or rnd.random() < sticky:
                cur[i] = rand_iin(rnd, cfg, ic)
                if rnd.random() < 0.5:
                    cur[i][0] = int(rnd.random() < 0.7)
            row.append(list(cur[i]))
        stim.append([row, rand_bin(rnd, cfg)])
    return {"engine": "arbiter", "kind": ["random", "sticky", "sticky", "exh", "many", "contention"][kind], "cfg": cfg, "stim": stim}


def gen_many(rnd, tier, contention):
    """Many initiators (6..20, not only powers of two), request-heavy: several initiators request in the same
    cycle from every owner position, owners release after short transfers, so the next-owner choice among
    simultaneous requesters is exercised for every cyclic distance."""
    cfg = gen_cfg(rnd, tier, nmax=2)
    n = rnd.choice([6, 6, 7, 9, 10, 11, 12, 13, 14, 15, 17, 18, 19, 20]) if tier == "quick" else rnd.randint(6, 33)
    base = cfg["intrs"][0]
    cfg["intrs"] = [dict(base, feat=list(base["feat"])) for _ in range(n)]
    if rnd.random() < 0.5:
        for ic in cfg["intrs"]:
            ic["feat"] = [int(rnd.random() < 0.5) if k > 1 else ic["feat"][k] for k in range(len(FE))]
    T = 250 if tier == "quick" else 600
    stim = []
    want = [0] * n
    p_req = rnd.choice([0.1, 0.3, 0.6]) if not contention else 1.0
    hold = 0
    for t in range(T):
        row = []
        for i, ic in enumerate(cfg["intrs"]):
            if contention:
                want[i] = 1
            elif rnd.random() < 0.2:
                want[i] = int(rnd.random() < p_req)
            x = rand_iin(rnd, cfg, ic)
            x[0] = want[i]                      # cyc
            x[1] = int(rnd.random() < 0.7)      # stb
            x[6] = int(rnd.random() < 0.2)      # lock
            row.append(x)
        # let the bus go every few cycles: all requesters drop cyc/stb/lock for one cycle in turn
        hold += 1
        if hold >= rnd.choice([1, 2, 3, 5]):
            hold = 0
            k = rnd.randrange(n)
            if contention:
                # whoever owns the bus cannot be known here: drop everybody's strobe and lock, and the cycle of a
                # random third of the initiators, which releases the bus whenever the owner is among them
                for i in range(n):
                    row[i][1] = 0; row[i][6] = 0
                    if rnd.random() < 0.34:
                        row[i][0] = 0
            else:
                row[k][0] = 0; want[k] = 0
        stim.append([row, rand_bin(rnd, cfg)])
    return {"engine": "arbiter", "kind": "contention" if contention else "many", "cfg": cfg, "stim": stim}


def gen_exhaustive(rnd, tier):
    """n <= 3 (quick: <= 2): every (cyc,stb,lock)^n combination from every grant value."""
    cfg = gen_cfg(rnd, tier, nmax=2)
    n = rnd.choice([1, 2] if tier == "quick" else [2, 3])
    while len(cfg["intrs"]) > n:
        cfg["intrs"].pop()
    while len(cfg["intrs"]) < n:
        cfg["intrs"].append(dict(cfg["intrs"][0]))
    stim = []
    for g in range(n):
        for combo in range(8 ** n):
            # setup cycle: only g requests, nothing held -> grant becomes g
            row = []
            for i, ic in enumerate(cfg["intrs"]):
                x = rand_iin(rnd, cfg, ic)
                x[0] = int(i == g); x[1] = 0; x[6] = 0
                row.append(x)
            stim.append([row, rand_bin(rnd, cfg)])
            stim.append([row, rand_bin(rnd, cfg)])
            row = []
            for i, ic in enumerate(cfg["intrs"]):
                x = rand_iin(rnd, cfg, ic)
                c = (combo >> (3 * i)) & 7
                x[0] = c & 1; x[1] = (c >> 1) & 1; x[6] = (c >> 2) & 1
                row.append(x)
            stim.append([row, rand_bin(rnd, cfg)])
    return {"engine": "arbiter", "kind": "exh", "cfg": cfg, "stim": stim}


def to_model(case):
    cfg = case["cfg"]
    c = [cfg["aw"], cfg["dw"], cfg["g"], cfg["feat"],
         [[ic.get("aw", cfg["aw"]), ic.get("dw", cfg["dw"]), ic["g"], ic["feat"]] for ic in cfg["intrs"]]]
    return [c, case["stim"]]


def _segments(case):
    """[(first, last)] cycle ranges; a segment ends with the cycle in which the reset is asserted"""
    rs = sorted(set(r for r in case.get("resets", []) if 0 <= r < len(case["stim"]) - 1))
    out, a = [], 0
    for r in rs:
        out.append((a, r)); a = r + 1
    out.append((a, len(case["stim"]) - 1))
    return out


def reset_cycles(case):
    """Cycles in which the reset is asserted and that have a successor in the trace."""
    return [b for (a, b) in _segments(case)[:-1]] if case["stim"] else []


_ACC = {}


def accepted_of(case):
    """(indices of the initiators add() accepts, indices it refuses) according to the MODEL, found by asking it
    again without the initiator it refused; only for cases that may contain a refusal."""
    from .. import common as C
    import json
    key = json.dumps(case["cfg"], sort_keys=True)
    if key not in _ACC:
        cfg = case["cfg"]
        idxs = list(range(len(cfg["intrs"])))
        refused = []
        while idxs:
            sub = dict(cfg, intrs=[cfg["intrs"][i] for i in idxs])
            r = C.model_run(ENGINE_ID, [[to_model({"cfg": sub, "stim": []})[0], []]])[0]
            if r and r[0] == -2:
                refused.append(idxs.pop(r[1]))
            else:
                break
        if len(_ACC) > 200:
            _ACC.clear()
        _ACC[key] = (idxs, refused)
    return _ACC[key]


def reduced(case):
    """The same case with the refused initiators taken out (None when nothing is left or nothing was refused)."""
    if not may_refuse(case["cfg"]):
        return None
    idxs, refused = accepted_of(case)
    if not refused or not idxs:
        return None
    cfg = dict(case["cfg"], intrs=[case["cfg"]["intrs"][i] for i in idxs])
    stim = [[[irows[i] for i in idxs], brow] for (irows, brow) in case["stim"]]
    return {"engine": "arbiter", "kind": case["kind"], "cfg": cfg, "stim": stim}


def model_cases(case):
    """A mid-run synchronous reset starts the model again from its initial state (grant 0): one model run per
    segment, same configuration.  A case with a refused add() is two runs: the refusal itself, and the arbiter
    that results when the caller goes on adding the remaining initiators."""
    red = reduced(case)
    if red is not None:
        return [to_model(case), to_model(red)]
    head = to_model(case)[0]
    if not case["stim"]:
        return [to_model(case)]
    return [[head, case["stim"][a:b + 1]] for (a, b) in _segments(case)]


def model_join(case, results):
    """[rows, state after the last cycle]: rows are concatenated, the final state is the last segment's.  A
    refused add() ([-2, k], the same in every segment) or an undecodable segment is passed on as it is."""
    if reduced(case) is not None and len(results) == 2 and results[0] and results[0][0] == -2:
        second = results[1]
        return [-2, results[0][1], second[0] if (isinstance(second, list) and len(second) == 2) else second]
    rows = []
    for r in results:
        if not (isinstance(r, list) and len(r) == 2 and isinstance(r[0], list)):
            return r
        rows += r[0]
    return [rows, results[-1][1]]


def build(cfg, keep_going=False):
    """keep_going: a refused add() is noted and the remaining initiators are still added (the refused interface
    must then have left no trace in the arbiter)."""
    refused = []
    from amaranth_soc import wishbone
    from ..common import spell_features
    feats = lambda f: spell_features([FE[k] for k in range(6) if f[k]], sum((k + 2) * b for k, b in enumerate(f)) + cfg["aw"])
    arb = wishbone.Arbiter(addr_width=cfg["aw"], data_width=cfg["dw"], granularity=cfg["g"],
                           features=feats(cfg["feat"]))
    intrs = []
    for i, ic in enumerate(cfg["intrs"]):
        it = wishbone.Interface(addr_width=ic.get("aw", cfg["aw"]), data_width=ic.get("dw", cfg["dw"]),
                                granularity=ic["g"], features=feats(ic["feat"]),
                                # every third arbiter: all initiators come from instances of one core and carry the same
                                # path, hence identically named signals (initiators are told apart by identity)
                                path=("bus",) if (len(cfg["intrs"]) + cfg["aw"]) % 3 == 1 else (f"i{i}",))
        try:
            arb.add(it)
        except ValueError:
            if not keep_going:
                raise AddRefused(i)
            refused.append(i)
            continue
        intrs.append(it)
        if len(intrs) == 1 + (len(cfg["intrs"]) + cfg["aw"]) % 3 and i + 1 < len(cfg["intrs"]):
            # a half-built arbiter looked at / elaborated early (RTL generated for a partial design, a log
            # message listing its signals); the result is thrown away and what is elaborated later is the
            # arbiter as it then stands
            try:
                arb.elaborate(None)
            except Exception:
                pass          # an arbiter that cannot be elaborated is reported by the run that follows
    if keep_going:
        return arb, intrs, refused
    return arb, intrs


class AddRefused(Exception):
    pass


def run_impl(case):
    """Returns [[bus row, [initiator rows]] per cycle]; absent optional signals read as 0."""
    cfg = case["cfg"]
    prebuilt = case.get("_prebuilt")
    if prebuilt is not None:
        arb, intrs = prebuilt
    else:
        try:
            arb, intrs = build(cfg)
        except AddRefused as e:
            red = reduced(case)
            if red is None:
                return [-2, e.args[0]]
            # go on adding the other initiators to the SAME arbiter and simulate what results
            arb2, intrs2, refused = build(cfg, keep_going=True)
            sub = dict(red); sub["_prebuilt"] = (arb2, intrs2)
            if len(intrs2) != len(red["cfg"]["intrs"]):
                return [-2, e.args[0], [-3, refused]]      # the real add() refuses other initiators than the model
            return [-2, e.args[0], run_impl(sub)]
    ins, outs = [], []
    in_idx = []   # positions within the flattened stimulus row
    for i, (it, ic) in enumerate(zip(intrs, cfg["intrs"])):
        names = ["cyc", "stb", "we", "adr", "dat_w", "sel", "lock", "cti", "bte"]
        for k, nm in enumerate(names):
            if hasattr(it, nm):
                ins.append(getattr(it, nm)); in_idx.append(("i", i, k))
    for k, nm in enumerate(["ack", "err", "rty", "stall", "dat_r"]):
        if hasattr(arb.bus, nm):
            ins.append(getattr(arb.bus, nm)); in_idx.append(("b", 0, k))
    bus_names = ["adr", "dat_w", "sel", "we", "stb", "cyc", "lock", "cti", "bte"]
    out_idx = []
    for k, nm in enumerate(bus_names):
        if hasattr(arb.bus, nm):
            outs.append(getattr(arb.bus, nm)); out_idx.append(("b", 0, k))
    for i, it in enumerate(intrs):
        for k, nm in enumerate(["ack", "err", "rty", "stall", "dat_r"]):
            if hasattr(it, nm):
                outs.append(getattr(it, nm)); out_idx.append(("i", i, k))
    stim = []
    for (irows, brow) in case["stim"]:
        stim.append([irows[i][k] if w == "i" else brow[k] for (w, i, k) in in_idx])
    from amaranth.hdl import Fragment
    frag = Fragment.get(arb, None)
    gs = S.find_signals(frag, "grant")
    if len(gs) == 1 and len(gs[0]):
        outs.append(gs[0]); out_idx.append(("g", 0, 0))
    rst = reset_cycles(case)
    if rst:
        from amaranth.hdl import Elaboratable

        class Elaborated(Elaboratable):
            verif_elaborate_once = True
            """The arbiter's own, already elaborated fragment: sim.simulate puts its ResetInserter around the very
            design whose `grant` register (a local of elaborate()) was found above; nothing is elaborated twice."""
            def elaborate(self, platform):
                return frag
        rows = S.simulate(Elaborated(), ins, outs, stim, reset_at=rst)
    else:
        rows = S.simulate(arb, ins, outs, stim, frag=frag)
    obs = []
    n = len(intrs)
    for r in rows:
        b = [0] * 9
        io = [[0] * 5 for _ in range(n)]
        g = 0
        for (w, i, k), v in zip(out_idx, r):
            if w == "b":
                b[k] = v
            elif w == "g":
                g = v
            else:
                io[i][k] = v
        obs.append([b, io, g])
    return obs


def from_model(res):
    return res if res and res[0] == -2 else res[0]        # a refusal (with what followed, already rows) as it is


def canon(obs):
    """The model is compared on ports only; the grant register is used by the oracle."""
    if obs and obs[0] == -2:
        if len(obs) > 2 and isinstance(obs[2], list) and obs[2] and isinstance(obs[2][0], list):
            return [-2, obs[1], [o[:2] for o in obs[2]]]
        return obs
    return [o[:2] for o in obs]


def nontrivial(case, obs):
    """>= 2 initiators and ownership changed at least twice (changes made by a reset do not count)."""
    if len(case["cfg"]["intrs"]) < 2 or not obs or obs[0] == -2:
        return False
    owners = oracle_trace(case)[1]
    resets = set(reset_cycles(case))
    return sum(1 for t, (a, b) in enumerate(zip(owners, owners[1:])) if a != b and t not in resets) >= 2


def oracle_trace(case):
    """Owner sequence by the property's own statement (C09): round-robin when not busy; initiator 0 at power-on
    and again after every reset."""
    cfg = case["cfg"]; n = len(cfg["intrs"]); fa = cfg["feat"]
    g = 0; owners = []; busys = []
    resets = set(reset_cycles(case))
    for t, (irows, brow) in enumerate(case["stim"]):
        owners.append(g)
        o = irows[g]; fi = cfg["intrs"][g]["feat"]
        cyc, stb = o[0], o[1]
        lock = o[6] if fi[3] else 0
        busy = cyc and ((lock or stb) if fa[3] else 1)
        busys.append(bool(busy))
        if t in resets:
            g = 0
        elif not busy:
            for d in range(1, n):
                j = (g + d) % n
                if irows[j][0]:
                    g = j
                    break
    return busys, owners


def oracle(case, obs):
    """C08/C09 restated over implementation observations only (ports + the design's own grant
    register).  Returns list of (pid, cycle, text)."""
    if obs and obs[0] == -2:
        red = reduced(case)
        if red is not None and len(obs) > 2 and isinstance(obs[2], list) and obs[2] and isinstance(obs[2][0], list):
            # the arbiter the caller ends up with after the refusal: the refused interface must have left no trace
            return [(pid, t, "after a refused add(): " + txt) for (pid, t, txt) in oracle(red, obs[2])]
        return []
    cfg = case["cfg"]; fa = cfg["feat"]; n = len(cfg["intrs"]); dw = cfg["dw"]
    out = []
    resets = set(reset_cycles(case))
    for t, ((irows, brow), (b, io, g)) in enumerate(zip(case["stim"], obs)):
        if g >= n:
            out.append(("C08", t, f"grant {g} names no initiator")); break
        o = irows[g]; ic = cfg["intrs"][g]; fi = ic["feat"]
        exp = [o[3], o[4], fan(o[5], dw // ic["g"], ic["g"] // cfg["g"]), o[2], o[1], o[0],
               (o[6] if fi[3] else 0) if fa[3] else 0,
               (o[7] if fi[4] else 0) if fa[4] else 0,
               (o[8] if fi[5] else 0) if fa[5] else 0]
        if b != exp:
            out.append(("C08", t, f"shared bus {b} is not owner {g}'s request {exp}"))
        for i in range(n):
            f2 = cfg["intrs"][i]["feat"]; own = i == g
            e = [brow[0] if own else 0,
                 (brow[1] if fa[0] else 0) if (own and f2[0]) else 0,
                 (brow[2] if fa[1] else 0) if (own and f2[1]) else 0,
                 ((brow[3] if fa[2] else 1 - brow[0]) if own else 1) if f2[2] else 0,
                 brow[4]]
            if io[i] != e:
                out.append(("C08", t, f"initiator {i} (owner {g}) sees {io[i]}, expected {e}"))
        if t + 1 < len(obs):
            g2 = obs[t + 1][2]
            lock = (o[6] if fi[3] else 0)
            busy = o[0] and ((lock or o[1]) if fa[3] else 1)
            if t in resets:
                # a synchronous reset puts the arbiter back into its power-on state, the one state both properties
                # start from: the owner of the next cycle is the power-on owner (the one observed in cycle 0),
                # whatever the requests are and whether or not the present owner is in the middle of a cycle
                if g2 != obs[0][2]:
                    for pid in ("C08", "C09"):
                        out.append((pid, t, f"sync reset asserted while {g} owned the bus ({'cycle in progress' if busy else 'bus released'}); "
                                            f"next owner {g2}, the power-on owner is {obs[0][2]}"))
            elif busy:
                if g2 != g:
                    out.append(("C08", t, f"owner changed {g}->{g2} while its cycle was in progress"))
            else:
                e2 = g
                for d in range(1, n):
                    j = (g + d) % n
                    if irows[j][0]:
                        e2 = j
                        break
                if g2 != e2:
                    out.append(("C09", t, f"bus released by {g}; requests {[r[0] for r in irows]}; next owner {g2}, round-robin says {e2}"))
        if len(out) > 20:
            break
    if n == 1 or not out:
        return out
    return out


def describe(case):
    cfg = case["cfg"]
    return {"engine": "arbiter", "kind": case["kind"], "n": len(cfg["intrs"]), "dw": cfg["dw"],
            "g": cfg["g"], "feat": cfg["feat"], "cycles": len(case["stim"]), "resets": case.get("resets", []),
            "first_cycle": case["stim"][0] if case["stim"] else None}


def stats(case, obs):
    """Integer counters (summed over cases by the runner): where the mid-run resets landed."""
    n = len(case["cfg"]["intrs"])
    st = {"cases.refused" if (obs and obs[0] == -2) else f"cases.n{'1' if n == 1 else '2-5' if n <= 5 else '6+'}": 1}
    if not obs or obs[0] == -2:
        return st
    st["cycles"] = len(obs)
    rs = reset_cycles(case)
    if rs:
        busys, owners = oracle_trace(case)
        st["cases.with_resets"] = 1
        st["resets"] = len(rs)
        st["resets.owner_not_power_on_owner"] = sum(1 for t in rs if obs[t][2] != obs[0][2])
        st["resets.owner_cycle_in_progress"] = sum(1 for t in rs if obs[t][2] != obs[0][2] and busys[t])
        st["resets.inputs_held_through"] = sum(1 for t in rs if case["stim"][t + 1][0] == case["stim"][t][0])
        st["resets.former_owner_regains_bus_within_4"] = sum(
            1 for t in rs if obs[t][2] != obs[0][2] and any(o[2] == obs[t][2] for o in obs[t + 2:t + 6]))
    return st


def shrink(case, fails):
    """Greedy: truncate the trace, then drop trailing initiators."""
    best = case
    T = len(best["stim"])
    lo = 1
    while lo < T:
        c = dict(best); c["stim"] = best["stim"][:lo]
        if fails(c):
            best = c
            break
        lo = min(T, lo * 2) if lo * 2 < T else T
    # linear refine
    T = len(best["stim"])
    for k in range(max(1, T // 2), T):
        c = dict(best); c["stim"] = best["stim"][:k]
        if fails(c):
            best = c
            break
    if "resets" in best:       # resets the shortened trace no longer contains have no effect: drop them
        best = dict(best); best["resets"] = [r for r in best["resets"] if r < len(best["stim"]) - 1]
    return best
