"""Engine `gpio` (C16): the real gpio.Peripheral vs Model/Gpio.v, every port, every cycle."""
import warnings
warnings.simplefilter("ignore")
from ..common import mkrnd
from .. import sim as S

ENGINE_ID = 16
N = {"quick": 256, "thorough": 6000}
RULE = ("gpio.Peripheral built through its constructor: pins 1-9 (some 10-17; thorough to 20 and 33), data_width in "
        "{8,16,32} (some 24/64), addr_width = smallest that fits + {0,1,2} (and too small / invalid arguments, which must "
        "be refused), input_stages 0-3 (thorough to 5); stimulus = transaction stream (whole-register ascending reads and "
        "writes of Mode/Input/Output/SetClr incl. padding chunks, aborted ones, idle gaps, interleaved foreign accesses, "
        "per-pin distinct data, sticky random pin waveforms), every input bit random each cycle, or an exhaustive sweep "
        "of mode x output x set/clear code for 1-2 pins; plus the Output register (Peripheral.Output) on its own with free "
        "set/clr inputs (set/clear together with a register write); ~30% of the txn/random/outreg cases get 1-3 mid-run "
        "synchronous resets (between the chunks of a write, in / one / two cycles after a last chunk, in a first-chunk "
        "read cycle, pin levels held high through it, an Input read right after it: Mode/Output fall back to 0, the "
        "reset_less synchroniser stages keep their samples); non-trivial = accepted configuration with >= 2 pins, "
        ">= 1 completed Mode write, >= 1 completed SetClr write and >= 1 protocol-following Input read (Output register "
        "alone: >= 2 pins and >= 1 cycle with a write and an effective set/clear together)")

NAMES = ["Mode", "Input", "Output", "SetClr"]
READABLE = [1, 1, 1, 0]
WRITABLE = [1, 0, 1, 1]


def ceil_log2(n):
    return 0 if n <= 1 else (n - 1).bit_length()


def widths(pins):
    return [2 * pins, pins, pins, 2 * pins]


def natural_layout(pins, dw):
    """Where a CSR builder puts four registers of these widths (used by the GENERATOR only, to aim
    transactions; the oracle reads the implementation's own memory map)."""
    cur = 0
    out = []
    for w in widths(pins):
        sz = max(1, (w + dw - 1) // dw)
        p = 1 << ceil_log2(sz)
        st = -(-cur // p) * p
        out.append([st, st + p])
        cur = st + p
    return out


def min_aw(pins, dw):
    return max(1, ceil_log2(natural_layout(pins, dw)[-1][1]))


# ----------------------------------------------------------------------------- generation

def py_arg(v):
    """JSON form of a constructor argument -> the Python object handed to the constructor."""
    if isinstance(v, list):
        if v[0] == "none":
            return None
        return str(v[1]) if v[0] == "str" else float(v[1])
    return v


def sx_arg(v):
    if isinstance(v, list):
        return [] if v[0] == "none" else [[]]
    return [v]


def gen_cfg(rnd, tier, kind):
    thorough = tier != "quick"
    dw = rnd.choice([8, 8, 8, 16, 16, 32, 32, 24, 64] if rnd.random() < 0.15 else [8, 8, 16, 16, 32])
    r = rnd.random()
    if kind == "sweep":
        pins = rnd.choice([1, 2, 2])
    elif r < 0.70:
        pins = rnd.randint(1, 9)
    elif r < 0.85:
        pins = rnd.choice([4, 5, 8, 9])                       # around 2*pins = 8 / 16 bits
    else:
        pins = rnd.choice([10, 12, 16, 17] + ([20, 20, 32, 33] if thorough else []))
    stages = rnd.choice([0, 1, 2, 2, 3] + ([4, 5] if thorough else []))
    aw = min_aw(pins, dw) + rnd.choice([0, 0, 0, 1, 2])
    cfg = {"pins": pins, "aw": aw, "dw": dw, "stages": stages}
    if kind == "ctor":
        which = rnd.choice(["pins", "stages", "aw", "dw", "aw_small", "aw_small", "dw_gran", "two"])
        bad_int = lambda lo: rnd.choice([lo, lo - 1, -7, ["none"], ["str", 3], ["float", 2.5]])
        if which == "pins":
            cfg["pins"] = bad_int(0)
        elif which == "stages":
            cfg["stages"] = bad_int(-1)
        elif which == "aw":
            cfg["aw"] = bad_int(0)
        elif which == "dw":
            cfg["dw"] = bad_int(0)
        elif which == "aw_small":
            cfg["aw"] = max(0, min_aw(pins, dw) - rnd.choice([1, 1, 2]))
        elif which == "dw_gran":
            cfg["dw"] = rnd.choice([1, 4, 7, 12, 20, 33])
        else:
            cfg["dw"] = rnd.choice([12, 7]); cfg["pins"] = bad_int(0)
    return cfg


def valid_cfg(cfg):
    return all(isinstance(cfg[k], int) for k in ("pins", "aw", "dw", "stages")) and cfg["pins"] > 0 and \
        cfg["stages"] >= 0 and cfg["aw"] > 0 and cfg["dw"] > 0 and cfg["dw"] % 8 == 0


class Stim:
    def __init__(self, rnd, cfg, T):
        self.rnd = rnd; self.cfg = cfg; self.T = T
        self.rows = []
        self.pins = cfg["pins"]; self.dw = cfg["dw"]; self.aw = cfg["aw"]
        self.level = rnd.getrandbits(self.pins)
        self.toggle = rnd.choice([0.02, 0.1, 0.3, 0.5])
        self.layout = natural_layout(self.pins, self.dw)

    def pin_levels(self):
        for k in range(self.pins):
            if self.rnd.random() < self.toggle:
                self.level ^= 1 << k
        return self.level

    def emit(self, addr, rs, ws, wd):
        self.rows.append([addr & ((1 << self.aw) - 1), rs, ws, wd & ((1 << self.dw) - 1), self.pin_levels()])

    def idle(self, n=1):
        for _ in range(n):
            self.emit(self.rnd.randrange(1 << self.aw), 0, 0, self.rnd.getrandbits(self.dw))

    def write(self, k, value, upto=None, gaps=0.0, foreign=0.0):
        s, e = self.layout[k]
        n = e - s if upto is None else upto
        for j in range(n):
            self.emit(s + j, 0, 1, (value >> (j * self.dw)))
            if self.rnd.random() < gaps:
                self.idle(self.rnd.choice([1, 1, 2]))
            if self.rnd.random() < foreign:
                q = self.rnd.randrange(4)
                s2, e2 = self.layout[q]
                if self.rnd.random() < 0.5:
                    self.emit(self.rnd.randrange(s2, e2), 1, 0, 0)                    # a read elsewhere
                else:
                    self.emit(self.rnd.randrange(s2, e2), 0, 1, self.rnd.getrandbits(self.dw))  # protocol breach

    def read(self, k, upto=None, gaps=0.0, foreign=0.0):
        s, e = self.layout[k]
        n = e - s if upto is None else upto
        for j in range(n):
            self.emit(s + j, 1, 0, self.rnd.getrandbits(self.dw))
            if self.rnd.random() < gaps:
                self.idle(1)
            if self.rnd.random() < foreign:
                q = self.rnd.randrange(4)
                s2, e2 = self.layout[q]
                if self.rnd.random() < 0.6:
                    self.emit(self.rnd.randrange(s2, e2), 0, 1, self.rnd.getrandbits(self.dw))  # a write elsewhere
                else:
                    self.emit(self.rnd.randrange(s2, e2), 1, 0, 0)                    # protocol breach


def reg_value(rnd, k, pins):
    """Per-pin distinct data: random, walking patterns, all codes."""
    w = widths(pins)[k]
    c = rnd.random()
    if c < 0.55:
        return rnd.getrandbits(w)
    if c < 0.7:
        return (1 << rnd.randrange(w)) if w else 0
    if c < 0.8:
        return ((1 << w) - 1) ^ (1 << rnd.randrange(w))
    if c < 0.9 and k in (0, 3):
        code = rnd.randrange(4)
        v = 0
        for n in range(pins):
            v |= ((code + n) & 3) << (2 * n)          # consecutive pins get consecutive codes
        return v
    return rnd.choice([0, (1 << w) - 1, int("01" * w, 2) & ((1 << w) - 1), int("10" * w, 2) & ((1 << w) - 1)])


def gen_txn(rnd, cfg, T):
    st = Stim(rnd, cfg, T)
    gaps = rnd.choice([0.0, 0.0, 0.2, 0.5])
    foreign = rnd.choice([0.0, 0.0, 0.05, 0.2])
    while len(st.rows) < T:
        c = rnd.random()
        if c < 0.45:
            k = rnd.choice([0, 0, 2, 2, 3, 3, 3, 1])
            n = st.layout[k][1] - st.layout[k][0]
            upto = None if rnd.random() < 0.85 else rnd.randint(0, n)
            st.write(k, reg_value(rnd, k, st.pins), upto=upto, gaps=gaps, foreign=foreign)
        elif c < 0.8:
            k = rnd.choice([0, 1, 1, 1, 2, 3])
            n = st.layout[k][1] - st.layout[k][0]
            upto = None if rnd.random() < 0.85 else rnd.randint(0, n)
            st.read(k, upto=upto, gaps=gaps, foreign=foreign)
        elif c < 0.88:
            st.emit(rnd.randrange(1 << st.aw), rnd.randrange(2), rnd.randrange(2), rnd.getrandbits(st.dw))
        else:
            st.idle(rnd.choice([1, 2, 3, 5]))
    return st.rows[:T]


def gen_random(rnd, cfg, T):
    st = Stim(rnd, cfg, T)
    top = st.layout[-1][1]
    focus = rnd.random() < 0.6            # keep most addresses inside the register block
    for _ in range(T):
        a = rnd.randrange(min(top, 1 << st.aw)) if focus and rnd.random() < 0.9 else rnd.randrange(1 << st.aw)
        st.emit(a, rnd.randrange(2), rnd.randrange(2), rnd.getrandbits(st.dw))
    return st.rows


def gen_sweep(rnd, cfg):
    """1-2 pins: every mode vector x every output vector, then every output vector x every set/clear code vector."""
    st = Stim(rnd, cfg, 0)
    p = st.pins
    for mode in range(4 ** p):
        st.write(0, mode)
        for o in range(2 ** p):
            st.write(2, o)
            st.idle(1)
            st.read(rnd.choice([0, 1, 2]))
    for o in range(2 ** p):
        for code in range(4 ** p):
            st.write(2, o)
            st.write(3, code)
            st.idle(2)
    return st.rows


def gen_outreg(rnd, tier):
    """Peripheral.Output(pin_count) on its own: element writes and the fields' set / clr inputs all free, so that
    set/clear arriving together with a register write (never possible through the peripheral's bus) is exercised."""
    pins = rnd.choice([1, 2, 3, 5, 8, 9, 17])
    T = 200 if tier == "quick" else 400
    dens = rnd.choice([0.1, 0.3, 0.5])
    stim = []
    for _ in range(T):
        st = sum((rnd.random() < dens) << k for k in range(pins))
        cl = sum((rnd.random() < dens) << k for k in range(pins))
        stim.append([int(rnd.random() < 0.5), rnd.getrandbits(pins), st, cl])
    case = {"engine": "gpio", "kind": "outreg", "cfg": {"pins": pins, "outreg": 1}, "stim": stim}
    if rnd.random() < 0.3:
        # mid-run synchronous resets of the register on its own: mostly in a cycle that also writes / sets bits
        # (the reset must win over both), after the fields have been loaded
        rs = sorted(rnd.sample(range(3, T - 3), rnd.choice([1, 1, 2, 3])))
        for r in rs:
            if rnd.random() < 0.7:
                stim[r - 1] = [1, (1 << pins) - 1, 0, 0]                      # all fields 1 going into the reset
                stim[r] = [rnd.randrange(2), rnd.getrandbits(pins), rnd.getrandbits(pins), 0]
        case["resets"] = rs
    return case


def gen_resets(rnd, cfg, stim):
    """1-3 mid-run synchronous resets for a peripheral trace, aimed at what a reset must wipe: between the chunks of
    a register write (write shadow loaded), in the cycle of a last chunk / one / two cycles after it (element w_stb
    registered, field storage about to change or just changed), in the cycle of a first-chunk read (read shadow and
    r_en), or anywhere (Mode/Output usually non-zero by then: the pins must fall back to input-only).  Pin levels are
    held high through half of the resets, and half of them are followed at once by a whole read of Input: the
    synchroniser stages are declared reset_less, so the levels sampled before the reset are still what Input reports."""
    pins, dw, aw = cfg["pins"], cfg["dw"], cfg["aw"]
    layout = natural_layout(pins, dw)
    T = len(stim)
    n_in = layout[1][1] - layout[1][0]
    lo, hi = 3, T - 4 - n_in
    if hi <= lo:
        return []
    cand = {"mid": [], "last": [], "after1": [], "after2": [], "read": []}
    for t in range(lo, hi + 1):
        addr, rs, ws, wd, lv = stim[t]
        for k, (s0, e0) in enumerate(layout):
            if ws and WRITABLE[k] and s0 <= addr < e0:
                if addr < e0 - 1:
                    cand["mid"].append(t)
                else:
                    cand["last"].append(t)
                    if t + 1 <= hi:
                        cand["after1"].append(t + 1)
                    if t + 2 <= hi:
                        cand["after2"].append(t + 2)
            if rs and READABLE[k] and addr == s0:
                cand["read"].append(t)
    out = set()
    for _ in range(rnd.choice([1, 1, 2, 3])):
        what = rnd.choice(["mid", "last", "after1", "after1", "after2", "read", "any"])
        out.add(rnd.choice(cand.get(what) or list(range(lo, hi + 1))))
    out = sorted(out)
    full = (1 << pins) - 1
    for r in out:
        if rnd.random() < 0.5:
            for t in (r - 1, r, r + 1):
                stim[t][4] = full
        if rnd.random() < 0.5 and (r + 1) not in out:
            for j in range(n_in):
                if (r + 1 + j) in out:
                    break
                stim[r + 1 + j][:4] = [(layout[1][0] + j) & ((1 << aw) - 1), 1, 0, rnd.getrandbits(dw)]
    return out


def gen_case(seed, tier, idx):
    rnd = mkrnd(seed, "gpio", idx)
    kind = ["txn", "txn", "random", "txn", "ctor", "outreg", "random", "sweep"][idx % 8]
    if kind in ("sweep", "outreg") and rnd.random() < 0.5:
        kind = "txn"
    if kind == "outreg":
        return gen_outreg(rnd, tier)
    cfg = gen_cfg(rnd, tier, kind)
    T = rnd.choice([300, 400]) if tier == "quick" else rnd.choice([400, 600])
    if not valid_cfg(cfg) or cfg["aw"] < min_aw(cfg["pins"], cfg["dw"]):
        stim = []
    elif kind == "sweep":
        stim = gen_sweep(rnd, cfg)
    elif kind == "random":
        stim = gen_random(rnd, cfg, T)
    else:
        stim = gen_txn(rnd, cfg, T if kind == "txn" else 40)
    case = {"engine": "gpio", "kind": kind, "cfg": cfg, "stim": stim}
    # mid-run resets: not for refusal / constructor-corner cases, and the exhaustive sweep is left intact
    if kind in ("txn", "random") and len(stim) > 40 and rnd.random() < 0.3:
        rs = gen_resets(rnd, cfg, stim)
        if rs:
            case["resets"] = rs
    return case


# ----------------------------------------------------------------------------- model / implementation

def to_model(case):
    c = case["cfg"]
    if case["kind"] == "outreg":
        return [1, c["pins"], case["stim"]]
    return [[sx_arg(c["pins"]), sx_arg(c["aw"]), sx_arg(c["dw"]), sx_arg(c["stages"])], case["stim"]]


def _segments(case):
    """[(first, last)] cycle ranges; a segment ends with the cycle in which the reset is asserted"""
    T = len(case["stim"])
    rs = sorted(set(r for r in case.get("resets", []) if 0 <= r < T - 1))
    out, a = [], 0
    for r in rs:
        out.append((a, r)); a = r + 1
    out.append((a, T - 1))
    return out


def reset_cycles(case):
    return [b for (a, b) in _segments(case)[:-1]] if case["stim"] else []


def _warmup(case, a):
    """The input synchroniser stages are declared reset_less in gpio.py: a synchronous reset restores every other
    register but these keep shifting.  The model (always started from its initial state, stages = 0) is brought to
    exactly that state by `min(stages, a)` leading cycles without any bus strobe that replay the pin levels of the
    cycles just before the segment; their output rows are dropped again by model_join."""
    st = case["cfg"].get("stages", 0)
    return min(st, a) if isinstance(st, int) and st > 0 and a > 0 else 0


def model_cases(case):
    """A mid-run synchronous reset starts the model again from its initial state: one model run per segment."""
    full = to_model(case)
    if not reset_cycles(case):
        return [full]
    stim = case["stim"]
    out = []
    for (a, b) in _segments(case):
        if case["kind"] == "outreg":
            out.append([1, case["cfg"]["pins"], stim[a:b + 1]])
        else:
            p = _warmup(case, a)
            pre = [[row[0], 0, 0, row[3], row[4]] for row in stim[a - p:a]]
            out.append([full[0], pre + stim[a:b + 1]])
    return out


def model_join(case, results):
    """Constructor code and register layout come from the first segment; per-cycle rows are concatenated (without the
    synchroniser warm-up rows)."""
    first = results[0]
    if len(results) == 1:
        return first
    segs = _segments(case)
    if case["kind"] == "outreg":
        if any(not isinstance(r, list) or len(r) != 2 or r[0] != 1 for r in results):
            return [-99, results]
        return [1, [row for r in results for row in r[1]]]
    if not isinstance(first, list) or len(first) != 3 or first[0] != 0:
        return first
    rows = []
    for (a, b), r in zip(segs, results):
        if not isinstance(r, list) or len(r) != 3 or r[:2] != first[:2]:
            return [-99, first[:2], r[:2] if isinstance(r, list) else r]
        rows += r[2][_warmup(case, a):]
    return [0, first[1], rows]


def from_model(res):
    return res


def build(cfg):
    from amaranth_soc import gpio
    return gpio.Peripheral(pin_count=py_arg(cfg["pins"]), addr_width=py_arg(cfg["aw"]),
                           data_width=py_arg(cfg["dw"]), input_stages=py_arg(cfg["stages"]))


def run_impl(case):
    """[-2, 1|2] when the constructor raises ValueError|TypeError, else
    [0, [[start, stop] per register, ascending], rows, names] with rows = [r_data, [o], [oe], [alt]] per cycle."""
    cfg = case["cfg"]
    if case["kind"] == "outreg":
        return run_outreg(case)
    try:
        dut = build(cfg)
    except ValueError:
        return [-2, 1]
    except TypeError:
        return [-2, 2]
    res = list(dut.bus.memory_map.resources())
    layout = [[s, e] for _, _, (s, e) in res]
    names = ["/".join(str(p) for p in nm) for _, nm, _ in res]
    pins = len(dut.pins)
    ins = [dut.bus.addr, dut.bus.r_stb, dut.bus.w_stb, dut.bus.w_data] + [p.i for p in dut.pins]
    outs = [dut.bus.r_data, dut.alt_mode] + [p.o for p in dut.pins] + [p.oe for p in dut.pins]
    stim = [row[:4] + [(row[4] >> k) & 1 for k in range(pins)] for row in case["stim"]]
    rows = S.simulate(dut, ins, outs, stim, reset_at=reset_cycles(case)) if stim else []
    obs = []
    for r in rows:
        obs.append([r[0], r[2:2 + pins], r[2 + pins:2 + 2 * pins], [(r[1] >> k) & 1 for k in range(pins)]])
    return [0, layout, obs, names, [len(dut.bus.addr), len(dut.bus.w_data), len(dut.bus.r_data), len(dut.alt_mode)]]


def run_outreg(case):
    """[1, [[element.r_data, [f.pin[k].data]] per cycle]]"""
    from amaranth_soc import gpio
    pins = case["cfg"]["pins"]
    reg = gpio.Peripheral.Output(pins)
    fields = [reg.f.pin[k] for k in range(pins)]
    ins = [reg.element.w_stb, reg.element.w_data] + [f.set for f in fields] + [f.clr for f in fields]
    outs = [reg.element.r_data] + [f.data for f in fields]
    stim = [[w, d] + [(st >> k) & 1 for k in range(pins)] + [(cl >> k) & 1 for k in range(pins)]
            for (w, d, st, cl) in case["stim"]]
    rows = S.simulate(reg, ins, outs, stim, reset_at=reset_cycles(case))
    return [1, [[r[0], r[1:]] for r in rows]]


def canon(obs):
    return obs if obs[0] in (-2, 1) else obs[:3]


# ----------------------------------------------------------------------------- oracle

MODE_TABLE = {0: ("o", 0, 0), 1: ("o", 1, 0), 2: (0, "no", 0), 3: ("o", 0, 1)}    # mode -> (pin.o, pin.oe, alt)


class Abstract:
    """What software knows about a register from the transactions it completed: value + mask of known bits."""
    def __init__(self, width):
        self.v = 0; self.known = (1 << width) - 1          # reset value 0 is documented
        self.width = width


def oracle(case, obs):
    """C16 restated over the implementation's own trace.  The registers are located through the
    implementation's memory map; their abstract contents are tracked from completed, protocol-following bus
    writes (a write that breaks the protocol makes the affected bits unknown until rewritten)."""
    out = []
    cfg = case["cfg"]
    if case["kind"] == "outreg":
        return oracle_outreg(case, obs)
    ok_cfg = valid_cfg(cfg)
    if obs[0] == -2:
        # the property quantifies over every pin count / geometry / depth: a sound configuration must be accepted
        if ok_cfg and cfg["aw"] >= min_aw(cfg["pins"], cfg["dw"]):
            out.append(("C16", "ctor", f"constructor refused a valid configuration {cfg} "
                        f"({'ValueError' if obs[1] == 1 else 'TypeError'})"))
        return out
    if not ok_cfg:
        out.append(("C16", "ctor", f"constructor accepted invalid arguments {cfg}"))
        return out
    pins, dw, aw, stages = cfg["pins"], cfg["dw"], cfg["aw"], cfg["stages"]
    layout, tr, names, lens = obs[1], obs[2], obs[3], obs[4]
    W = widths(pins)
    if lens != [aw, dw, dw, pins]:
        out.append(("C16", "ctor", f"port widths {lens} for aw={aw} dw={dw} pins={pins}"))
        return out
    if names != NAMES:
        out.append(("C16", "map", f"registers in address order are {names}, expected {NAMES}"))
        return out
    cur = 0
    for k, (s, e) in enumerate(layout):
        if s < cur or (e - s) * dw < W[k] or e > (1 << aw):
            out.append(("C16", "map", f"register {NAMES[k]} at [{s},{e}) cannot hold {W[k]} bits / overlaps / out of range"))
            return out
        cur = e
    stim = case["stim"]
    T = len(stim)
    mask_dw = (1 << dw) - 1

    def reg_at(a, col):
        for k, (s, e) in enumerate(layout):
            if col[k] and s <= a < e:
                return k
        return None

    mode = Abstract(W[0]); outp = Abstract(W[2])
    sched = {}                # time -> ("mode"|"out"|"sc", value or None)
    last_write = {}
    last_first = {}           # readable register -> (t0, snapshot value, known mask)
    expect_rd = None          # (value, mask, text) expected on bus.r_data in this cycle
    prev_pins_out = None
    resets = set(reset_cycles(case))
    for t in range(T):
        addr, rs, ws, wd, lv = stim[t]
        r_data, o, oe, alt = tr[t]
        # ---- effects of the write that completed two cycles ago
        touched = set(range(pins)) if t in sched else set()
        if t in sched:
            what, val = sched.pop(t)
            if what == "mode":
                if val is None:
                    mode.known = 0
                else:
                    mode.v, mode.known = val, (1 << W[0]) - 1
            elif what == "out":
                if val is None:
                    outp.known = 0
                else:
                    outp.v, outp.known = val, (1 << W[2]) - 1
            else:
                touched = set()
                for n in range(pins):
                    if val is None:
                        outp.known &= ~(1 << n); touched.add(n)
                        continue
                    code = (val >> (2 * n)) & 3
                    if code == 1:
                        outp.v |= 1 << n; outp.known |= 1 << n; touched.add(n)
                    elif code == 2:
                        outp.v &= ~(1 << n); outp.known |= 1 << n; touched.add(n)
                    # 00 / 11: this pin is not addressed
        # ---- mode table, per pin
        for n in range(pins):
            got = (o[n], oe[n], alt[n])
            if (mode.known >> (2 * n)) & 3 == 3:
                m = (mode.v >> (2 * n)) & 3
                ob = (outp.v >> n) & 1 if (outp.known >> n) & 1 else None
                eo, eoe, ealt = MODE_TABLE[m]
                eo = ob if eo == "o" else eo
                eoe = (None if ob is None else 1 - ob) if eoe == "no" else eoe
                exp = (eo, eoe, ealt)
                if any(x is not None and x != y for x, y in zip(exp, got)):
                    out.append(("C16", t, f"pin {n}: mode={m} output bit={ob}: (o,oe,alt)={got}, mode table says {exp}"))
            # independence: a pin that no completed operation addressed keeps its outputs
            if prev_pins_out is not None and n not in touched and got != prev_pins_out[n]:
                out.append(("C16", t, f"pin {n}: (o,oe,alt) changed {prev_pins_out[n]} -> {got} though no operation addressed it"))
        prev_pins_out = [(o[n], oe[n], alt[n]) for n in range(pins)]
        # ---- read data promised by the previous cycle
        if expect_rd is not None:
            v, m, text = expect_rd
            if (r_data ^ v) & m:
                out.append(("C16", t - 1, f"{text}: bus.r_data={r_data:#x}, expected {v:#x} (known bits {m:#x})"))
            expect_rd = None
        # ---- reads
        if rs:
            for q, (s, e) in enumerate(layout):
                if READABLE[q] and addr == s:
                    if q == 0:
                        snap = (mode.v, mode.known)
                    elif q == 2:
                        snap = (outp.v, outp.known)
                    else:
                        v = 0
                        if t >= stages:
                            v = stim[t - stages][4] & ((1 << pins) - 1)
                        snap = (v, (1 << pins) - 1)
                    last_first[q] = (t,) + snap
        k = reg_at(addr, READABLE) if rs else None
        if k is not None and k in last_first:
            t0, v, m = last_first[k]
            if all(not (q != k and u[0] > t0) for q, u in last_first.items()):
                j = addr - layout[k][0]
                what = ("Input register: pin levels of cycle %d - %d stages" % (t0, stages)) if k == 1 else \
                    f"{NAMES[k]} register contents at cycle {t0}"
                expect_rd = ((v >> (j * dw)) & mask_dw, (m >> (j * dw)) & mask_dw,
                             f"read of chunk {j} of {NAMES[k]} (first chunk read at {t0}; {what})")
        # ---- writes
        if ws:
            last_write[addr] = (t, wd & mask_dw)
        kw = reg_at(addr, WRITABLE) if ws else None
        if kw is not None and addr == layout[kw][1] - 1:
            s, e = layout[kw]
            tj = []
            ok = True
            for j in range(e - s):
                if j * dw >= W[kw]:
                    continue
                if (s + j) not in last_write:
                    ok = False
                    break
                tj.append((j,) + last_write[s + j])
            if ok:
                lo = min([u for _, u, _ in tj], default=t)
                for u in range(lo + 1, t + 1):
                    q = reg_at(stim[u][0], WRITABLE) if stim[u][2] else None
                    if q is not None and q != kw:
                        ok = False
                        break
            val = None
            if ok:
                val = 0
                for j, u, d in tj:
                    cw = min(dw, W[kw] - j * dw)
                    val |= (d & ((1 << cw) - 1)) << (j * dw)
            sched[t + 2] = ({0: "mode", 2: "out", 3: "sc"}[kw], val)
        # ---- synchronous reset asserted in this cycle (its outputs, checked above, are still those of the old state)
        if t in resets:
            # after the edge the registers are back at their documented reset value 0 (every pin input-only,
            # output bits 0), no transaction is open and no write is in flight (a write whose last chunk was just
            # written never happens), and every pin's outputs may change.  The clause about Input is NOT restarted:
            # "the pin's level delayed by exactly `stages` cycles" is stated over absolute time, and the
            # synchroniser stages (reset_less in gpio.py) are what makes it hold across a reset.
            mode = Abstract(W[0]); outp = Abstract(W[2])
            sched = {}; last_write = {}; last_first = {}
            expect_rd = None
            prev_pins_out = None
        if len(out) > 12:
            break
    return out


def oracle_outreg(case, obs):
    """Output field, element level: set (01) / clear (10) decide and beat a register write arriving in the same
    cycle; with neither or both (00 / 11) a write, if any, decides; otherwise the bit holds.  Each pin on its own bits."""
    out = []
    pins = case["cfg"]["pins"]
    rows = obs[1]
    resets = set(reset_cycles(case))
    for t, (w, d, st, cl) in enumerate(case["stim"]):
        r_data, data = rows[t]
        if (t == 0 or (t - 1) in resets) and any(data):
            out.append(("C16", t, f"Output fields {data} out of reset"))
        if r_data != sum(b << k for k, b in enumerate(data)):
            out.append(("C16", t, f"Output register reads {r_data:#x} while its fields drive {data}"))
        if t + 1 < len(rows) and t not in resets:
            nxt = rows[t + 1][1]
            for k in range(pins):
                s_, c_ = (st >> k) & 1, (cl >> k) & 1
                exp = s_ if s_ != c_ else (((d >> k) & 1) if w else data[k])
                if nxt[k] != exp:
                    out.append(("C16", t, f"Output field {k}: bit {data[k]}, set={s_} clr={c_} w_stb={w} w_data bit={(d >> k) & 1} "
                                f"-> {nxt[k]}, expected {exp}"))
        if len(out) > 12:
            break
    return out


def stats(case, obs):
    d = {"cycles": len(case["stim"]), "refused": int(obs[0] == -2), "completed_writes_Mode": 0,
         "completed_writes_Output": 0, "completed_writes_SetClr": 0, "first_chunk_reads_Input": 0,
         "first_chunk_reads_Mode_Output": 0, "multi_chunk_registers": 0, "read_strobes": 0, "write_strobes": 0,
         "outreg_setclr_with_write": 0, "resets": len(reset_cycles(case)), "resets_pins_driven": 0,
         "resets_write_in_flight": 0, "input_reads_within_stages_of_reset": 0}
    if case["kind"] == "outreg":
        m = (1 << case["cfg"]["pins"]) - 1
        d["outreg_setclr_with_write"] = sum(1 for (w, dd, st, cl) in case["stim"] if w and ((st ^ cl) & m))
        return d
    if obs[0] == -2:
        return d
    layout = obs[1]
    d["multi_chunk_registers"] = sum(1 for s, e in layout if e - s > 1)
    stim = case["stim"]
    stages = case["cfg"]["stages"]
    for r in reset_cycles(case):
        _, o, oe, alt = obs[2][r]
        d["resets_pins_driven"] += int(any(o) or any(oe) or any(alt))
        lasts = [layout[k][1] - 1 for k in (0, 2, 3)]
        d["resets_write_in_flight"] += int(any(stim[u][2] and stim[u][0] in lasts for u in (r - 1, r) if u >= 0))
        d["input_reads_within_stages_of_reset"] += int(any(stim[u][1] and stim[u][0] == layout[1][0]
                                                           for u in range(r + 1, min(len(stim), r + 1 + max(stages, 1)))))
    for (addr, rs, ws, wd, lv) in case["stim"]:
        d["read_strobes"] += rs; d["write_strobes"] += ws
        if ws:
            for k, nm in ((0, "Mode"), (2, "Output"), (3, "SetClr")):
                if addr == layout[k][1] - 1:
                    d["completed_writes_" + nm] += 1
        if rs:
            if addr == layout[1][0]:
                d["first_chunk_reads_Input"] += 1
            if addr in (layout[0][0], layout[2][0]):
                d["first_chunk_reads_Mode_Output"] += 1
    return d


def nontrivial(case, obs):
    """accepted configuration, >= 2 pins, >= 1 completed Mode write, >= 1 completed SetClr write, >= 1 Input read"""
    if case["kind"] == "outreg":
        return case["cfg"]["pins"] >= 2 and stats(case, obs)["outreg_setclr_with_write"] >= 1
    if obs[0] == -2 or case["cfg"]["pins"] < 2:
        return False
    st = stats(case, obs)
    return st["completed_writes_Mode"] >= 1 and st["completed_writes_SetClr"] >= 1 and st["first_chunk_reads_Input"] >= 1


def describe(case):
    c = case["cfg"]
    if case["kind"] == "outreg":
        return {"engine": "gpio", "kind": "outreg", "pins": c["pins"], "cycles": len(case["stim"]),
                "resets": case.get("resets", []), "first_cycles": case["stim"][:3]}
    return {"engine": "gpio", "kind": case["kind"], "pins": c["pins"], "aw": c["aw"], "dw": c["dw"],
            "stages": c["stages"], "cycles": len(case["stim"]), "resets": case.get("resets", []),
            "first_cycles": case["stim"][:3]}


def shrink(case, fails):
    best = case
    T = len(best["stim"])
    for k in list(range(2, T, max(1, T // 60))):
        c = dict(best); c["stim"] = best["stim"][:k]
        if fails(c):
            best = c
            break
    return best
