"""Engine `event` (C13): event.EventMap + event.Monitor vs Model/Event.v.

One case = an API history on a real EventMap (adds with repeats, index/size/sources queries,
freeze, non-Source arguments), the construction of a real Monitor over it (which freezes the map),
more API calls, then a cycle-by-cycle simulation of the elaborated monitor."""
from ..common import mkrnd
from .. import sim as S

ENGINE_ID = 13
RAW_COMPARE = True      # from_model is the identity: the model's sx is the observation itself
N = {"quick": 160, "thorough": 2400}
RULE = ("idx%4: 0 unconstrained (every input bit random each cycle), 1 sticky pulses with sparse clears, "
        "2 structured trigger-in-the-cycle-of-a-clear script per source, 3 API-heavy history (explicit freeze, "
        "adds after freeze, unknown and non-Source arguments) with a shorter trace; objects are added in "
        "shuffled order so identity != index.  Non-trivial: >= 2 sources in the monitor, some source triggers "
        "in the very cycle its clear bit is written, some pending bit is cleared, src.i seen both low and high.")
MODES = ["level", "rise", "fall"]
ADD, INDEX, FREEZE, SIZE, SOURCES = 0, 1, 2, 3, 4
EXC = {"ValueError": 0, "TypeError": 1, "KeyError": 2}


# ------------------------------------------------------------------------------------------------
# generator
# ------------------------------------------------------------------------------------------------

def planned_members(ops1):
    """Objects the generator intends to be in the map, in intended index order (stimulus shaping only)."""
    order = []
    for code, a in ops1:
        if code == FREEZE:
            break
        if code == ADD and a >= 0 and a not in order:
            order.append(a)
    return order


def trg_ref(mode, prev, cur):
    return cur if mode == 0 else ((1 - prev) & cur if mode == 1 else prev & (1 - cur))


def gen_ops(rnd, K, n, heavy):
    """ops before Monitor construction: the first n objects get added (shuffled, with repeats)."""
    ids = list(range(K))
    rnd.shuffle(ids)
    to_add = ids[:n]
    spare = ids[n:]
    ops = []

    def query():
        r = rnd.random()
        if r < 0.45:
            ops.append([INDEX, rnd.choice(ids + [-1]) if ids else -1])
        elif r < 0.65:
            ops.append([SIZE, 0])
        elif r < 0.85:
            ops.append([SOURCES, 0])
        else:
            ops.append([ADD, -1])                       # not a Source
    pq = 0.6 if heavy else 0.15
    done = []
    for a in to_add:
        while rnd.random() < pq:
            query()
        ops.append([ADD, a])
        done.append(a)
        while done and rnd.random() < (0.5 if heavy else 0.2):
            ops.append([ADD, rnd.choice(done)])         # repeat: must be ignored
    while rnd.random() < pq:
        query()
    if heavy and rnd.random() < 0.5:
        # explicit freeze, possibly in the middle: later adds are refused and number nothing
        cut = rnd.randint(0, len(ops))
        ops.insert(cut, [FREEZE, 0])
        for _ in range(rnd.randint(0, 3)):
            ops.append([ADD, rnd.choice(ids + [-1]) if ids else -1])
            ops.append([rnd.choice([INDEX, SIZE, SOURCES]), rnd.choice(ids) if ids else -1])
        if rnd.random() < 0.3:
            ops.append([FREEZE, 0])
    return ops, spare


def gen_ops_after(rnd, K, heavy):
    ids = list(range(K))
    ops = []
    for _ in range(rnd.randint(0, 6 if heavy else 2)):
        r = rnd.random()
        if r < 0.6:
            ops.append([ADD, rnd.choice(ids + [-1]) if ids else -1])   # frozen by the Monitor: ValueError
        elif r < 0.8:
            ops.append([INDEX, rnd.choice(ids + [-1]) if ids else -1])
        else:
            ops.append([rnd.choice([SIZE, SOURCES, FREEZE]), 0])
    # full query surface at the end
    ops.append([SOURCES, 0])
    ops.append([SIZE, 0])
    for a in ids + [-1]:
        ops.append([INDEX, a])
    return ops


def gen_case(seed, tier, idx):
    rnd = mkrnd(seed, "event", idx)
    kind = idx % 4
    heavy = kind == 3
    n = rnd.choice([0, 1, 1, 2, 2, 3, 3, 4, 5, 6, 7, 8, 9, 9])
    # maps wider than one machine word (word-wise reductions, partial top word): one case in twelve
    wide = idx % 12 == 7
    if wide:
        n = rnd.choice([31, 32, 33, 33, 40, 47, 63, 64, 65, 70, 97])
    K = n + rnd.choice([0, 0, 1, 2])
    r = rnd.random()
    if r < 0.15:
        modes = [rnd.randrange(3)] * K
    else:
        modes = [rnd.randrange(3) for _ in range(K)]
    ops1, _ = gen_ops(rnd, K, n, heavy)
    ops2 = gen_ops_after(rnd, K, heavy)
    mem = planned_members(ops1)
    w = len(mem)
    full = (1 << w) - 1
    T = (300 if tier == "quick" else 600) // (3 if heavy else 1)
    if wide:
        T = 48
    stim = []
    if kind in (0, 3):
        pi = rnd.choice([0.1, 0.5, 0.5, 0.9]); pc = rnd.choice([0.05, 0.3, 0.5, 1.0])
        for t in range(T):
            iv = [int(rnd.random() < pi) for _ in range(K)]
            cl = sum((1 << k) for k in range(w) if rnd.random() < pc)
            stim.append([iv, rnd.randrange(1 << w), cl])
    elif kind == 1:
        cur = [rnd.randrange(2) for _ in range(K)]
        en = rnd.randrange(1 << w)
        flip = rnd.choice([0.03, 0.1, 0.3]); pc = rnd.choice([0.01, 0.05, 0.2])
        for t in range(T):
            for j in range(K):
                if rnd.random() < flip:
                    cur[j] ^= 1
            if rnd.random() < 0.05:
                en = rnd.choice([0, full, rnd.randrange(1 << w), 1 << rnd.randrange(w) if w else 0])
            cl = sum((1 << k) for k in range(w) if rnd.random() < pc)
            stim.append([list(cur), en, cl])
    else:
        # per source (by intended index k): trigger; clear alone; trigger together with clear while
        # not pending; again while pending; clear alone.  Other sources get random traffic.
        prev = [0] * K

        def cyc(want, clear_bits, noise, force=None):
            """want: {obj: desired trg (0/1)}; force: {obj: input level}; the other objects' inputs are
            random when noise, else held."""
            iv = []
            for j in range(K):
                if force and j in force:
                    iv.append(force[j])
                elif j in want:
                    m = modes[j]; p = prev[j]; d = want[j]
                    if m == 0:
                        v = d
                    elif m == 1:
                        v = 1 if d else (p if rnd.random() < 0.5 else 0)
                    else:
                        v = 0 if d else (p if rnd.random() < 0.5 else 1)
                    iv.append(v)
                else:
                    iv.append(rnd.randrange(2) if noise else prev[j])
            cl = clear_bits
            if noise:
                for k in range(w):
                    if mem[k] not in want and rnd.random() < 0.2:
                        cl |= 1 << k
            stim.append([iv, rnd.choice([full, rnd.randrange(1 << w)]), cl])
            for j in range(K):
                prev[j] = iv[j]

        def stuck(j):
            """an edge source can trigger only from the opposite level"""
            return modes[j] == 1 and prev[j] == 1 or modes[j] == 2 and prev[j] == 0

        noise = rnd.random() < 0.7
        while len(stim) < T and w:
            k = rnd.randrange(w); j = mem[k]; b = 1 << k

            def arm():
                if stuck(j):
                    cyc({}, 0, noise, force={j: 1 - prev[j]})
            arm(); cyc({j: 1}, 0, noise)          # event -> pending
            cyc({j: 0}, 0, noise)
            cyc({j: 0}, b, noise)                 # clear alone -> not pending
            cyc({j: 0}, 0, noise)
            arm(); cyc({j: 1}, b, noise)          # event in the very cycle of the clear, not pending before
            cyc({j: 0}, 0, noise)
            arm(); cyc({j: 1}, b, noise)          # ... and while already pending
            cyc({j: 0}, 0, noise)
            cyc({j: 0}, b, noise)
            if rnd.random() < 0.5:                # every source that can, at once, all clears written
                cyc({jj: 1 for jj in mem if not stuck(jj)}, full, False)
        while len(stim) < T:
            stim.append([[rnd.randrange(2) for _ in range(K)], 0, 0])
        stim = stim[:T]
    if wide and w:
        # one enabled line at a time, mostly in the top bits: a lost bit of the reduction cannot hide behind others
        for row in stim:
            row[1] = rnd.choice([1 << (w - 1 - rnd.randrange(min(w, 9))), 1 << rnd.randrange(w), 0, row[1]])
    case = {"engine": "event", "kind": ["random", "sticky", "coincide", "api"][kind],
            "cfg": {"modes": modes, "montrig": rnd.randrange(3)},
            "ops1": ops1, "ops2": ops2, "stim": stim}
    if len(stim) > 20 and rnd.random() < 0.3:
        # mid-run synchronous resets: "initially low" / "nothing pending" must hold again after each of them
        case["resets"] = sorted(rnd.sample(range(3, len(stim) - 3), rnd.choice([1, 1, 2, 3])))
        for r in case["resets"]:
            if rnd.random() < 0.7:           # lines held high through the reset: the interesting case for edges
                stim[r][0] = [1] * K
                stim[r + 1][0] = [rnd.choice([0, 1, 1]) for _ in range(K)]
    return case


def to_model(case):
    return [case["cfg"]["modes"], case["cfg"]["montrig"], case["ops1"], case["ops2"], case["stim"]]


def _segments(case):
    """[(first, last)] cycle ranges; a segment ends with the cycle in which the reset is asserted"""
    rs = sorted(set(r for r in case.get("resets", []) if 0 <= r < len(case["stim"]) - 1))
    out, a = [], 0
    for r in rs:
        out.append((a, r)); a = r + 1
    out.append((a, len(case["stim"]) - 1))
    return out


def model_cases(case):
    """A mid-run synchronous reset starts the model again from its initial state: one model run per segment."""
    if not case["stim"]:
        return [to_model(case)]
    return [[case["cfg"]["modes"], case["cfg"]["montrig"], case["ops1"], case["ops2"], case["stim"][a:b + 1]]
            for (a, b) in _segments(case)]


def model_join(case, results):
    res1, res2, rows, widths = results[0]
    rows = list(rows)
    for r in results[1:]:
        rows += r[2]
    return [res1, res2, rows, widths]


# ------------------------------------------------------------------------------------------------
# implementation
# ------------------------------------------------------------------------------------------------

def not_a_source(k):
    from amaranth import Signal
    from amaranth_soc import event
    return [None, 0, "s0", object(), event.EventMap(), event.Source.Signature(), Signal()][k % 7]


def run_impl(case):
    """[results before, results after, rows, [len(enable), len(pending), len(clear)]];
    row = [[trg] or [] per created object, pending, src.i]."""
    from amaranth_soc import event
    modes = case["cfg"]["modes"]
    # the trigger mode is accepted as a string or as the enum member: alternate between the two spellings
    objs = [event.Source(trigger=(MODES[m] if i % 2 == 0 else event.Source.Trigger(MODES[m])), path=(f"s{i}",))
            for i, m in enumerate(modes)]
    ident = {id(o): i for i, o in enumerate(objs)}
    em = event.EventMap()
    cnt = [0]

    def do(op):
        code, a = op
        x = None
        if code in (ADD, INDEX):
            if a >= 0:
                x = objs[a]
            else:
                x = not_a_source(cnt[0]); cnt[0] += 1
        try:
            if code == ADD:
                r = em.add(x)
            elif code == INDEX:
                r = em.index(x)
            elif code == FREEZE:
                r = em.freeze()
            elif code == SIZE:
                r = em.size
            else:
                r = [[ident.get(id(s), -9), k] for s, k in em.sources()]
        except Exception as e:
            nm = type(e).__name__
            return [3, EXC.get(nm, 3)]
        if r is None:
            return [0]
        if isinstance(r, bool) or not isinstance(r, (int, list)):
            return [4]
        return [1, r] if isinstance(r, int) else [2, r]

    res1 = []
    other = event.EventMap()
    for k, op in enumerate(case["ops1"]):
        res1.append(do(op))
        if op[0] == ADD and op[1] >= 0 and k % 2 == 0:
            # the same Source objects also join a second, unrelated event map, in the opposite order (a source may
            # be listed by several maps): what the first map says and what its Monitor does must not depend on it
            try:
                for o in reversed(objs):
                    other.add(o)
            except Exception:
                pass
    try:
        mon = event.Monitor(em, trigger=MODES[case["cfg"]["montrig"]])
    except Exception:
        # the API results are still worth reporting: the oracle looks at them and at the refusal itself
        em.freeze()
        res2 = [do(op) for op in case["ops2"]]
        return [res1, res2, [], [-1, -1, -1]]
    res2 = [do(op) for op in case["ops2"]]
    # what the design will contain: the map's own view at elaboration time
    inmap = [ident.get(id(s), -9) for s, _ in mon.src.event_map.sources()]
    watch = [j for j in range(len(objs)) if j in inmap]
    ins = [objs[j].i for j in watch] + [mon.enable, mon.clear]
    outs = [objs[j].trg for j in watch] + [mon.pending, mon.src.i]
    stim = [[iv[j] for j in watch] + [en, cl] for (iv, en, cl) in case["stim"]]
    try:
        rows = S.simulate(mon, ins, outs, stim, reset_at=[b for (a, b) in _segments(case)[:-1]] if case["stim"] else ())
    except Exception:
        return [res1, res2, [], [-1, -1, -1]]
    obs = []
    for r in rows:
        tr = [[] for _ in objs]
        for p, j in enumerate(watch):
            tr[j] = [r[p]]
        obs.append([tr, r[len(watch)], r[len(watch) + 1]])
    return [res1, res2, obs, [len(mon.enable), len(mon.pending), len(mon.clear)]]


def from_model(res):
    return res


# ------------------------------------------------------------------------------------------------
# oracle: C13 restated on implementation observations only
# ------------------------------------------------------------------------------------------------

def api_expect(hist, p):
    """The results call number p of the whole history may return, from the property's own words:
    numbers are dense, stable, and equal the number of distinct sources added before the first
    addition; after freeze every add raises and changes nothing.  `hist` has "monitor" marking the
    Monitor construction (which freezes).  Returns a list of acceptable results: the property does not
    say which of the two refusals a non-Source gets on a frozen map, so both classes are accepted there
    (the model correspondence still pins the exact class)."""
    eff = []          # effective adds before call p
    frozen = False
    for q in range(p):
        o = hist[q]
        if o == "monitor" or o[0] == FREEZE:
            frozen = True
        elif o[0] == ADD and o[1] >= 0 and not frozen:
            eff.append(o[1])
    code, a = hist[p]
    distinct = []
    for x in eff:
        if x not in distinct:
            distinct.append(x)
    if code == ADD:
        if frozen:
            return [[3, 0]] if a >= 0 else [[3, 0], [3, 1]]
        return [[3, 1]] if a < 0 else [[0]]
    if code == INDEX:
        if a < 0:
            return [[3, 1]]
        if a not in eff:
            return [[3, 2]]
        return [[1, len(set(eff[:eff.index(a)]))]]
    if code == FREEZE:
        return [[0]]
    if code == SIZE:
        return [[1, len(distinct)]]
    return [[2, [[x, k] for k, x in enumerate(distinct)]]]


def oracle(case, obs):
    out = []
    res1, res2, rows, widths = obs
    hist = [tuple(o) for o in case["ops1"]] + ["monitor"] + [tuple(o) for o in case["ops2"]]
    res = list(res1) + [None] + list(res2)
    for p, (o, r) in enumerate(zip(hist, res)):
        if o == "monitor":
            continue
        e = api_expect(hist, p)
        if r not in e:
            out.append(("C13", f"call {p}", f"EventMap call {o} (0 add,1 index,2 freeze,3 size,4 sources; result 0 None,"
                                              f"1 int,2 sources,3 exception 0=ValueError 1=TypeError 2=KeyError) returned {r}, "
                                              f"dense/stable/first-addition numbering and freeze require {e[0]}"))
            if len(out) > 5:
                break
    # the numbering the map itself reports at the end (the generator always ends with a sources() call)
    srcs = None
    for o, r in zip(case["ops2"], res2):
        if o[0] == SOURCES and r and r[0] == 2:
            srcs = r[1]
    if srcs is None:
        return out
    n = len(srcs)
    if widths == [-1, -1, -1]:
        out.append(("C13", "monitor", f"event.Monitor() or its elaboration raised for an event map the API built ({n} sources numbered {srcs})"))
        return out
    if widths != [n, n, n]:
        out.append(("C13", "widths", f"enable/pending/clear are {widths} bits wide for {n} sources"))
    modes = case["cfg"]["modes"]
    prev = {j: 0 for j, _ in srcs}
    resets = set(b for (a, b) in _segments(case)[:-1]) if case["stim"] else set()
    for t, ((iv, en, cl), (tr, pend, irq)) in enumerate(zip(case["stim"], rows)):
        en &= (1 << n) - 1; cl &= (1 << n) - 1
        if (t == 0 or (t - 1) in resets) and pend != 0:
            out.append(("C13", t, f"pending = {pend:#x} before any trigger" + (" (first cycle after a reset)" if t else "")))
        if pend >> n:
            out.append(("C13", t, f"pending = {pend:#x} has bits beyond the {n} sources"))
        if irq != int((en & pend) != 0):
            out.append(("C13", t, f"src.i = {irq} with enable = {en:#x}, pending = {pend:#x}"))
        nxt = rows[t + 1][1] if t + 1 < len(rows) else None
        for j, k in srcs:
            if not (0 <= j < len(modes)) or len(tr[j]) != 1:
                out.append(("C13", t, f"source object {j} numbered {k} by the map has no trg in the design"))
                continue
            m = modes[j]
            want = trg_ref(m, prev[j], iv[j])
            got = tr[j][0]
            if got != want:
                out.append(("C13", t, f"source {j} ({MODES[m]}, index {k}): i {prev[j]}->{iv[j]} but trg = {got}"))
            if nxt is not None and t not in resets:
                pk = (pend >> k) & 1; ck = (cl >> k) & 1; nk = (nxt >> k) & 1
                if got and not nk:
                    out.append(("C13", t, f"event lost: source {j} (index {k}) triggered with clear[{k}] = {ck}, "
                                          f"pending[{k}] = 0 in the next cycle"))
                elif nk != (got | (pk & (1 - ck))):
                    out.append(("C13", t, f"pending[{k}] {pk}->{nk} with trg(source {j}) = {got}, clear[{k}] = {ck}"))
            prev[j] = 0 if t in resets else iv[j]      # after a reset the previous input counts as low again
        if len(out) > 20:
            break
    return out


def nontrivial(case, obs):
    """>= 2 sources in the monitor, a trigger in the very cycle its clear bit is written, a pending bit
    cleared, src.i seen both low and high."""
    res1, res2, rows, widths = obs
    srcs = None
    for o, r in zip(case["ops2"], res2):
        if o[0] == SOURCES and r and r[0] == 2:
            srcs = r[1]
    if not srcs or len(srcs) < 2:
        return False
    coinc = cleared = False
    irqs = set()
    for t, ((iv, en, cl), (tr, pend, irq)) in enumerate(zip(case["stim"], rows)):
        irqs.add(irq)
        for j, k in srcs:
            if len(tr[j]) == 1 and tr[j][0] and (cl >> k) & 1:
                coinc = True
        if t + 1 < len(rows) and pend & ~rows[t + 1][1]:
            cleared = True
    return coinc and cleared and irqs == {0, 1}


def describe(case):
    return {"engine": "event", "kind": case["kind"], "modes": [MODES[m] for m in case["cfg"]["modes"]],
            "monitor_trigger": MODES[case["cfg"]["montrig"]], "ops_before": case["ops1"][:12],
            "ops_after": case["ops2"][:6], "cycles": len(case["stim"]),
            "first_cycles": case["stim"][:3]}


def stats(case, obs):
    """Per-case integer counters (summed by the runner): monitor sizes, API result kinds, and per trigger
    mode how often every (pending, trg, clear) combination of a single bit was exercised."""
    d = {}

    def inc(k, v=1):
        d[k] = d.get(k, 0) + v
    if not isinstance(obs, list) or len(obs) != 4 or obs[0] == "harness-exception":
        return d
    res1, res2, rows, widths = obs
    inc(f"monitor_size_{widths[1]}")
    for r in list(res1) + list(res2):
        key = {0: "none", 1: "int", 2: "sources", 3: "exc", 4: "other"}[r[0]]
        if r[0] == 3:
            key = ["ValueError", "TypeError", "KeyError", "other_exception"][r[1]]
        inc("api_result_" + key)
    srcs = None
    for op, r in zip(case["ops2"], res2):
        if op[0] == SOURCES and r and r[0] == 2:
            srcs = r[1]
    inc("cycles", len(rows))
    for (iv, en, cl), (tr, pend, irq) in zip(case["stim"], rows):
        inc("cycles_src_i_high", irq)
        for j, k in srcs or []:
            if 0 <= j < len(tr) and len(tr[j]) == 1:
                inc(f"{MODES[case['cfg']['modes'][j]]}_pending{(pend >> k) & 1}_trg{tr[j][0]}_clear{(cl >> k) & 1}")
    return d


def summarize(cases, obs):
    """Older runner API: the sum of stats() over all cases."""
    tot = {}
    for c, o in zip(cases, obs):
        for k, v in stats(c, o).items():
            tot[k] = tot.get(k, 0) + v
    return dict(sorted(tot.items()))


def shrink(case, fails):
    """Truncate the trace (binary then linear), then drop trailing API calls before the final sweep."""
    best = case
    T = len(best["stim"])
    lo = 1
    while lo < T:
        c = dict(best); c["stim"] = best["stim"][:lo]
        if fails(c):
            best = c
            break
        lo *= 2
    T = len(best["stim"])
    for k in range(max(0, T // 2), T):
        c = dict(best); c["stim"] = best["stim"][:k]
        if fails(c):
            best = c
            break
    return best
