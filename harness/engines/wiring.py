"""Engine `wiring` (C20): the Signature classes, the port declarations of the bus components and
wiring.connect() vs Model/Wiring.v.  No simulation: one case = one query.

kinds
  sig         one parameter tuple of one signature class: construct, members, create() round trip
  pair        two parameter tuples: == (both ways, and against flipped operands)
  port        one component x accepted (or refused) parameters x one port: flattened members as seen
              from outside, and a REAL wiring.connect() against the complementary standard interface
  misconnect  a component port against an arbitrary (wrong / flipped / other-class) interface: only the
              model's reading of connect()'s checks is compared, the property says nothing here
  two         wishbone.Arbiter.bus connected to a WishboneSRAM.wb_bus
"""
import json
from ..common import mkrnd

ENGINE_ID = 20
N = {"quick": 1500, "thorough": 16000}
RAW_COMPARE = True      # from_model is the identity
RULE = ("sig/pair: parameter tuples per signature class (valid, boundary, invalid; pairs equal / differing in "
        "exactly one field / cast-equal shape-likes / cross-class); port: every listed component over accepted "
        "parameters with a real connect(); wishbone: all 64 feature subsets x 10 (data_width, granularity) "
        "geometries enumerated in thorough, sampled in quick.  Non-trivial = accepted by the constructor(s) and, "
        "for port/two, connect() was really attempted")

# Python string order = the order connect() walks sorted(members.flatten()); index = Model name_code
NAMES = ["ack", "addr", "adr", "bte", "cti", "cyc", "dat_r", "dat_w", "err", "i", "lock", "o", "oe",
         "r_data", "r_stb", "rty", "sel", "stall", "stb", "trg", "w_data", "w_stb", "we"]
assert NAMES == sorted(NAMES)
NCODE = {n: k for k, n in enumerate(NAMES)}
FE = ["err", "rty", "stall", "lock", "cti", "bte"]
WBW = (8, 16, 32, 64)
GEOM = [(dw, g) for dw in WBW for g in WBW if g <= dw]          # 10 geometries
ACC = {"r": 0, "w": 1, "rw": 2}
FACC = {"r": 0, "w": 1, "rw": 2, "nc": 3}
TRG = {"level": 0, "rise": 1, "fall": 2}
CLS = ["csr", "elem", "field", "wb", "src", "pin"]
COMPS = ["mux", "csrdec", "bridge", "evmon", "gpio", "wbcsr", "sram", "wbdec", "arb"]
IN, OUT = 0, 1


# --------------------------------------------------------------------------- pure-Python helpers

def ceil_log2(n):
    return 0 if n <= 1 else (n - 1).bit_length()


def bits_for(n, sign=False):
    if n > 0:
        r = ceil_log2(n + 1)
    else:
        sign = True
        r = ceil_log2(-n)
    return r + 1 if sign else r


def cast_desc(d):
    """(width, signed) Amaranth's Shape.cast gives for a shape-like descriptor, None if not shape-like."""
    k = d[0]
    if k == "int":
        return None if d[1] < 0 else (d[1], 0)
    if k == "unsigned":
        return (d[1], 0)
    if k == "signed":
        return (d[1], 1)
    if k == "enum":                     # amaranth.lib.enum.Enum with an explicit shape
        return (d[1], d[2])
    if k == "penum":                    # plain enum.Enum with members 0 and d[1]
        return (max(bits_for(0), bits_for(d[1])), 0)
    if k == "range":
        lo, hi = d[1], d[2]
        if hi <= lo:
            return (0, 0)
        a, b = lo, hi - 1
        sg = a < 0 or b < 0
        w = max(bits_for(a, sg), bits_for(b, sg))
        if a == b == 0:
            w = 0
        return (w, int(sg))
    return None


def key(a):
    """The defining parameters of a signature, normalised the way the property speaks of them."""
    c = a["cls"]
    if c == "csr":
        return ("csr", a["aw"], a["dw"])
    if c == "elem":
        return ("elem", a["width"], a["access"])
    if c == "field":
        return ("field", cast_desc(a["shape"]), a["access"])
    if c == "wb":
        return ("wb", a["aw"], a["dw"], a["dw"] if a["gran"] is None else a["gran"], tuple(a["feat"]))
    if c == "src":
        return ("src", a["trigger"])
    return ("pin",)


def exp_members(k):
    """name -> (flow, width, signed) that the parameters `k` (a key()) call for."""
    c = k[0]
    if c == "csr":
        return {"addr": (OUT, k[1], 0), "r_data": (IN, k[2], 0), "r_stb": (OUT, 1, 0),
                "w_data": (OUT, k[2], 0), "w_stb": (OUT, 1, 0)}
    if c == "elem":
        m = {}
        if "r" in k[2]:
            m.update({"r_data": (IN, k[1], 0), "r_stb": (OUT, 1, 0)})
        if "w" in k[2]:
            m.update({"w_data": (OUT, k[1], 0), "w_stb": (OUT, 1, 0)})
        return m
    if c == "field":
        w, s = k[1]
        return {"r_data": (IN, w, s), "r_stb": (OUT, 1, 0), "w_data": (OUT, w, s), "w_stb": (OUT, 1, 0)}
    if c == "wb":
        _, aw, dw, g, ft = k
        m = {"adr": (OUT, aw, 0), "dat_w": (OUT, dw, 0), "dat_r": (IN, dw, 0), "sel": (OUT, dw // g, 0),
             "cyc": (OUT, 1, 0), "stb": (OUT, 1, 0), "we": (OUT, 1, 0), "ack": (IN, 1, 0)}
        opt = {"err": (IN, 1, 0), "rty": (IN, 1, 0), "stall": (IN, 1, 0), "lock": (OUT, 1, 0),
               "cti": (OUT, 3, 0), "bte": (OUT, 2, 0)}
        for f, on in zip(FE, ft):
            if on:
                m[f] = opt[f]
        return m
    if c == "src":
        return {"i": (OUT, 1, 0), "trg": (IN, 1, 0)}
    return {"i": (IN, 1, 0), "o": (OUT, 1, 0), "oe": (OUT, 1, 0)}


def gpio_min_aw(pins, dw):
    cur = 0
    for w in (2 * pins, pins, pins, 2 * pins):          # Mode, Input, Output, SetClr
        sz = (w + dw - 1) // dw
        p = 1 << ceil_log2(sz)
        st = -(-cur // p) * p
        cur = st + p
    return max(1, ceil_log2(cur))


def exp_port(cfg, k):
    """(declared flow, key of the underlying signature) the role of port k implies, from the
    constructor parameters alone."""
    c = cfg["comp"]
    if c in ("mux", "csrdec", "bridge"):
        return IN, ("csr", cfg["aw"], cfg["dw"])
    if c == "evmon":
        if k == 1:
            return OUT, ("src", cfg["trigger"])
        rs = (cfg["n"] + cfg["dw"] - 1) // cfg["dw"]
        return IN, ("csr", 1 + max(ceil_log2(rs), cfg["al"]), cfg["dw"])
    if c == "gpio":
        return (OUT, ("pin",)) if k == 1 else (IN, ("csr", cfg["aw"], cfg["dw"]))
    if c == "wbcsr":
        dw = cfg["cdw"] if cfg["dw"] is None else cfg["dw"]
        ratio = dw // cfg["cdw"]
        return IN, ("wb", max(0, cfg["caw"] - (ratio.bit_length() - 1)), dw, cfg["cdw"], (0,) * 6)
    if c == "sram":
        g = cfg["dw"] if cfg["gran"] is None else cfg["gran"]
        depth = cfg["size"] * g // cfg["dw"]
        return IN, ("wb", depth.bit_length() - 1, cfg["dw"], g, (0,) * 6)
    g = cfg["dw"] if cfg["gran"] is None else cfg["gran"]
    return (IN if c == "wbdec" else OUT), ("wb", cfg["aw"], cfg["dw"], g, tuple(cfg["feat"]))


# --------------------------------------------------------------------------- generators

def gen_shape(rnd):
    return rnd.choice([["int", rnd.choice([0, 1, 2, 8, 8, 13])], ["unsigned", rnd.choice([0, 1, 3, 8, 8, 32])],
                       ["signed", rnd.choice([1, 2, 8, 8, 9])], ["enum", rnd.choice([1, 3, 8, 8]), rnd.randrange(2)],
                       ["penum", rnd.choice([1, 5, 200, 255, 256])],
                       ["range", rnd.choice([-128, -3, 0, 0, 0, 1]), rnd.choice([0, 1, 2, 8, 128, 256, 257])]])


def gen_feat(rnd):
    p = rnd.choice([0.0, 0.2, 0.5, 0.5, 0.8, 1.0])
    return [int(rnd.random() < p) for _ in FE]


def gen_wb(rnd, invalid=False):
    dw, g = rnd.choice(GEOM)
    a = {"cls": "wb", "aw": rnd.choice([0, 0, 1, 2, 5, 16, 30, 32, rnd.randint(0, 64)]), "dw": dw,
         "gran": None if (g == dw and rnd.random() < 0.5) else g, "feat": gen_feat(rnd), "bad": 0}
    if invalid:
        k = rnd.randrange(6)
        if k == 0:
            a["aw"] = rnd.choice([-1, -7])
        elif k == 1:
            a["dw"] = rnd.choice([0, 1, 12, 24, 128, -8]); a["gran"] = rnd.choice([None, a["gran"]])
        elif k == 2:
            a["gran"] = rnd.choice([0, 4, 12, 128, -8])
        elif k == 3:
            a["dw"], a["gran"] = rnd.choice([(8, 16), (8, 64), (16, 32), (32, 64)])
        elif k == 4:
            a["bad"] = 1
        else:                         # several things wrong at once: the first check decides the class
            a["aw"] = -1; a["dw"] = 12; a["bad"] = 1
    return a


def gen_sigargs(rnd, cls=None, invalid=False):
    cls = cls or rnd.choice(CLS)
    if cls == "csr":
        a = {"cls": "csr", "aw": rnd.choice([1, 1, 2, 3, 8, 16, 30, rnd.randint(1, 64)]),
             "dw": rnd.choice([1, 3, 8, 8, 16, 32, 64, rnd.randint(1, 128), 257, 300])}
        if invalid:
            a[rnd.choice(["aw", "dw"])] = rnd.choice([0, -1, -5])
        return a
    if cls == "elem":
        a = {"cls": "elem", "width": rnd.choice([0, 1, 2, 7, 8, 8, 32, 100, 256, 257, 300, 1000]), "access": rnd.choice(["r", "w", "rw"])}
        if invalid:
            k = rnd.randrange(3)
            if k != 1:
                a["width"] = rnd.choice([-1, -8])
            if k != 0:
                a["access"] = "zz"
        return a
    if cls == "field":
        a = {"cls": "field", "shape": gen_shape(rnd), "access": rnd.choice(["r", "w", "rw", "nc"])}
        if invalid:
            k = rnd.randrange(3)
            if k != 1:
                a["shape"] = rnd.choice([["bad"], ["int", -1], ["int", -9]])
            if k != 0:
                a["access"] = "zz"
        return a
    if cls == "wb":
        return gen_wb(rnd, invalid)
    if cls == "src":
        return {"cls": "src", "trigger": "zz" if invalid else rnd.choice(["level", "rise", "fall"])}
    return {"cls": "pin"}


def mutate_one(rnd, a):
    """A copy differing from `a` in exactly one defining parameter (None if the class has none)."""
    b = {k: (list(v) if isinstance(v, list) else v) for k, v in a.items()}
    c = a["cls"]
    if c == "csr":
        f = rnd.choice(["aw", "dw"]); b[f] = a[f] + rnd.choice([1, 1, 2, 7])
    elif c == "elem":
        if rnd.random() < 0.5:
            b["width"] = a["width"] + rnd.choice([1, 1, 8])
        else:
            b["access"] = rnd.choice([x for x in ACC if x != a["access"]])
    elif c == "field":
        w, s = cast_desc(a["shape"])
        k = rnd.randrange(3)
        if k == 0:
            b["access"] = rnd.choice([x for x in FACC if x != a["access"]])
        elif k == 1 or w == 0:
            b["shape"] = ["signed" if s else "unsigned", w + rnd.choice([1, 1, 3])]
        else:                                  # same width, other signedness
            b["shape"] = ["unsigned" if s else "signed", w]
    elif c == "wb":
        g = a["dw"] if a["gran"] is None else a["gran"]
        k = rnd.randrange(4)
        if k == 0:
            b["aw"] = a["aw"] + rnd.choice([1, 1, 2])
        elif k == 1:                           # other granularity, same data width
            gs = [x for x in WBW if x <= a["dw"] and x != g]
            if gs:
                b["gran"] = rnd.choice(gs)
            else:
                b["aw"] = a["aw"] + 1
        elif k == 2:                           # other data width, same granularity
            ds = [x for x in WBW if x >= g and x != a["dw"]]
            if ds:
                b["dw"] = rnd.choice(ds); b["gran"] = g
            else:
                b["aw"] = a["aw"] + 1
        else:
            i = rnd.randrange(6); b["feat"][i] ^= 1
    elif c == "src":
        b["trigger"] = rnd.choice([x for x in TRG if x != a["trigger"]])
    else:
        return None
    return b


def respell(rnd, a):
    """Other constructor arguments denoting the same defining parameters."""
    b = {k: (list(v) if isinstance(v, list) else v) for k, v in a.items()}
    if a["cls"] == "field":
        w, s = cast_desc(a["shape"])
        alts = [["signed", w]] if s else [["unsigned", w], ["int", w]]
        if s:
            alts.append(["enum", w, 1])
            alts.append(["range", -(1 << (w - 1)), 1 << (w - 1)])
        elif w >= 1:
            alts.append(["enum", w, 0])
            alts.append(["range", 0, 1 << w])
            alts.append(["penum", (1 << w) - 1])
        else:
            alts.append(["range", 0, 0])
        b["shape"] = rnd.choice(alts)
    elif a["cls"] == "wb":
        g = a["dw"] if a["gran"] is None else a["gran"]
        if g == a["dw"]:
            b["gran"] = g if a["gran"] is None else None
    return b


def gen_comp(rnd, comp=None, invalid=False):
    comp = comp or rnd.choice(COMPS)
    if comp in ("mux", "bridge", "csrdec"):
        c = {"comp": comp, "aw": rnd.choice([1, 2, 3, 4, 8, 12, 16, rnd.randint(1, 32)]),
             "dw": rnd.choice([1, 3, 8, 8, 16, 32, 64, rnd.randint(1, 64)])}
        if invalid and comp == "csrdec":
            c[rnd.choice(["aw", "dw"])] = rnd.choice([0, -1])
        return c
    if comp == "evmon":
        c = {"comp": "evmon", "n": rnd.choice([0, 1, 2, 7, 8, 9, 17, rnd.randint(0, 40)]),
             "dw": rnd.choice([1, 3, 8, 8, 16, 32]), "al": rnd.choice([0, 0, 1, 2, 3, 5]),
             "trigger": rnd.choice(["level", "rise", "fall"])}
        if invalid:
            k = rnd.randrange(3)
            if k == 0:
                c["dw"] = rnd.choice([0, -8])
            elif k == 1:
                c["al"] = -1
            else:
                c["trigger"] = "zz"
        return c
    if comp == "gpio":
        pins = rnd.randint(1, 9); dw = rnd.choice([8, 8, 16, 32, 24, 64])
        c = {"comp": "gpio", "pins": pins, "aw": gpio_min_aw(pins, dw) + rnd.choice([0, 0, 1, 3]), "dw": dw,
             "pin": rnd.randrange(pins)}
        if invalid:
            j = rnd.randrange(3)
            if j == 0:
                c["pins"] = rnd.choice([0, -2]); c["pin"] = 0
            elif j == 1:
                c["dw"] = rnd.choice([5, 12, 1, 0])      # csr.Builder: granularity 8 must divide it
            else:
                c["aw"] = rnd.choice([0, -1])
        return c
    if comp == "wbcsr":
        cdw = rnd.choice(WBW)
        dw = rnd.choice([None] + [x for x in WBW if x >= cdw])
        k = ((dw or cdw) // cdw).bit_length() - 1
        c = {"comp": "wbcsr", "caw": rnd.choice([max(1, k), max(1, k), k + 1, k + 3, 10, 16]), "cdw": cdw, "dw": dw}
        if invalid:
            j = rnd.randrange(5)
            if j == 0:
                c["cdw"] = rnd.choice([4, 12, 1]); c["dw"] = rnd.choice([None, 32])
            elif j == 1 and cdw > 8:
                c["dw"] = 8                       # narrower than the CSR bus
            elif j == 2:
                c["dw"] = cdw * 3
            elif j == 3:
                c["dw"] = 128 if cdw < 64 else 256
            else:                                 # fewer CSR address bits than the ratio needs
                c["cdw"] = 8; c["dw"] = rnd.choice([32, 64]); c["caw"] = 1
        return c
    if comp == "sram":
        dw, g = rnd.choice(GEOM)
        lo = max(1, (dw // g).bit_length() - 1)
        c = {"comp": "sram", "size": 1 << rnd.randint(lo, lo + 9), "dw": dw,
             "gran": None if (g == dw and rnd.random() < 0.5) else g}
        if invalid:
            j = rnd.randrange(6)
            if j == 0:
                c["size"] = rnd.choice([0, 3, 12, -4])
            elif j == 1:
                c["dw"] = rnd.choice([12, 128, 0]); c["gran"] = rnd.choice([None, 8])
            elif j == 2:
                c["gran"] = rnd.choice([4, 12, 0])
            elif j == 3:
                c["size"] = 1                     # MemoryMap(addr_width=0), or size*granularity < data_width
            elif j == 4:
                c["dw"], c["gran"] = rnd.choice([(8, 16), (16, 64)])
            else:
                c["size"] = 2; c["dw"] = 64; c["gran"] = 8
        return c
    a = gen_wb(rnd, invalid)
    return {"comp": comp, "aw": a["aw"], "dw": a["dw"], "gran": a["gran"], "feat": a["feat"], "bad": a["bad"]}


def n_ports(cfg):
    return 2 if cfg["comp"] in ("evmon", "gpio") else 1


def gen_case(seed, tier, idx):
    rnd = mkrnd(seed, "wiring", idx)
    stream, j = idx % 5, idx // 5
    E = "wiring"
    if stream == 0:
        return {"engine": E, "kind": "sig", "cfg": {"a": gen_sigargs(rnd, CLS[j % 6], invalid=rnd.random() < 0.15)}}
    if stream == 1:
        mode = ["same", "one", "one", "respell", "random", "one"][j % 6]
        a = gen_sigargs(rnd, CLS[(j // 6) % 6])
        if j % 12 == 5 and a["cls"] in ("csr", "wb") and a.get("aw") != a.get("dw"):
            mode = "swap"         # the same set of parameter values under exchanged names
        if mode == "swap":
            b = dict(a); b["aw"], b["dw"] = a["dw"], a["aw"]
        elif mode == "same":
            b = dict(a)
        elif mode == "one":
            b = mutate_one(rnd, a) or dict(a)
        elif mode == "respell":
            b = respell(rnd, a)
        else:
            b = gen_sigargs(rnd, None if rnd.random() < 0.5 else a["cls"], invalid=rnd.random() < 0.1)
        return {"engine": E, "kind": "pair", "mode": mode, "cfg": {"a": a, "b": b}}
    if stream == 2:
        cfg = gen_comp(rnd, COMPS[j % 9], invalid=rnd.random() < 0.12)
        return {"engine": E, "kind": "port", "cfg": cfg, "port": rnd.randrange(n_ports(cfg))}
    if stream == 3:
        if j % 4 == 3:
            # arbiter output wired to an SRAM: same geometry (most), or a deliberately different one
            dw, g = rnd.choice(GEOM); aw = rnd.randint(1 if g == dw else 0, 9)
            arb = {"comp": "arb", "aw": aw, "dw": dw, "gran": g, "feat": [0] * 6, "bad": 0}
            sram = {"comp": "sram", "size": (dw // g) << aw, "dw": dw, "gran": g}
            same = rnd.random() < 0.7
            if not same:
                if rnd.random() < 0.5:
                    arb["feat"] = gen_feat(rnd)
                else:
                    sram["size"] *= 2
            return {"engine": E, "kind": "two", "cfg": {"a": arb, "b": sram}}
        cfg = gen_comp(rnd, COMPS[(j // 4) % 9])
        k = rnd.randrange(n_ports(cfg))
        _, pk = exp_port(cfg, k)
        # the other side: right class with one parameter off, the exact signature, or anything
        base = key_to_args(pk)
        r = rnd.random()
        if r < 0.45:
            o = mutate_one(rnd, base) or base
        elif r < 0.7:
            o = base
        else:
            o = gen_sigargs(rnd, invalid=rnd.random() < 0.05)
        return {"engine": E, "kind": "misconnect", "cfg": cfg, "port": k, "other": o, "flip": rnd.randrange(2)}
    # stream 4: wishbone feature subsets x geometries, enumerated
    rnd_kind, combo = j % 3, j // 3
    sub = combo % 64
    dw, g = GEOM[(combo // 64 + sub) % 10]
    feat = [(sub >> i) & 1 for i in range(6)]
    aw = rnd.choice([0, 1, 2, 8, 30])
    gran = None if (g == dw and rnd.random() < 0.3) else g
    if rnd_kind == 0:
        return {"engine": E, "kind": "sig", "cfg": {"a": {"cls": "wb", "aw": aw, "dw": dw, "gran": gran,
                                                            "feat": feat, "bad": 0}}}
    return {"engine": E, "kind": "port", "port": 0,
            "cfg": {"comp": "wbdec" if rnd_kind == 1 else "arb", "aw": aw, "dw": dw, "gran": gran,
                    "feat": feat, "bad": 0}}


def key_to_args(k):
    c = k[0]
    if c == "csr":
        return {"cls": "csr", "aw": k[1], "dw": k[2]}
    if c == "wb":
        return {"cls": "wb", "aw": k[1], "dw": k[2], "gran": k[3], "feat": list(k[4]), "bad": 0}
    if c == "src":
        return {"cls": "src", "trigger": k[1]}
    return {"cls": "pin"}


# --------------------------------------------------------------------------- case -> sx

def sx_sigargs(a):
    c = a["cls"]
    if c == "csr":
        return [0, a["aw"], a["dw"]]
    if c == "elem":
        return [1, a["width"], ACC.get(a["access"], 9)]
    if c == "field":
        d = a["shape"]
        if d[0] == "int":
            sl = [0, d[1]]
        elif d[0] == "bad":
            sl = [2]
        else:
            sl = [1] + list(cast_desc(d))
        return [2, sl, FACC.get(a["access"], 9)]
    if c == "wb":
        return [3, a["aw"], a["dw"], [] if a["gran"] is None else [a["gran"]], list(a["feat"]), a["bad"]]
    if c == "src":
        return [4, TRG.get(a["trigger"], 9)]
    return [5]


def sx_comp(c):
    k = c["comp"]
    if k in ("mux", "csrdec", "bridge"):
        return [{"mux": 0, "csrdec": 1, "bridge": 2}[k], c["aw"], c["dw"]]
    if k == "evmon":
        return [3, c["n"], c["dw"], c["al"], TRG.get(c["trigger"], 9)]
    if k == "gpio":
        return [4, c["pins"], c["aw"], c["dw"]]
    if k == "wbcsr":
        return [5, c["caw"], c["cdw"], [] if c["dw"] is None else [c["dw"]]]
    if k == "sram":
        return [6, c["size"], c["dw"], [] if c["gran"] is None else [c["gran"]]]
    return [7 if k == "wbdec" else 8, c["aw"], c["dw"], [] if c["gran"] is None else [c["gran"]],
            list(c["feat"]), c["bad"]]


def to_model(case):
    k = case["kind"]
    if k == "sig":
        return [1, sx_sigargs(case["cfg"]["a"])]
    if k == "pair":
        return [2, sx_sigargs(case["cfg"]["a"]), sx_sigargs(case["cfg"]["b"])]
    if k == "port":
        return [3, sx_comp(case["cfg"]), case["port"]]
    if k == "misconnect":
        return [4, sx_comp(case["cfg"]), case["port"], sx_sigargs(case["other"]), case["flip"]]
    return [5, sx_comp(case["cfg"]["a"]), sx_comp(case["cfg"]["b"])]


def from_model(res):
    return res


def canon(obs):
    """obs = [what the model also computes, harness-only extras for the oracle]."""
    return obs[0]


# --------------------------------------------------------------------------- the real thing

def _refusal(e):
    return 1 if isinstance(e, ValueError) else 2


def real_shape(d):
    from amaranth import unsigned, signed
    import enum as pyenum
    from amaranth.lib import enum as aenum
    k = d[0]
    if k == "int":
        return d[1]
    if k == "unsigned":
        return unsigned(d[1])
    if k == "signed":
        return signed(d[1])
    if k == "range":
        return range(d[1], d[2])
    if k == "enum":
        class E(aenum.Enum, shape=(signed(d[1]) if d[2] else unsigned(d[1]))):
            A = 0
        return E
    if k == "penum":
        return pyenum.Enum("P", {"A": 0, "B": d[1]})
    return "not-a-shape"


def spell(fs, key):
    """The same feature set in one of the spellings the API accepts (any iterable of strings or Feature
    members): the container type must not matter."""
    from amaranth_soc import wishbone
    v = key % 7
    if v == 0:
        return list(fs)
    if v == 1:
        return set(fs)
    if v == 2:
        return frozenset(fs)
    if v == 3:
        return tuple(fs)
    try:
        ms = [wishbone.Feature(f) for f in fs]
    except ValueError:
        return list(fs)             # an invalid spelling ("bogus") stays a string
    return [ms, frozenset(ms), (m for m in ms)][v - 4]


def _fresh(x):
    """An int object of its own (CPython shares small ints only): equal parameters must be enough for equality,
    wherever the two numbers came from."""
    return int(str(x)) if type(x) is int else x


def build_sig(a):
    from amaranth_soc import csr, wishbone, event, gpio
    a = {k: _fresh(v) for k, v in a.items()}
    c = a["cls"]
    if c == "csr":
        return csr.Signature(addr_width=a["aw"], data_width=a["dw"])
    if c == "elem":
        acc = a["access"]
        if a["width"] % 2 == 1 and acc in ("r", "w", "rw"):
            acc = csr.Element.Access(acc)          # the enum spelling of the same parameter
        return csr.Element.Signature(a["width"], acc)
    if c == "field":
        return csr.FieldPort.Signature(real_shape(a["shape"]), a["access"])
    if c == "wb":
        fs = [f for f, on in zip(FE, a["feat"]) if on] + (["bogus"] if a["bad"] else [])
        kw = {} if a["gran"] is None else {"granularity": a["gran"]}
        key = a["aw"] * 3 + a["dw"] + sum((k + 1) * b for k, b in enumerate(a["feat"]))
        return wishbone.Signature(addr_width=a["aw"], data_width=a["dw"], features=spell(fs, key), **kw)
    if c == "src":
        trg = a["trigger"]
        if trg in ("rise", "fall"):
            trg = event.Source.Trigger(trg)        # the enum spelling of the same parameter
        return event.Source.Signature(trigger=trg)
    return gpio.PinSignature()


def readback(sig):
    """Class and attributes of a (possibly flipped) signature, read through its public properties."""
    from amaranth.lib import wiring
    from amaranth.hdl import Shape
    from amaranth_soc import csr, wishbone, event, gpio
    u = sig.flip() if type(sig) is wiring.FlippedSignature else sig
    if isinstance(u, csr.Signature):
        return [0, sig.addr_width, sig.data_width]
    if isinstance(u, csr.Element.Signature):
        return [1, sig.width, ACC[sig.access.value]]
    if isinstance(u, csr.FieldPort.Signature):
        sh = Shape.cast(sig.shape)
        return [2, sh.width, int(sh.signed), FACC[sig.access.value]]
    if isinstance(u, wishbone.Signature):
        fs = {getattr(f, "value", f) for f in sig.features}     # tolerate un-normalised spellings: report them
        return [3, sig.addr_width, sig.data_width, sig.granularity, [int(f in fs) for f in FE]]
    if isinstance(u, event.Source.Signature):
        return [4, TRG[sig.trigger.value]]
    if isinstance(u, gpio.PinSignature):
        return [5]
    return [99]


def enc_path(p):
    return [NCODE.get(x, 100 + x if isinstance(x, int) else 99) for x in p]


def members_of(sig):
    """sig.members, flattened: [[path], flow, width, signed] in the order Amaranth yields them."""
    from amaranth.hdl import Shape
    from amaranth.lib.wiring import Out
    out = []
    for path, m in sig.members.flatten():
        if not m.is_port or m.dimensions:
            out.append([enc_path(path), 7, 0, 0]); continue
        sh = Shape.cast(m.shape)
        out.append([enc_path(path), OUT if m.flow == Out else IN, sh.width, int(sh.signed)])
    return out


def flat_of(sig, obj):
    """sig.flatten(obj): flows from the signature, shapes from the actual attribute values."""
    from amaranth.hdl import Shape, Value
    from amaranth.lib.wiring import Out
    out = []
    for path, m, v in sig.flatten(obj):
        sh = Value.cast(v).shape()
        ms = Shape.cast(m.shape)
        if (ms.width, ms.signed) != (sh.width, sh.signed):
            out.append([enc_path(path), 8, sh.width, int(sh.signed)]); continue
        out.append([enc_path(path), OUT if m.flow == Out else IN, sh.width, int(sh.signed)])
    return out


CONN_PAT = [("is present in", 1), ("shape widths", 2), ("several output members", 3),
            ("Only input to input", 4), ("initial value", 5), ("does not match its signature", 6),
            ("signature member", 7)]


def try_connect(a, b):
    """0 on success, else the kind of ConnectionError (1 missing member, 2 width, 3 several outputs,
    4 only inputs, 5.. others)."""
    from amaranth.hdl import Module
    from amaranth.lib import wiring
    m = Module()
    try:
        wiring.connect(m, a, b)
        return 0
    except wiring.ConnectionError as e:
        s = str(e)
        for pat, code in CONN_PAT:
            if pat in s:
                return code
        return 9


def build_comp(c):
    """The real component through its public constructor; returns (component, [(member name, port object)])."""
    from amaranth_soc import csr, wishbone, event, gpio
    from amaranth_soc.csr import action
    from amaranth_soc.csr.event import EventMonitor
    from amaranth_soc.csr.wishbone import WishboneCSRBridge
    from amaranth_soc.wishbone.sram import WishboneSRAM
    from amaranth_soc.memory import MemoryMap
    k = c["comp"]
    if k == "mux":
        d = csr.Multiplexer(MemoryMap(addr_width=c["aw"], data_width=c["dw"]))
        return d, [("bus", d.bus)]
    if k == "csrdec":
        # the alignment (of the decoder's memory map) has no say in the bus port: 0 .. addr_width + 2, by the
        # shape of the case, values above the address width included
        al = (c["aw"] * 3 + c["dw"]) % (c["aw"] + 3) if isinstance(c["aw"], int) and isinstance(c["dw"], int) and c["aw"] > 0 else 0
        d = csr.Decoder(addr_width=c["aw"], data_width=c["dw"], alignment=al)
        return d, [("bus", d.bus)]
    if k == "bridge":
        reg = csr.Register(csr.Field(action.RW, 3), access="rw")
        fits = (c["dw"] << c["aw"]) >= 8
        if c["dw"] % 8 == 0:
            b = csr.Builder(addr_width=c["aw"], data_width=c["dw"])
            if fits:
                b.add("x", reg)
            mm = b.as_memory_map()
        else:                           # csr.Builder wants a multiple of 8; csr.Bridge itself does not
            mm = MemoryMap(addr_width=c["aw"], data_width=c["dw"])
            if fits:
                mm.add_resource(reg, name=("x",), size=(3 + c["dw"] - 1) // c["dw"])
        d = csr.Bridge(mm)
        return d, [("bus", d.bus)]
    if k == "evmon":
        em = event.EventMap()
        for i in range(c["n"]):
            em.add(event.Source(trigger=["level", "rise", "fall"][i % 3], path=(f"s{i}",)))
        d = EventMonitor(em, trigger=c["trigger"], data_width=c["dw"], alignment=c["al"])
        return d, [("bus", d.bus), ("src", d.src)]
    if k == "gpio":
        d = gpio.Peripheral(pin_count=c["pins"], addr_width=c["aw"], data_width=c["dw"])
        return d, [("bus", d.bus), ("pins", d.pins[c["pin"]])]
    if k == "wbcsr":
        cb = csr.Interface(addr_width=c["caw"], data_width=c["cdw"], path=("c",))
        cb.memory_map = MemoryMap(addr_width=c["caw"], data_width=c["cdw"])
        d = WishboneCSRBridge(cb, data_width=c["dw"])
        return d, [("wb_bus", d.wb_bus)]
    if k == "sram":
        kw = {} if c["gran"] is None else {"granularity": c["gran"]}
        d = WishboneSRAM(size=c["size"], data_width=c["dw"], **kw)
        return d, [("wb_bus", d.wb_bus)]
    fs = [f for f, on in zip(FE, c["feat"]) if on] + (["bogus"] if c["bad"] else [])
    kw = {} if c["gran"] is None else {"granularity": c["gran"]}
    cls = wishbone.Decoder if k == "wbdec" else wishbone.Arbiter
    key = c["aw"] * 3 + c["dw"] + sum((k + 1) * b for k, b in enumerate(c["feat"]))
    d = cls(addr_width=c["aw"], data_width=c["dw"], features=spell(fs, key), **kw)
    return d, [("bus", d.bus)]


def complement(port, flow):
    """The standard interface of the other side with the same parameters: initiator-side for a port
    declared In, target-side (flipped) for a port declared Out."""
    from amaranth.lib.wiring import flipped
    from amaranth_soc import csr, wishbone, event, gpio
    rb = readback(port.signature)
    if rb[0] == 0:
        i = csr.Interface(addr_width=rb[1], data_width=rb[2], path=("ini",))
    elif rb[0] == 3:
        i = wishbone.Interface(addr_width=rb[1], data_width=rb[2], granularity=rb[3],
                               features=[f for f, on in zip(FE, rb[4]) if on], path=("ini",))
    elif rb[0] == 4:
        i = event.Source(trigger=["level", "rise", "fall"][rb[1]], path=("ini",))
    elif rb[0] == 5:
        i = gpio.PinSignature().create(path=("ini",))
    else:
        raise RuntimeError(f"no standard interface for {rb}")
    return i if flow == IN else flipped(i)


def run_impl(case):
    import warnings
    warnings.simplefilter("ignore")
    from amaranth.lib import wiring
    from amaranth.lib.wiring import Out, flipped
    k = case["kind"]
    if k == "sig":
        try:
            s = build_sig(case["cfg"]["a"])
        except (ValueError, TypeError) as e:
            return [[-2, _refusal(e)], []]
        try:
            # the path is optional: left out, None, or given
            how = len(json.dumps(case["cfg"]["a"])) % 3
            i = s.create() if how == 0 else s.create(path=None) if how == 1 else s.create(path=("x",))
        except (ValueError, TypeError) as e:
            return [[0, readback(s), members_of(s), [-2, _refusal(e)]], []]
        s2 = i.signature
        cr = [0, readback(s2), flat_of(s, i), int(s == s2), int(s2 == s)]
        extras = [type(i).__name__, int(bool(s.is_compliant(i))), members_of(s2),
                  int(s.flip().flip() is s), int(s.flip().flip() == s), int(s != s2)]
        return [[0, readback(s), members_of(s), cr], extras]
    if k == "pair":
        try:
            a = build_sig(case["cfg"]["a"])
        except (ValueError, TypeError) as e:
            return [[-2, _refusal(e)], []]
        try:
            b = build_sig(case["cfg"]["b"])
        except (ValueError, TypeError) as e:
            return [[-3, _refusal(e)], []]
        fl = [int(a == b), int(b == a), int(a != b), int(a == b.flip()), int(a.flip() == b),
              int(a.flip() == b.flip())]
        return [[0, fl], [members_of(a), members_of(b)]]
    if k in ("port", "misconnect"):
        try:
            d, ports = build_comp(case["cfg"])
        except (ValueError, TypeError) as e:
            return [[-2, _refusal(e)], []]
        name, p = ports[case["port"]]
        if k == "misconnect":
            try:
                o = build_sig(case["other"])
            except (ValueError, TypeError) as e:
                return [[-3, _refusal(e)], []]
            oi = o.create(path=("o",))
            if case["flip"]:
                oi = flipped(oi)
            return [[0, try_connect(p, oi)], []]
        flow = OUT if d.signature.members[name].flow == Out else IN
        sg = p.signature
        cmpl = complement(p, flow)
        res = try_connect(cmpl, p) if flow == IN else try_connect(p, cmpl)
        mine = flat_of(sg, p)
        extras = [flat_of(cmpl.signature, cmpl), int(bool(sg.is_compliant(p)))]
        return [[0, flow, int(type(sg) is wiring.FlippedSignature), readback(sg), mine, res], extras]
    # two
    try:
        da, pa = build_comp(case["cfg"]["a"])
    except (ValueError, TypeError) as e:
        return [[-2, _refusal(e)], []]
    try:
        db, pb = build_comp(case["cfg"]["b"])
    except (ValueError, TypeError) as e:
        return [[-3, _refusal(e)], []]
    return [[0, try_connect(pa[0][1], pb[0][1])], []]


# --------------------------------------------------------------------------- property, over the implementation only

def fmt(ms):
    """Readable member list: addr:Out(4) ..."""
    def one(m):
        nm = ".".join(NAMES[c] if 0 <= c < len(NAMES) else str(c) for c in m[0])
        fl = {IN: "In", OUT: "Out"}.get(m[1], f"?{m[1]}")
        return f"{nm}:{fl}({'s' if m[3] else ''}{m[2]})"
    if isinstance(ms, dict):
        ms = [[list(p)] + list(v) for p, v in sorted(ms.items())]
    return "[" + " ".join(one(m) for m in ms) + "]"


def _as_dict(ms):
    return {tuple(m[0]): tuple(m[1:]) for m in ms}


def _exp_dict(k, flipped_=False):
    return {(NCODE[n],): ((1 - f if flipped_ else f), w, s) for n, (f, w, s) in exp_members(k).items()}


def rb_key(rb):
    """key() form of a readback()."""
    c = rb[0]
    if c == 0:
        return ("csr", rb[1], rb[2])
    if c == 1:
        return ("elem", rb[1], ["r", "w", "rw"][rb[2]])
    if c == 2:
        return ("field", (rb[1], rb[2]), ["r", "w", "rw", "nc"][rb[3]])
    if c == 3:
        return ("wb", rb[1], rb[2], rb[3], tuple(rb[4]))
    if c == 4:
        return ("src", ["level", "rise", "fall"][rb[1]])
    if c == 5:
        return ("pin",)
    return ("?",)


def oracle(case, obs):
    """C20 restated over what the real objects did; no model involved."""
    o, x = obs
    k = case["kind"]
    out = []
    if o[0] != 0:
        return out
    if k == "sig":
        kk = key(case["cfg"]["a"])
        if rb_key(o[1]) != kk:
            out.append(("C20", "attributes", f"signature built from {case['cfg']['a']} reports parameters {rb_key(o[1])}, expected {kk}"))
        if _as_dict(o[2]) != _exp_dict(kk):
            out.append(("C20", "members", f"members {fmt(o[2])} do not follow the parameters {kk}: expected {fmt(_exp_dict(kk))}"))
        cr = o[3]
        if cr[0] != 0:
            out.append(("C20", "create", f"create() of an accepted signature {kk} raised"))
        else:
            if cr[3] != 1 or cr[4] != 1 or x[5] != 0:
                out.append(("C20", "create", f"{kk}: sig == sig.create().signature is {bool(cr[3])} (reflected {bool(cr[4])}, != {bool(x[5])})"))
            if rb_key(cr[1]) != kk:
                out.append(("C20", "create", f"{kk}: created interface's signature has parameters {rb_key(cr[1])}"))
            if _as_dict(cr[2]) != _exp_dict(kk) or _as_dict(x[2]) != _exp_dict(kk):
                out.append(("C20", "create", f"{kk}: created interface has members {fmt(cr[2])}"))
            if x[1] != 1:
                out.append(("C20", "create", f"{kk}: created {x[0]} is not compliant with the signature"))
    elif k == "pair":
        ka, kb = key(case["cfg"]["a"]), key(case["cfg"]["b"])
        eq = ka == kb
        fl = o[1]
        if fl[0] != int(eq) or fl[1] != int(eq) or fl[2] != int(not eq):
            out.append(("C20", "eq", f"{ka} vs {kb}: parameters {'equal' if eq else 'differ'} but a==b is {bool(fl[0])}, b==a is {bool(fl[1])}, a!=b is {bool(fl[2])}"))
        if fl[0] and _as_dict(x[0]) != _as_dict(x[1]):
            out.append(("C20", "eq", f"{ka} == {kb} but their members differ"))
    elif k == "port":
        flow, kk = exp_port(case["cfg"], case["port"])
        name = case["cfg"]["comp"] + "." + str(case["port"])
        if o[1] != flow:
            out.append(("C20", "flow", f"{name}: declared {'Out' if o[1] else 'In'}, its role implies {'Out' if flow else 'In'}"))
        if rb_key(o[3]) != kk:
            out.append(("C20", "params", f"{name} of {case['cfg']}: port signature has parameters {rb_key(o[3])}, expected {kk}"))
        if o[5] != 0:
            out.append(("C20", "connect", f"{name} of {case['cfg']}: wiring.connect() with the complementary "
                        f"{'initiator' if flow == IN else 'target'} interface {rb_key(o[3])} raised ConnectionError kind {o[5]}; "
                        f"port as seen outside: {fmt(o[4])}"))
        mine, other = _as_dict(o[4]), _as_dict(x[0])
        if set(mine) != set(other) or any(mine[p][0] == other[p][0] or mine[p][1:] != other[p][1:] for p in mine if p in other):
            out.append(("C20", "directions", f"{name} of {case['cfg']}: members as seen outside {fmt(o[4])} are not the mirror image of "
                        f"the complementary interface {fmt(x[0])}"))
        # as seen from outside a target port is the flipped standard signature, an initiator port the plain one
        if mine != _exp_dict(kk, flipped_=(flow == IN)):
            out.append(("C20", "directions", f"{name} of {case['cfg']}: members as seen outside {fmt(o[4])}, role implies {fmt(_exp_dict(kk, flow == IN))}"))
        if x[1] != 1:
            out.append(("C20", "compliance", f"{name}: port object is not compliant with its own signature"))
    elif k == "two":
        a, b = case["cfg"]["a"], case["cfg"]["b"]
        _, ka = exp_port(a, 0)
        _, kb = exp_port(b, 0)
        if ka == kb and o[1] != 0:
            out.append(("C20", "connect", f"arbiter.bus {ka} to sram.wb_bus {kb}: ConnectionError kind {o[1]}"))
    return out


def nontrivial(case, obs):
    """Accepted by the constructor(s); for port/two/misconnect a connect() was really attempted."""
    return obs[0][0] == 0


def stats(case, obs):
    o = obs[0]
    k = case["kind"]
    d = {"kind_" + k: 1, ("accepted" if o[0] == 0 else "refused"): 1}
    if k == "sig":
        d["sig_" + case["cfg"]["a"]["cls"]] = 1
    elif k == "pair":
        d["pair_" + case.get("mode", "?")] = 1
        if o[0] == 0:
            d["pair_equal" if o[1][0] else "pair_unequal"] = 1
    elif k == "port":
        d["port_" + case["cfg"]["comp"]] = 1
        if o[0] == 0:
            d[f"connect_{o[5]}"] = 1
    elif o[0] == 0:
        d[f"{k}_conn_{o[1]}"] = 1
    return d


def describe(case):
    d = {"engine": "wiring", "kind": case["kind"], "cfg": case["cfg"]}
    for f in ("port", "other", "flip", "mode"):
        if f in case:
            d[f] = case[f]
    return d
