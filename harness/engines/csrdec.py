"""Engine `csrdec` (C06): trees of csr.Decoder vs Model/CsrDecoder.v.

case = {"engine", "kind", "cfg": {"dw", "root": dec}, "stim": [[addr, r_stb, w_stb, w_data, [r_data by leaf uid]], ...]}
dec  = {"t": "dec", "aw", "align", "ops": [op, ...]}
op   = {"op": "add", "sub": dec | leaf, "name": str | None, "addr": int | None} | {"op": "align_to", "n": k}
leaf = {"t": "leaf", "aw", "uid", "kind": "iface" | "flipped" | "wb" | "obj", "dw": override or None}
"""
import json
from ..common import mkrnd
from .. import sim as S

ENGINE_ID = 6
N = {"quick": 160, "thorough": 2500}
RULE = ("random trees of real csr.Decoder (nesting <= 3, 0-4 windows each, implicit / explicit / align_to "
        "placement, named and anonymous windows, refused add() calls) swept over EVERY root address x the four "
        "strobe combinations with random data and random leaf r_data; non-trivial = at least two leaf ports, "
        "two different leaves strobed and at least one strobed cycle in which no leaf was selected or the "
        "tree is nested")

OK, TYPEERR, VALERR = 0, 1, 2
RAW_COMPARE = True    # from_model is the identity: model output == canon(obs)


# ----------------------------------------------------------------------------- generator

def align_up(v, k):
    m = 1 << k
    return v if v % m == 0 else v + m - v % m


class Pred:
    """Stimulus shaping only: where the generator EXPECTS each window to land (never used for checking)."""
    def __init__(self, aw, align):
        self.aw, self.align, self.next, self.ranges = aw, align, 0, []

    def align_to(self, k):
        self.next = align_up(self.next, max(k, self.align))

    def place(self, aw_w, addr):
        al = max(self.align, aw_w)
        if addr is None:
            addr = align_up(self.next, al)
        elif addr % (1 << self.align):
            return None
        size = align_up(1 << aw_w, al)
        if addr + size > (1 << self.aw):
            return None
        for (s, e) in self.ranges:
            if addr < e and s < addr + size:
                return None
        self.ranges.append((addr, addr + size))
        self.next = addr + size
        return addr


def gen_dec(rnd, st, aw, depth, levels):
    """One decoder description; st carries the uid counters; returns (dec, predicted leaves [(off, aw, uid)])."""
    align = rnd.choice([0, 0, 0, 0, 1, 1, 2, 3])
    if rnd.random() < 0.9:
        align = min(align, max(0, aw - 2))
    if aw >= 4 and rnd.random() < 0.12:
        # "staircase": the cursor is aligned once, generously, and then implicit windows of (mostly) growing width
        # follow - every one of them has to be aligned again from where the previous one ended
        align = min(align, 1)
        k = rnd.randint(2, min(aw - 1, 5))
        pred = Pred(aw, align)
        ops, pleaves = [{"op": "align_to", "n": k}], []
        pred.align_to(k)
        widths = sorted(rnd.randint(1, k) for _ in range(rnd.randint(2, 4)))
        if rnd.random() < 0.3:
            rnd.shuffle(widths)
        for saw in widths:
            sub = {"t": "leaf", "aw": saw, "uid": st["leaf"], "kind": "iface", "dw": None}
            st["leaf"] += 1
            name = None
            if rnd.random() < 0.5:
                name = f"w{st['name']}"
                st["name"] += 1
            ops.append({"op": "add", "sub": sub, "name": name, "addr": None})
            at = pred.place(saw, None)
            if at is not None:
                pleaves.append((at, saw, sub["uid"]))
        return {"t": "dec", "aw": aw, "align": align, "ops": ops}, pleaves
    nwin = rnd.choice([0] + [1] * 2 + [2] * 4 + [3] * 5 + [4] * 6)
    pred = Pred(aw, align)
    ops, pleaves = [], []
    for wi in range(nwin):
        if rnd.random() < 0.2:
            k = rnd.randint(0, min(aw, 4))
            ops.append({"op": "align_to", "n": k})
            pred.align_to(k)
        nested = depth < levels and aw >= 2 and rnd.random() < (0.7 if depth == 1 else 0.5)
        fit = rnd.random() < 0.94        # mostly windows that can fit: share what is left of the space
        room = ((1 << aw) - pred.next) // (nwin - wi)
        cap = max(1, room.bit_length() - 1)
        if nested:
            saw = rnd.randint(max(1, min(cap, aw - 1) - 2), max(1, min(cap, aw - 1))) if fit else rnd.randint(1, min(aw + 1, 8))
            sub, sl = gen_dec(rnd, st, saw, depth + 1, levels)
        else:
            saw = rnd.choice([2, 3, 3, 4, 4, 4, 1] if aw >= 5 else [1, 1, 2, 2, 3, 4])
            if fit:
                saw = min(saw, cap)
            sub = {"t": "leaf", "aw": saw, "uid": st["leaf"], "kind": "iface", "dw": None}
            st["leaf"] += 1
            p = rnd.random()
            if p < 0.08:
                sub["kind"] = "flipped"
            elif p < 0.10:
                sub["kind"] = rnd.choice(["wb", "obj"])
            elif p < 0.12:
                sub["dw"] = rnd.choice([d for d in (4, 8, 16, 32) if d != st["dw"]])
            sl = [(0, saw, sub["uid"])]
        name = None
        if rnd.random() < 0.5:
            name = f"w{st['name']}" if rnd.random() < 0.97 else "w0"   # rarely a clashing name
            st["name"] += 1
        addr = None
        q = rnd.random()
        al = max(saw, align)
        size = 1 << al
        nslots = max(1, (1 << aw) // size)
        if q < 0.30:      # explicit, size-aligned, after everything placed so far (maybe leaving a gap)
            first = align_up(pred.next, al) // size
            last = min(nslots - (nwin - wi), first + 2)      # leave room for the windows still to come
            addr = size * (rnd.randint(first, max(first, last)) if fit else first + 2)
        elif q < 0.42:    # explicit, size-aligned, anywhere: may fill a gap, overlap or fall outside
            addr = size * rnd.randrange(0, nslots + (0 if fit else 2))
        elif q < 0.42 + st["misalign"]:   # explicit, aligned to the decoder but not to the window (note N2)
            addr = (1 << align) * rnd.randrange(0, max(1, (1 << aw) >> align))
        ops.append({"op": "add", "sub": sub, "name": name, "addr": addr})
        good = sub["t"] == "dec" or (sub["kind"] in ("iface", "flipped") and sub["dw"] is None)
        at = pred.place(saw, addr) if good else None
        if at is not None:
            pleaves += [(at + o, a, u) for (o, a, u) in sl]
    return {"t": "dec", "aw": aw, "align": align, "ops": ops}, pleaves


def gen_case(seed, tier, idx):
    rnd = mkrnd(seed, "csrdec", idx)
    kind = ["flat", "nested", "nested", "flat-small", "nested-misc", "nested"][idx % 6]
    dw = rnd.choice([8, 8, 8, 4, 16, 32, 1])
    st = {"leaf": 0, "name": 0, "dw": dw, "misalign": 0.0}
    if kind == "flat":
        aw, levels = rnd.choice([3, 3, 4, 4, 4, 5, 5, 6, 7, 8]), 1
    elif kind == "flat-small":
        aw, levels = rnd.choice([1, 2, 2, 3, 3, 4]), 1
    elif kind == "nested-misc":
        aw, levels = rnd.choice([4, 5, 6, 7, 8]), rnd.choice([2, 3])
        st["misalign"] = 0.25
    else:
        aw, levels = rnd.choice([3, 4, 4, 5, 5, 6, 6, 7, 8]), rnd.choice([2, 2, 3])
    root, pleaves = gen_dec(rnd, st, aw, 1, levels)
    nl = st["leaf"]
    addrs = list(range(1 << aw))
    if rnd.random() < 0.5:
        rnd.shuffle(addrs)
    stim = []

    def rdata(a, conforming):
        if not conforming:
            return [rnd.randrange(1 << dw) for _ in range(nl)]
        row = [0] * nl   # protocol-following targets: only the (expected) addressed leaf answers
        for (o, law, u) in pleaves:
            if o <= a < o + (1 << law):
                row[u] = rnd.randrange(1 << dw)
        return row

    for a in addrs:
        for rw in (0, 1, 2, 3):
            stim.append([a, rw & 1, rw >> 1, rnd.randrange(1 << dw), rdata(a, rnd.random() < 0.5)])
    for _ in range(16):     # unconstrained tail: revisits addresses in random order (no hidden state)
        a = rnd.randrange(1 << aw)
        stim.append([a, rnd.randrange(2), rnd.randrange(2), rnd.randrange(1 << dw), rdata(a, rnd.random() < 0.3)])
    return {"engine": "csrdec", "kind": kind, "cfg": {"dw": dw, "root": root}, "stim": stim}


# ----------------------------------------------------------------------------- the real thing

class Built:
    """A real csr.Decoder with the outcome of every add() call."""
    def __init__(self, dec, aw):
        self.dec, self.aw = dec, aw
        self.codes = []      # per add() call: OK / TYPEERR / VALERR
        self.unaligned = [0, 0]   # windows placed off their own span: [with an explicit addr=, by the map itself]
        self.isif = []       # per add() call: [is csr.Interface, data width of the subordinate]
        self.kids = []       # placed: (start, stop, sub_aw, Built | leaf dict, signals-bearing interface, map)
        self.refused = []    # (interface, uid) of leaf interfaces whose add() was refused with ValueError


def _MockReg(width, access):
    from amaranth.lib import wiring
    from amaranth.lib.wiring import Out
    from amaranth_soc import csr

    class MockReg(wiring.Component):
        def __init__(self):
            super().__init__({"element": Out(csr.Element.Signature(width, access))})
    return MockReg()


def _peek_more(mm, addr):
    """The other queries a user can make of a half-built map (flattened listing, address lookups at the window just
    placed and at both ends of the space); none may change what the finished decoder says or does."""
    try:
        list(mm.all_resources())
    except Exception:
        pass
    mm.decode_address(addr); mm.decode_address(0); mm.decode_address((1 << mm.addr_width) - 1)


def build(cfg):
    from amaranth_soc import csr, wishbone
    from amaranth_soc.memory import MemoryMap
    from amaranth.lib.wiring import flipped
    dw = cfg["dw"]

    def mk(d):
        dec = csr.Decoder(addr_width=d["aw"], data_width=dw, alignment=d["align"])
        b = Built(dec, d["aw"])
        for op in d["ops"]:
            if op["op"] == "align_to":
                dec.align_to(op["n"])
                continue
            s = op["sub"]
            if s["t"] == "dec":
                child = mk(s)
                obj, port, mmap, saw, isif, sdw = child.dec.bus, child.dec.bus, child.dec.bus.memory_map, s["aw"], 1, dw
            else:
                child = s
                sdw = s["dw"] or dw
                saw = s["aw"]
                if s["kind"] in ("iface", "flipped"):
                    port = csr.Interface(addr_width=saw, data_width=sdw, path=(f"s{s['uid']}",))
                    mmap = MemoryMap(addr_width=saw, data_width=sdw)
                    # what lies behind a subordinate must not matter to the decoder: give the leaf maps
                    # registers of every access mix (none / rw / r+w / w+rw / w only), by leaf number
                    for k, acc in enumerate([(), ("rw",), ("r", "w"), ("w", "rw"), ("w",)][s["uid"] % 5]):
                        if k < (1 << saw):
                            mmap.add_resource(_MockReg(sdw, acc), name=(f"r{k}",), size=1)
                    port.memory_map = mmap
                    obj = flipped(port) if s["kind"] == "flipped" else port
                    isif = 1
                else:
                    obj = (wishbone.Interface(addr_width=saw, data_width=8, path=(f"s{s['uid']}",))
                           if s["kind"] == "wb" else object())
                    port = mmap = None
                    isif = 0
            kw = {}
            if op["name"] is not None:
                kw["name"] = op["name"]
            if op["addr"] is not None:
                kw["addr"] = op["addr"]
            b.isif.append([isif, sdw])
            try:
                r = dec.add(obj, **kw)
            except TypeError:
                b.codes.append(TYPEERR)
                continue
            except ValueError:
                b.codes.append(VALERR)
                if not isinstance(child, Built) and port is not None:
                    b.refused.append((port, child["uid"]))
                continue
            b.codes.append(OK)
            b.kids.append((r[0], r[1], saw, child, port, mmap))
            if r[0] % (1 << saw):
                b.unaligned[0 if op["addr"] is not None else 1] += 1
            if len(b.kids) % 2 == 1:
                # looking at a half-built decoder (listing its windows, as a log message or an early elaboration
                # would) must not change what it becomes
                list(dec.bus.memory_map.windows()); list(dec.bus.memory_map.window_patterns())
                _peek_more(dec.bus.memory_map, r[0])
        return b
    return mk(cfg["root"])


def model_tree(b, ctr):
    """sx tree from the ranges the real add() calls returned, windows in ascending address order."""
    wins = []
    for (start, stop, saw, child, port, mmap) in sorted(b.kids, key=lambda k: k[0]):
        if isinstance(child, Built):
            sub = model_tree(child, ctr)
        else:
            sub = [0, saw, ctr[0]]
            ctr[0] += 1
            ctr[1].append(child["uid"])
        wins.append([start, stop, sub])
    adds = [[i, d, int(c == OK)] for (i, d), c in zip(b.isif, b.codes)]
    return [1, b.aw, None, adds, wins]


_cache = {}


def to_model(case):
    key = json.dumps(case["cfg"], sort_keys=True)
    if key not in _cache:
        ctr = [0, []]
        t = model_tree(build(case["cfg"]), ctr)
        _cache.clear()
        _cache[key] = (t, ctr[1])
    t, uids = _cache[key]

    def fill(n):
        return n if n[0] == 0 else [1, n[1], case["cfg"]["dw"], n[3], [[s, e, fill(c)] for (s, e, c) in n[4]]]
    return [fill(t), [[a, r, w, d, [rds[u] for u in uids]] for (a, r, w, d, rds) in case["stim"]]]


def run_impl(case):
    """[add() codes per decoder (preorder), [[leaf ports in address order], root r_data] per cycle, meta];
    meta = what the REAL memory maps say, for the oracle."""
    from amaranth import Module
    root = build(case["cfg"])
    m = Module()
    codes, leaves, cnt = [], [], [0]

    def walk(b):
        """Follows the ranges the accepted add() calls returned, in ascending address order; the decoder's
        memory_map.windows() must list exactly these (checked below)."""
        m.submodules[f"d{cnt[0]}"] = b.dec
        cnt[0] += 1
        codes.append(list(b.codes))
        meta = []
        listed = [(id(wmap), start, stop) for (wmap, _name, (start, stop, _ratio)) in b.dec.bus.memory_map.windows()]
        for (start, stop, saw, child, port, wmap) in sorted(b.kids, key=lambda k: k[0]):
            if (id(wmap), start, stop) not in listed:
                lost.append([start, stop])
            if isinstance(child, Built):
                meta.append([start, stop, port.addr_width, walk(child)])
            else:
                meta.append([start, stop, port.addr_width, [0, len(leaves), child["uid"]]])
                leaves.append((port, child["uid"]))
        return [1, meta]
    lost = []
    meta = walk(root)
    meta.append(lost)
    # "at the addresses the memory map reports": every register of every leaf map as the ROOT map lists it
    # ([leaf position, local start, local stop, reported start, reported stop]; -1 = listed but nobody's)
    owner = {}
    for pos, (port, _u) in enumerate(leaves):
        for res, _n, (ls, le) in port.memory_map.resources():
            owner[id(res)] = (pos, ls, le)
    reported = []
    for info in root.dec.bus.memory_map.all_resources():
        pos, ls, le = owner.pop(id(info.resource), (-1, 0, 0))
        reported.append([pos, ls, le, info.start, info.end])
    reported += [[pos, ls, le, -1, -1] for (pos, ls, le) in owner.values()]
    meta.append(reported)
    unal = [0, 0]

    def count(b):
        unal[0] += b.unaligned[0]; unal[1] += b.unaligned[1]
        for k in b.kids:
            if isinstance(k[3], Built):
                count(k[3])
    count(root)
    meta.append(unal)
    bus = root.dec.bus
    # interfaces whose add() was refused are not part of the decoder: they keep talking (non-zero r_data every
    # cycle) and must have no influence on it
    refused = []

    def collect(b):
        refused.extend(b.refused)
        for k in b.kids:
            if isinstance(k[3], Built):
                collect(k[3])
    collect(root)
    ins = [bus.addr, bus.r_stb, bus.w_stb, bus.w_data] + [p.r_data for (p, _u) in leaves] + [p.r_data for (p, _u) in refused]
    outs = [bus.r_data]
    for (p, _u) in leaves:
        outs += [p.addr, p.r_stb, p.w_stb, p.w_data]
    stim = [[a, r, w, d] + [rds[u] for (_p, u) in leaves] + [rds[u] | 1 for (_p, u) in refused]
            for (a, r, w, d, rds) in case["stim"]]
    rows = S.simulate(m, ins, outs, stim)
    obs = [[[row[1 + 4 * k: 5 + 4 * k] for k in range(len(leaves))], row[0]] for row in rows]
    return [codes, obs, meta]


def from_model(res):
    return res


def canon(obs):
    """meta (the real maps' windows) is for the oracle only."""
    return obs[:2]


# ----------------------------------------------------------------------------- oracle

def in_domain(meta):
    """C06/N2 quantify over windows whose start is a multiple of the subordinate's span."""
    for (start, stop, saw, sub) in meta[1]:
        if start % (1 << saw):
            return False
        if sub[0] == 1 and not in_domain(sub):
            return False
    return True


def addressed(meta, x):
    """(leaf position, local address) the real memory maps assign to x, or None.  A window's range beyond
    the subordinate's 2**addr_width addresses (alignment padding) holds nothing."""
    hits = [(start, saw, sub) for (start, stop, saw, sub) in meta[1] if start <= x < start + (1 << saw)]
    if len(hits) != 1:
        return None
    start, saw, sub = hits[0]
    if sub[0] == 0:
        return sub[1], x - start
    return addressed(sub, x - start)


def leaf_list(meta, out):
    for (_s, _e, _a, sub) in meta[1]:
        if sub[0] == 0:
            out.append(sub[2])
        else:
            leaf_list(sub, out)
    return out


def oracle(case, obs):
    """C06 over implementation observations only: the strobes of the root reach exactly the leaf whose window
    (by the real memory maps) contains the address, with the local address and the write data unchanged, in
    the same cycle; nobody is strobed on an unassigned address; with idle leaves returning 0 the root reads the
    addressed leaf's data."""
    codes, rows, meta = obs
    # N2: a window the USER put (addr=) off a multiple of its span is outside the property's domain.  One the
    # memory map itself placed there (no addr=) is not the user's doing: the oracle applies, and it will find
    # the decoder routing other addresses to that subordinate than the map reports.
    if (meta[4][0] > 0) if len(meta) > 4 else not in_domain(meta):
        return []
    uids = leaf_list(meta, [])
    out = []
    for (s_, e_) in (meta[2] if len(meta) > 2 else []):
        out.append(("C06", "windows", f"the subordinate that add() placed at [{s_:#x}, {e_:#x}) is missing from its decoder's "
                                      f"memory_map.windows(): the decoder cannot select it"))
    for (pos, ls, le, rs, re_) in (meta[3] if len(meta) > 3 else []):
        where = [addressed(meta, x) for x in range(rs, re_)]
        if pos < 0 or rs < 0 or re_ - rs != le - ls or where != [(pos, ls + j) for j in range(le - ls)]:
            out.append(("C06", "reported", f"the root memory map reports the register at local [{ls:#x}, {le:#x}) of leaf {pos} at "
                                           f"[{rs:#x}, {re_:#x}); the decoders route those addresses to {where[:4]}"))
    for t, ((a, r, w, d, rds), (ports, rdata)) in enumerate(zip(case["stim"], rows)):
        hit = addressed(meta, a)
        for k, (pa, pr, pw, pd) in enumerate(ports):
            if hit is not None and hit[0] == k:
                if (pr, pw) != (r, w):
                    out.append(("C06", t, f"addr {a:#x} r_stb={r} w_stb={w}: addressed leaf {k} sees r_stb={pr} w_stb={pw}"))
                if pa != hit[1]:
                    out.append(("C06", t, f"addr {a:#x}: addressed leaf {k} gets address {pa:#x}, its window says {hit[1]:#x}"))
                if pd != d:
                    out.append(("C06", t, f"addr {a:#x}: addressed leaf {k} gets w_data {pd:#x}, bus has {d:#x}"))
            elif pr or pw:
                out.append(("C06", t, f"addr {a:#x} r_stb={r} w_stb={w}: leaf {k} is strobed (r_stb={pr} w_stb={pw}) but "
                                      f"{'leaf %d is addressed' % hit[0] if hit else 'the address is unassigned'}"))
        idle_zero = all(rds[u] == 0 for k, u in enumerate(uids) if hit is None or k != hit[0])
        if idle_zero:
            want = rds[uids[hit[0]]] if hit is not None else 0
            if rdata != want:
                out.append(("C06", t, f"addr {a:#x}: idle leaves return 0, addressed leaf returns {want:#x}, root reads {rdata:#x}"))
        if len(out) > 20:
            break
    return out


def nontrivial(case, obs):
    """>= 2 leaf ports, >= 2 different leaves strobed, and an unassigned strobed address or a nested tree."""
    codes, rows, meta = obs
    if not rows or len(rows[0][0]) < 2:
        return False
    strobed = set()
    nobody = False
    for (a, r, w, d, rds), (ports, _rd) in zip(case["stim"], rows):
        ks = [k for k, p in enumerate(ports) if p[1] or p[2]]
        strobed.update(ks)
        if (r or w) and not ks:
            nobody = True
    return len(strobed) >= 2 and (nobody or len(codes) > 1)


def depth_of(meta):
    return 1 + max([depth_of(s[3]) for s in meta[1] if s[3][0] == 1] or [0])


def stats(case, obs):
    """Integer counters of the input distribution actually produced (summed over cases by the runner)."""
    d = {}

    def inc(k, n=1):
        d[k] = d.get(k, 0) + int(n)
    if not isinstance(obs, list) or len(obs) != 3 or obs[0] == "harness-exception":
        return d
    codes, rows, meta = obs
    inc("cycles", len(rows))
    inc(f"leaf_ports={len(rows[0][0]) if rows else 0}")
    inc(f"depth={depth_of(meta)}")
    for cs in codes:
        for x in cs:
            inc("add_" + ["ok", "TypeError", "ValueError"][x])
    if not in_domain(meta):
        inc("out_of_domain_cases(N2: model compared, oracle silent)")
        return d
    uids = leaf_list(meta, [])

    def pads(mt):
        return sum((e - s > (1 << a)) + (pads(sub) if sub[0] == 1 else 0) for (s, e, a, sub) in mt[1])
    inc("windows_with_alignment_padding", pads(meta))
    for (a, r, w, dd, rds) in case["stim"]:
        hit = addressed(meta, a)
        if r or w:
            inc("strobed_cycles")
            inc("strobed_unassigned", hit is None)
        if r and hit is not None and all(rds[u] == 0 for k, u in enumerate(uids) if k != hit[0]):
            inc("read_premise_hits")
    return d


def describe(case):
    def shape(n):
        if n["t"] == "leaf":
            return f"leaf{n['aw']}" + ("" if n["kind"] == "iface" and not n["dw"] else f":{n['kind']}:{n['dw']}")
        return {"aw": n["aw"], "align": n["align"],
                "ops": [(("@" + str(o["addr"]) if o["addr"] is not None else "") + ("n" if o["name"] else ""), shape(o["sub"]))
                        if o["op"] == "add" else f"align_to({o['n']})" for o in n["ops"]]}
    return {"engine": "csrdec", "kind": case["kind"], "dw": case["cfg"]["dw"], "tree": shape(case["cfg"]["root"]),
            "cycles": len(case["stim"]), "first_cycle": case["stim"][0] if case["stim"] else None}


def shrink(case, fails):
    """Keep a single failing cycle if one suffices."""
    try:
        br = oracle(case, run_impl(case))
    except Exception:
        return case
    for b in br[:3]:
        c = dict(case)
        c["stim"] = [case["stim"][b[1]]]
        if fails(c):
            return c
    return case
